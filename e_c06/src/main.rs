//! C06, layer (a): descriptors are closed exactly once, never while in use, never leaked —
//! single-threaded close protocol and descriptor accounting on the REAL runtime, both drivers.
//!
//! Family "handles": every program up to a depth over
//!   Clone, DropHandle(h), StartOp(h) (a pending read holding the descriptor), CompleteOp(o)
//!   (peer writes, harvest, poll), CancelOp(o) (drop the pending read), CloseCreate(h)
//!   (`h.close()`), ClosePoll(c) (fresh waker every poll), CloseDrop(c), Harvest
//! on a `compio_net::UnixStream` whose peer is a raw std socket owned by the harness.
//! Family "produced": descriptor-producing operations (accept, File::open) with the orders of
//!   {submit (first poll), make-ready (peer connects), cancel (drop the future), harvest}.
//! Oracle: (1) `close().await` is Ready exactly when no other handle and no unfinished operation
//! holds the descriptor — not before, and at the next poll after the last release; its latest
//! waker is woken by that release; (2) at the end (everything dropped, runtime dropped) the
//! process has exactly the descriptors it had at the start: none leaked, and a canary opened
//! right after the close (it reuses the number) is still open, so nothing was closed twice.
//!
//! Descriptor numbers are per process: the enumeration is sharded over single-threaded worker
//! PROCESSES (`--shard i n`), so that /proc/self/fd is deterministic.
use std::{
    collections::BTreeSet,
    future::Future,
    io::Write,
    os::fd::{AsRawFd, RawFd},
    pin::Pin,
    process::{Command, Stdio},
    sync::{
        Arc,
        atomic::{AtomicUsize, Ordering::SeqCst},
    },
    task::{Context, Poll, Wake, Waker},
    time::Duration,
};

use compio_buf::BufResult;
use compio_driver::{DriverType, ProactorBuilder};
use compio_io::AsyncRead;
use compio_net::UnixStream;
use compio_runtime::Runtime;
use vcore::{Chooser, Report, Tier, Violation, json};

struct CountWaker(AtomicUsize);

impl Wake for CountWaker {
    fn wake(self: Arc<Self>) {
        self.0.fetch_add(1, SeqCst);
    }

    fn wake_by_ref(self: &Arc<Self>) {
        self.0.fetch_add(1, SeqCst);
    }
}

fn open_fds() -> BTreeSet<RawFd> {
    let mut s = BTreeSet::new();
    let dir = std::fs::read_dir("/proc/self/fd").unwrap();
    let dfd = 0; // the directory's own fd is filtered by checking validity afterwards
    let _ = dfd;
    for e in dir.flatten() {
        if let Ok(n) = e.file_name().to_string_lossy().parse::<RawFd>() {
            s.insert(n);
        }
    }
    // the read_dir handle itself shows up; drop entries that are no longer valid
    s.into_iter().filter(|fd| unsafe { libc::fcntl(*fd, libc::F_GETFD) } != -1).collect()
}

thread_local! { static BASELINE: std::cell::RefCell<Option<BTreeSet<RawFd>>> = const { std::cell::RefCell::new(None) }; }

/// the worker process's descriptors before any execution (every execution must return to it)
fn baseline() -> BTreeSet<RawFd> {
    BASELINE.with(|b| b.borrow_mut().get_or_insert_with(open_fds).clone())
}

/// descriptor set once it is stable (pool threads may still be finishing a cancelled job)
fn settled_fds(expect: &BTreeSet<RawFd>) -> BTreeSet<RawFd> {
    let mut cur = open_fds();
    for _ in 0..200 {
        if &cur == expect {
            return cur;
        }
        std::thread::sleep(Duration::from_millis(1));
        cur = open_fds();
    }
    cur
}

fn close_leaked(leaked: &[RawFd]) {
    for fd in leaked {
        unsafe { libc::close(*fd) };
    }
}

fn is_open(fd: RawFd) -> bool {
    unsafe { libc::fcntl(fd, libc::F_GETFD) != -1 }
}

fn runtime(driver: DriverType) -> Runtime {
    runtime_cap(driver, 8)
}

fn runtime_cap(driver: DriverType, cap: u32) -> Runtime {
    let mut pb = ProactorBuilder::new();
    pb.driver_type(driver).capacity(cap);
    let mut rb = Runtime::builder();
    rb.with_proactor(pb);
    rb.build().expect("runtime")
}

fn harvest(rt: &Runtime) {
    for _ in 0..3 {
        rt.poll_with(Some(Duration::ZERO));
        rt.run();
    }
}

type BoxFut<T> = Pin<Box<dyn Future<Output = T>>>;

struct OpSlot {
    fut: Option<BoxFut<BufResult<usize, Vec<u8>>>>,
    /// Pending | Cancelling (future dropped, completion not yet reaped) | Done
    state: u8,
}

struct CloseSlot {
    fut: Option<BoxFut<std::io::Result<()>>>,
    waker: Arc<CountWaker>,
    polled: bool,
    done: bool,
}

fn run_handles(driver: DriverType, depth: usize, ch: &mut Chooser, log: &mut Vec<String>) -> Result<String, (String, String)> {
    let fail = |k: String, d: String| -> Result<String, (String, String)> { Err((k, d)) };
    let before = baseline();
    let rt = runtime(driver);
    let base_with_rt = open_fds();
    let (a, mut peer) = std::os::unix::net::UnixStream::pair().unwrap();
    a.set_nonblocking(true).unwrap();
    peer.set_nonblocking(true).unwrap();
    let raw = a.as_raw_fd();
    let first = rt.enter(|| UnixStream::from_std(a)).map_err(|e| ("setup".to_string(), format!("{e}")))?;
    let mut handles: Vec<Option<UnixStream>> = vec![Some(first)];
    let mut ops: Vec<OpSlot> = Vec::new();
    let mut closes: Vec<CloseSlot> = Vec::new();
    let mut canary: Option<std::fs::File> = None;
    let mut closed_seen = false;
    // a two-descriptor operation: splice(stream -> pipe); the pipe is created at first use
    let mut pipe: Option<(std::os::fd::OwnedFd, compio_fs::File)> = None;
    // bytes written by the peer / consumed by completed reads (a cancelled read may also consume one)
    let mut written = 0usize;
    let mut consumed = 0usize;
    // a close future dropped before its first poll keeps its handle forever (see the leak oracle)
    let leaked_closer = false;
    let noop = Waker::from(Arc::new(CountWaker(AtomicUsize::new(0))));

    macro_rules! holders {
        () => {{
            let h = handles.iter().filter(|h| h.is_some()).count();
            let o = ops.iter().filter(|o| o.state == 0).count();
            let c = ops.iter().filter(|o| o.state == 1).count();
            (h, o, c)
        }};
    }

    for _ in 0..depth {
        let nh = handles.len();
        let mut menu: Vec<(u8, usize)> = vec![(0, 0), (9, 0)];
        for i in 0..nh {
            if handles[i].is_some() {
                if handles.iter().filter(|h| h.is_some()).count() < 3 {
                    menu.push((1, i));
                }
                menu.push((2, i));
                if ops.iter().filter(|o| o.state == 0).count() < 2 {
                    menu.push((3, i));
                    // (polling driver only: there every step of an operation happens inside a
                    // harness step; io_uring runs splice on its worker pool, whose timing nobody owns)
                    if driver == DriverType::Poll {
                        menu.push((10, i));
                    }
                }
                if closes.len() < 2 {
                    menu.push((6, i));
                }
            }
        }
        for (i, o) in ops.iter().enumerate() {
            if o.state == 0 {
                menu.push((4, i));
                menu.push((5, i));
            }
        }
        for (i, c) in closes.iter().enumerate() {
            if !c.done && c.fut.is_some() {
                menu.push((7, i));
                menu.push((8, i));
            }
        }
        let (op, arg) = menu[ch.pick(menu.len())];
        match op {
            0 => break,
            1 => {
                let c = handles[arg].as_ref().unwrap().clone();
                handles.push(Some(c));
                log.push(format!("clone({arg})"));
            }
            2 => {
                rt.enter(|| drop(handles[arg].take()));
                log.push(format!("drop-handle({arg})"));
            }
            3 | 10 => {
                let s = handles[arg].as_ref().unwrap().clone();
                let mut fut: BoxFut<BufResult<usize, Vec<u8>>> = if op == 3 {
                    Box::pin(async move {
                        let mut s = s;
                        s.read(Vec::with_capacity(4)).await
                    })
                } else {
                    // an operation that holds TWO descriptors: the stream (input) and a pipe (output)
                    if pipe.is_none() {
                        let mut fds = [0 as RawFd; 2];
                        assert_eq!(unsafe { libc::pipe2(fds.as_mut_ptr(), libc::O_NONBLOCK | libc::O_CLOEXEC) }, 0);
                        use std::os::fd::FromRawFd;
                        let rx = unsafe { std::os::fd::OwnedFd::from_raw_fd(fds[0]) };
                        let tx = rt.enter(|| unsafe { compio_fs::File::from_raw_fd(fds[1]) });
                        pipe = Some((rx, tx));
                    }
                    let tx = pipe.as_ref().unwrap().1.clone();
                    Box::pin(async move {
                        let r = compio_fs::pipe::splice(&s, &tx, 4).await;
                        BufResult(r, Vec::new())
                    })
                };
                let opname = if op == 3 { "start-op" } else { "start-splice" };
                let p = rt.enter(|| fut.as_mut().poll(&mut Context::from_waker(&noop)));
                if let Poll::Ready(BufResult(r, _)) = p {
                    // unread bytes of earlier writes may be left in the stream (taken by nobody yet)
                    let cancelling = ops.iter().filter(|o| o.state == 1).count();
                    if written <= consumed && cancelling == 0 {
                        return fail("op-ready-without-data".into(), format!("read completed ({r:?}) although the peer wrote nothing that is still unread"));
                    }
                    consumed += r.unwrap_or(0);
                    rt.enter(|| drop(fut));
                    ops.push(OpSlot { fut: None, state: 2 });
                    log.push(format!("{opname}({arg})->completed-at-once"));
                    continue;
                }
                ops.push(OpSlot { fut: Some(fut), state: 0 });
                log.push(format!("{opname}({arg})"));
            }
            4 => {
                peer.write_all(b"x").unwrap();
                written += 1;
                harvest(&rt);
                let mut fut = ops[arg].fut.take().unwrap();
                let p = rt.enter(|| fut.as_mut().poll(&mut Context::from_waker(&noop)));
                match p {
                    Poll::Ready(BufResult(Ok(n), _)) if n >= 1 => {
                        consumed += n;
                    }
                    Poll::Ready(BufResult(r, _)) => {
                        // with two pending reads on one stream either may take the byte
                        log.push(format!("complete-op({arg})->{r:?}"));
                    }
                    Poll::Pending => {
                        // the other pending read got the byte: keep this one pending
                        if ops.iter().filter(|o| o.state == 0 || o.state == 1).count() < 2 {
                            return fail("op-not-completed".into(), "peer wrote a byte, harvest ran, the only pending read is still Pending".into());
                        }
                        ops[arg].fut = Some(fut);
                        log.push(format!("complete-op({arg})->other-op-took-it"));
                        continue;
                    }
                }
                rt.enter(|| drop(fut));
                ops[arg].state = 2;
                log.push(format!("complete-op({arg})"));
            }
            5 => {
                rt.enter(|| drop(ops[arg].fut.take()));
                ops[arg].state = 1;
                log.push(format!("cancel-op({arg})"));
            }
            6 => {
                let h = handles[arg].take().unwrap();
                let fut: BoxFut<std::io::Result<()>> = rt.enter(|| Box::pin(h.close()));
                closes.push(CloseSlot { fut: Some(fut), waker: Arc::new(CountWaker(AtomicUsize::new(0))), polled: false, done: false });
                log.push(format!("close-create({arg})"));
            }
            7 => {
                let (h, o, c) = holders!();
                let other_closers = closes.iter().enumerate().filter(|(i, x)| *i != arg && !x.done && x.fut.is_some()).count();
                let w = Arc::new(CountWaker(AtomicUsize::new(0)));
                closes[arg].waker = w.clone();
                closes[arg].polled = true;
                let mut fut = closes[arg].fut.take().unwrap();
                let mut p = rt.enter(|| fut.as_mut().poll(&mut Context::from_waker(&Waker::from(w))));
                if p.is_pending() && h + o + c + other_closers == 0 {
                    // the descriptor is ours: the close operation itself is an operation (on the
                    // polling driver it runs on the blocking pool): wait, bounded, for its completion
                    for _ in 0..500 {
                        harvest(&rt);
                        if closes[arg].waker.0.load(SeqCst) > 0 {
                            break;
                        }
                        std::thread::sleep(Duration::from_millis(1));
                    }
                    let w2 = closes[arg].waker.clone();
                    p = rt.enter(|| fut.as_mut().poll(&mut Context::from_waker(&Waker::from(w2))));
                }
                log.push(format!("close-poll({arg})->{}", if p.is_ready() { "Ready" } else { "Pending" }));
                match p {
                    Poll::Ready(r) => {
                        closes[arg].done = true;
                        if h + o > 0 {
                            let cause = if other_closers > 0 { "another-close-already-waiting" } else { "other" };
                            return fail(
                                format!("close-completed-early:{cause}"),
                                format!("close() completed while {h} other handle(s) and {o} unfinished operation(s) still hold the descriptor"),
                            );
                        }
                        if let Err(e) = r {
                            return fail("close-error".into(), format!("{e}"));
                        }
                        if other_closers == 0 && c == 0 {
                            if is_open(raw) && !closed_seen && canary.is_none() {
                                return fail("close-did-not-close".into(), format!("close() returned Ok but descriptor {raw} is still open"));
                            }
                            if canary.is_none() {
                                closed_seen = true;
                                // reuses the lowest free number, normally `raw`
                                canary = Some(std::fs::File::open("/dev/null").unwrap());
                            }
                        }
                        rt.enter(|| drop(fut));
                    }
                    Poll::Pending => {
                        if h + o + c + other_closers == 0 {
                            let cause = if leaked_closer { "after-another-close-future-was-dropped-unpolled" } else { "other" };
                            return fail(
                                format!("close-hangs:{cause}"),
                                "every other handle and operation has let go (and a harvest ran), yet close() is still Pending".into(),
                            );
                        }
                        closes[arg].fut = Some(fut);
                    }
                }
            }
            8 => {
                let polled = closes[arg].polled;
                rt.enter(|| drop(closes[arg].fut.take()));
                closes[arg].done = true;
                log.push(format!("close-drop({arg},{})", if polled { "pending" } else { "unpolled" }));
            }
            _ => {
                harvest(&rt);
                for o in ops.iter_mut() {
                    if o.state == 1 {
                        o.state = 2;
                    }
                }
                log.push("harvest".into());
            }
        }
        // wake obligation: a pending close whose last obstacle just went away must have been woken
        let (h, o, c) = holders!();
        if h + o + c == 0 {
            let live: Vec<usize> = closes.iter().enumerate().filter(|(_, x)| !x.done && x.fut.is_some()).map(|(i, _)| i).collect();
            let pending: Vec<usize> = live.iter().copied().filter(|&i| closes[i].polled).collect();
            if pending.len() == 1 && live.len() == 1 && !leaked_closer {
                let i = pending[0];
                if closes[i].waker.0.load(SeqCst) == 0 {
                    let why = if closes.iter().filter(|x| x.polled || x.done).count() > 1 { "another-closer-finished" } else { "last-holder-released" };
                    return fail(
                        format!("close-not-woken:{why}"),
                        format!("close #{i} returned Pending with a fresh waker; every other holder has let go since, but that waker was never woken"),
                    );
                }
            }
        }
    }
    // teardown: drop everything, then the runtime
    rt.enter(|| {
        for c in closes.iter_mut() {
            drop(c.fut.take());
        }
        for o in ops.iter_mut() {
            drop(o.fut.take());
        }
        handles.clear();
        drop(pipe.take());
    });
    harvest(&rt);
    let unpolled_close_dropped = log.iter().any(|l| l.contains("unpolled")) || closes.iter().any(|c| !c.polled);
    drop(rt);
    let _ = base_with_rt;
    drop(peer);
    if let Some(c) = &canary {
        if !is_open(c.as_raw_fd()) {
            return fail("double-close".into(), "a descriptor opened after close() completed (same number) was closed by compio".into());
        }
    }
    drop(canary);
    // on the polling driver the close operation itself runs on the blocking pool and may finish late
    let after = if driver == DriverType::Poll { settled_fds(&before) } else { open_fds() };
    let leaked: Vec<RawFd> = after.difference(&before).copied().collect();
    close_leaked(&leaked);
    if !leaked.is_empty() {
        let cause = if unpolled_close_dropped { "close-future-dropped-unpolled" } else { "other" };
        return fail(format!("descriptor-leaked:{cause}"), format!("descriptors {leaked:?} are still open after every handle, operation and the runtime were dropped (stream fd was {raw})"));
    }
    let missing: Vec<RawFd> = before.difference(&after).copied().collect();
    if !missing.is_empty() {
        return fail("foreign-descriptor-closed".into(), format!("descriptors {missing:?} that existed before the program are gone"));
    }
    Ok(format!("{}|{}|{}", handles.len(), ops.len(), closes.iter().filter(|c| c.done).count()))
}

/// descriptor-producing operations cancelled around their completion
fn run_produced(driver: DriverType, kind: usize, ch: &mut Chooser, log: &mut Vec<String>) -> Result<String, (String, String)> {
    let before = baseline();
    // kind 3: the incoming() stream on a ring of ONE entry with up to 5 connections queued before
    // the stream is polled: the completion queue overflows and the kernel ends the multishot
    // accept with a final successful completion (the stream has to re-arm and must not own the
    // last descriptor twice)
    let small_ring = kind == 3;
    let kind = if kind == 3 { 2 } else { kind };
    let rt = if small_ring { runtime_cap(driver, 1) } else { runtime(driver) };
    let dir = std::env::temp_dir();
    let path = dir.join(format!("e_c06-{}-{}", std::process::id(), kind));
    std::fs::write(&path, b"x").unwrap();
    let spath = dir.join(format!("e_c06-{}.sock", std::process::id()));
    let _ = std::fs::remove_file(&spath);
    let listener_std = std::os::unix::net::UnixListener::bind(&spath).unwrap();
    let listener = rt.enter(|| compio_net::UnixListener::from_std(listener_std)).unwrap();
    let opw = Arc::new(CountWaker(AtomicUsize::new(0)));
    let noop = Waker::from(opw.clone());
    let mut peers: Vec<std::os::unix::net::UnixStream> = Vec::new();
    // steps: 0 stop, 1 submit (create + first poll), 2 make ready, 3 cancel (drop future), 4 harvest, 5 poll
    let mut fut: Option<BoxFut<Option<RawFd>>> = None;
    // kind 2: the stream of incoming connections (multishot accept on io_uring). It borrows the
    // listener: a leaked clone lives until the stream is gone.
    type Inc = Pin<Box<dyn futures_util::Stream<Item = std::io::Result<compio_net::UnixStream>>>>;
    let mut inc: Option<Inc> = None;
    let inc_listener: &'static compio_net::UnixListener = Box::leak(Box::new(listener.clone()));
    let steps = if small_ring { 7 } else if kind == 2 { 6 } else { 5 };
    let max_peers = if small_ring { 5 } else { 3 };
    // connections the stream delivered: the caller keeps them (they are "in use")
    let mut kept: Vec<compio_net::UnixStream> = Vec::new();
    let mut submitted = false;
    let mut delivered: Vec<Box<dyn std::any::Any>> = Vec::new();
    for _ in 0..steps {
        let mut menu = vec![0u8, 4];
        if !submitted {
            menu.push(1);
        }
        if (kind == 0 && peers.len() < 2) || (kind == 2 && peers.len() < max_peers) {
            menu.push(2);
        }
        if fut.is_some() || inc.is_some() {
            menu.push(3);
            menu.push(5);
        }
        let op = menu[ch.pick(menu.len())];
        match op {
            0 => break,
            1 | 5 if kind == 2 => {
                if op == 1 {
                    submitted = true;
                    inc = Some(Box::pin(inc_listener.incoming()));
                }
                let mut st = inc.take().unwrap();
                let what = if op == 1 { "submit" } else { "poll" };
                match rt.enter(|| st.as_mut().poll_next(&mut Context::from_waker(&noop))) {
                    Poll::Ready(Some(Ok(s))) => {
                        // delivered to the caller, who keeps it until the end
                        log.push(format!("{what}->delivered connection"));
                        kept.push(s);
                        inc = Some(st);
                    }
                    Poll::Ready(Some(Err(_))) => {
                        log.push(format!("{what}->error"));
                        inc = Some(st);
                    }
                    Poll::Ready(None) => {
                        log.push(format!("{what}->end"));
                        rt.enter(|| drop(st));
                    }
                    Poll::Pending => {
                        log.push(format!("{what}->Pending"));
                        inc = Some(st);
                    }
                }
            }
            1 | 5 => {
                if op == 1 {
                    submitted = true;
                    let l = listener.clone();
                    let p = path.clone();
                    let f: BoxFut<Option<RawFd>> = if kind == 0 {
                        Box::pin(async move { l.accept().await.ok().map(|(s, _)| { let fd = s.as_raw_fd(); std::mem::forget(s); fd }) })
                    } else {
                        Box::pin(async move { compio_fs::File::open(p).await.ok().map(|f| { let fd = f.as_raw_fd(); std::mem::forget(f); fd }) })
                    };
                    fut = Some(f);
                }
                let mut f = fut.take().unwrap();
                match rt.enter(|| f.as_mut().poll(&mut Context::from_waker(&noop))) {
                    Poll::Ready(Some(fd)) => {
                        // delivered to the caller: the caller owns it now (we forgot the handle) -> close it ourselves
                        log.push(format!("{}->delivered fd", if op == 1 { "submit" } else { "poll" }));
                        unsafe { libc::close(fd) };
                    }
                    Poll::Ready(None) => log.push(format!("{}->error", if op == 1 { "submit" } else { "poll" })),
                    Poll::Pending => {
                        log.push(format!("{}->Pending", if op == 1 { "submit" } else { "poll" }));
                        fut = Some(f);
                    }
                }
            }
            2 => {
                peers.push(std::os::unix::net::UnixStream::connect(&spath).unwrap());
                log.push("peer-connects".into());
            }
            3 => {
                rt.enter(|| {
                    drop(fut.take());
                    drop(inc.take());
                });
                log.push("cancel".into());
            }
            _ => {
                harvest(&rt);
                // File::open on the polling driver runs on the blocking pool: its completion is not
                // a harness step, so a harvest waits (bounded) until the job has reported back
                if kind == 1 && driver == DriverType::Poll && submitted && fut.is_some() {
                    for _ in 0..500 {
                        if opw.0.load(SeqCst) > 0 {
                            break;
                        }
                        std::thread::sleep(Duration::from_millis(1));
                        harvest(&rt);
                    }
                }
                log.push("harvest".into());
            }
        }
    }
    rt.enter(|| {
        drop(fut.take());
        drop(inc.take());
    });
    harvest(&rt);
    // every delivered connection is still open, is the caller's alone, and is a different one:
    // peer i writes its own byte; the k-th delivered stream must read the k-th peer's byte
    if !kept.is_empty() {
        for (i, p) in peers.iter_mut().enumerate() {
            let _ = p.write_all(&[0x30 + i as u8]);
        }
        for (k, sck) in kept.iter().enumerate() {
            let mut b = [0u8; 4];
            let n = unsafe { libc::recv(sck.as_raw_fd(), b.as_mut_ptr() as *mut libc::c_void, 4, libc::MSG_DONTWAIT) };
            let errno = std::io::Error::last_os_error().raw_os_error().unwrap_or(0);
            if n < 0 && errno == libc::EBADF {
                return Err(("delivered-connection-closed-behind-the-caller:incoming".into(), format!("the {k}-th connection delivered by incoming() (fd {}) is not an open descriptor any more although the caller still holds its stream", sck.as_raw_fd())));
            }
            if n != 1 || b[0] != 0x30 + k as u8 {
                return Err(("delivered-connection-is-not-its-own:incoming".into(), format!("the {k}-th delivered connection (fd {}) reads {:?} (n={n}, errno {errno}), expected the single byte {:#x} of the {k}-th peer: the descriptor was closed and its number re-used, or a connection was delivered twice / lost", sck.as_raw_fd(), &b[..n.max(0) as usize], 0x30 + k as u8)));
            }
        }
    }
    rt.enter(|| drop(kept.drain(..).collect::<Vec<_>>()));
    harvest(&rt);
    drop(delivered.drain(..));
    // the stream is gone: give the leaked listener clone back
    rt.enter(|| drop(unsafe { Box::from_raw(inc_listener as *const compio_net::UnixListener as *mut compio_net::UnixListener) }));
    rt.enter(|| drop(listener));
    harvest(&rt);
    drop(rt);
    drop(peers);
    let _ = std::fs::remove_file(&path);
    let _ = std::fs::remove_file(&spath);
    // only a cancelled File::open on the polling driver runs on the blocking pool and may finish late
    let after = if kind == 1 && driver == DriverType::Poll { settled_fds(&before) } else { open_fds() };
    let leaked: Vec<RawFd> = after.difference(&before).copied().collect();
    close_leaked(&leaked);
    if !leaked.is_empty() {
        let what = ["accept", "open", "incoming"][kind];
        let what = if small_ring { "incoming-small-ring" } else { what };
        return Err((format!("produced-descriptor-leaked:{what}"), format!("descriptors {leaked:?} still open after the {what} future, the listener and the runtime were dropped")));
    }
    Ok(format!("{}", log.len()))
}

fn shard(i: usize, n: usize, tier: Tier) {
    // worker process: tasks = (driver, family, first choice); this shard takes every n-th task
    let depth = tier.pick(5, 6);
    let mut stats = (0u64, 0u64, BTreeSet::<String>::new());
    let out = std::io::stdout();
    let mut task = 0usize;
    for driver in [DriverType::IoUring, DriverType::Poll] {
        let dname = format!("{driver:?}");
        for family in 0..5usize {
            // family 0 = handles, 1 = accept, 2 = open, 3 = incoming (stream of connections)
            // size of the first menu of each family (handles: stop/harvest/clone/drop/start-op/start-splice/close; accept: 4; open: 3; incoming: 4)
            for first in 0..[if driver == DriverType::Poll { 7u32 } else { 6 }, 4, 3, 4, 4][family] {
                task += 1;
                if task % n != i {
                    continue;
                }
                let mut prefix: Vec<u32> = vec![first];
                loop {
                    let mut ch = Chooser::new(prefix.clone(), u32::MAX);
                    let mut log = Vec::new();
                    let t0 = std::time::Instant::now();
                    // a first choice beyond the menu is a replay divergence: probe with catch
                    let r = std::panic::catch_unwind(std::panic::AssertUnwindSafe(|| {
                        if family == 0 { run_handles(driver, depth, &mut ch, &mut log) } else { run_produced(driver, family - 1, &mut ch, &mut log) }
                    }));
                    let r = match r {
                        Ok(r) => r,
                        Err(p) => {
                            let msg = p.downcast_ref::<String>().cloned().or_else(|| p.downcast_ref::<&str>().map(|s| s.to_string())).unwrap_or_default();
                            Err(("panic".into(), msg))
                        }
                    };
                    stats.0 += 1;
                    stats.1 += log.len() as u64 + 1;
                    if std::env::var_os("E_C06_DEBUG").is_some() && t0.elapsed() > Duration::from_millis(100) {
                        eprintln!("SLOW {:?} {dname} fam{family} {log:?} -> {:?}", t0.elapsed(), r.as_ref().map_err(|e| &e.0));
                    }
                    match r {
                        Ok(sig) => {
                            stats.2.insert(format!("{dname}|{family}|{sig}"));
                        }
                        Err((key, detail)) => {
                            let fam = ["handles", "produced", "produced", "produced", "produced"][family];
                            let _ = writeln!(out.lock(), "{}", json!({"v": {"key": format!("{dname}:{fam}:{key}"), "what": format!("driver {dname} program {log:?}: {detail}"), "replay": {"engine": "e_c06", "family": family, "driver": dname, "choices": ch.choices(), "program": log}}}));
                        }
                    }
                    match vcore::next_prefix(&ch.trace) {
                        Some(p) if p[0] == first => prefix = p,
                        _ => break,
                    }
                }
            }
        }
    }
    let _ = writeln!(out.lock(), "{}", json!({"stats": {"executions": stats.0, "steps": stats.1, "outcomes": stats.2.into_iter().collect::<Vec<_>>()}}));
}

fn main() {
    let argv: Vec<String> = std::env::args().collect();
    if argv.len() >= 5 && argv[1] == "--shard" {
        shard(argv[2].parse().unwrap(), argv[3].parse().unwrap(), Tier::parse(&argv[4]));
        return;
    }
    let args = vcore::parse_args();
    let rep = Report::new(&args.property, args.tier);
    // every shard re-runs the whole enumeration to derive the traces (executions are ~50 us), but
    // only reports its own share; with depth 5 this is cheaper than a coordinator
    let n = vcore::threads().min(16);
    let exe = std::env::current_exe().unwrap();
    let children: Vec<_> = (0..n)
        .map(|i| {
            Command::new(&exe)
                .args(["--shard", &i.to_string(), &n.to_string(), args.tier.name()])
                .stdout(Stdio::piped())
                .spawn()
                .expect("spawn shard")
        })
        .collect();
    for c in children {
        let o = c.wait_with_output().unwrap();
        if !o.status.success() {
            vcore::machinery_error(&format!("shard exited with {:?}", o.status));
        }
        for line in String::from_utf8_lossy(&o.stdout).lines() {
            let Ok(v) = vcore::serde_json::from_str::<vcore::Value>(line) else { continue };
            if let Some(x) = v.get("v") {
                rep.violation(Violation {
                    key: x["key"].as_str().unwrap_or("").to_string(),
                    what: x["what"].as_str().unwrap_or("").to_string(),
                    replay: x["replay"].clone(),
                });
            }
            if let Some(s) = v.get("stats") {
                let ex = s["executions"].as_u64().unwrap_or(0);
                rep.add_states(ex);
                rep.evaluations.fetch_add(ex, std::sync::atomic::Ordering::Relaxed);
                rep.traces_validated.fetch_add(ex, std::sync::atomic::Ordering::Relaxed);
                rep.add_transitions(s["steps"].as_u64().unwrap_or(0));
                for o in s["outcomes"].as_array().cloned().unwrap_or_default() {
                    rep.outcome(o.as_str().unwrap_or("").to_string());
                }
            }
        }
    }
    rep.sample(1, || json!({"family": "handles", "example": ["clone(0)", "start-op(1)", "close-create(0)", "close-poll(0)->Pending", "cancel-op(0)", "drop-handle(1)", "harvest", "close-poll(0)->Ready"]}));
    rep.extra("bounds", json!({"program_depth": args.tier.pick(5, 6), "handles_max": 3, "pending_ops_max": 2, "closers_max": 2, "produced": ["accept", "File::open", "incoming (stream of connections, <= 3 peers, 6 steps)", "incoming on a ring of 1 entry (<= 5 peers queued, 7 steps: completion-queue overflow ends the multishot accept)"], "two_descriptor_op": "splice(stream -> pipe)", "drivers": ["IoUring", "Poll"]}));
    rep.rule("every program up to program_depth over {clone, drop-handle, start-op (read), start-splice (an operation holding two descriptors), complete-op, cancel-op, close-create, close-poll (fresh waker), close-drop, harvest} on a UnixStream, and every order of {submit, peer-connects, cancel, harvest, poll} for accept / File::open / the incoming() stream (several connections queued, some taken, stream dropped), on both drivers, each from a fresh runtime in a single-threaded worker process; descriptor accounting through /proc/self/fd");
    rep.assume("single-threaded worker process: descriptor numbers are deterministic and /proc/self/fd is exact");
    rep.finish();
}
