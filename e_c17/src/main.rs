//! C17, layer (b): the REAL `AsyncifyPool` with real OS threads, serialized by gates.
//!
//! Every job body parks on a harness gate, so the only enabled transitions are the harness's own
//! steps: Submit(normal | panicking job), OpenGate(i), IdlePause (longer than the idle timeout, so
//! idle workers retire). After every step the harness waits for quiescence (the expected number of
//! jobs is parked at their gates). All sequences up to a depth for thread_limit in {1, 2}.
//! Oracle: jobs running at once <= thread_limit at every observation; a job handed back
//! (DispatchError) is the same job and has not started; every accepted job starts exactly once and
//! runs to its end after its gate opens; after a job panicked (the worker thread dies) and after
//! idle workers retired, later jobs are still accepted and run (no slot leaked, none stranded).
use std::{
    sync::{
        Arc, Condvar, Mutex,
        atomic::{AtomicUsize, Ordering::SeqCst},
    },
    time::{Duration, Instant},
};

use compio_driver::AsyncifyPool;
use vcore::{Chooser, Report, Violation, json};

const IDLE: Duration = Duration::from_millis(15);

#[derive(Default)]
struct Gate {
    open: Mutex<bool>,
    cv: Condvar,
}

struct Shared {
    running: AtomicUsize,
    max_running: AtomicUsize,
    started: Vec<AtomicUsize>,
    finished: Vec<AtomicUsize>,
    gates: Vec<Gate>,
}

fn wait_until(mut f: impl FnMut() -> bool, ms: u64) -> bool {
    let t0 = Instant::now();
    loop {
        if f() {
            return true;
        }
        if t0.elapsed() > Duration::from_millis(ms) {
            return false;
        }
        std::thread::sleep(Duration::from_micros(200));
    }
}

fn run(limit: usize, depth: usize, ch: &mut Chooser, log: &mut Vec<String>) -> Result<String, (String, String)> {
    let fail = |k: &str, d: String| -> Result<String, (String, String)> { Err((k.to_string(), d)) };
    let pool = AsyncifyPool::new(limit, IDLE);
    let n_max = 4;
    let sh = Arc::new(Shared {
        running: AtomicUsize::new(0),
        max_running: AtomicUsize::new(0),
        started: (0..n_max).map(|_| AtomicUsize::new(0)).collect(),
        finished: (0..n_max).map(|_| AtomicUsize::new(0)).collect(),
        gates: (0..n_max).map(|_| Gate::default()).collect(),
    });
    let mut submitted = 0usize; // jobs accepted by the pool
    let mut opened = vec![false; n_max];
    let mut panicking = vec![false; n_max];
    let mut rejected = 0usize;
    let mut panics = 0usize;
    let mut retired = false;
    for _ in 0..depth {
        let parked: Vec<usize> = (0..submitted).filter(|&i| !opened[i]).collect();
        let mut menu: Vec<(u8, usize)> = vec![(0, 0)];
        if submitted < n_max {
            menu.push((1, 0));
            menu.push((2, 0));
        }
        for &i in &parked {
            menu.push((3, i));
        }
        if parked.is_empty() && submitted > 0 {
            menu.push((4, 0));
        }
        let (op, arg) = menu[ch.pick(menu.len())];
        match op {
            0 => break,
            1 | 2 => {
                let i = submitted;
                let s = sh.clone();
                let will_panic = op == 2;
                let job = move || {
                    s.started[i].fetch_add(1, SeqCst);
                    let n = s.running.fetch_add(1, SeqCst) + 1;
                    s.max_running.fetch_max(n, SeqCst);
                    {
                        let g = &s.gates[i];
                        let mut o = g.open.lock().unwrap();
                        while !*o {
                            o = g.cv.wait(o).unwrap();
                        }
                    }
                    s.running.fetch_sub(1, SeqCst);
                    s.finished[i].fetch_add(1, SeqCst);
                    if will_panic {
                        panic!("job panics as scripted");
                    }
                };
                let busy = parked.len();
                match pool.dispatch(job) {
                    Ok(()) => {
                        log.push(format!("submit({})->accepted", if will_panic { "panicking" } else { "normal" }));
                        if busy >= limit {
                            return fail("accepted-beyond-limit", format!("job {i} accepted while {busy} jobs are running, thread_limit {limit}"));
                        }
                        panicking[i] = will_panic;
                        submitted += 1;
                        // quiescence: the job is parked at its gate
                        if !wait_until(|| sh.started[i].load(SeqCst) == 1, 2000) {
                            let cause = if panics > 0 { "after-a-job-panicked" } else if retired { "after-workers-retired" } else { "other" };
                            return fail(&format!("accepted-job-never-starts:{cause}"), format!("job {i} was accepted but did not start within 2 s"));
                        }
                    }
                    Err(e) => {
                        drop(e.into_inner());
                        log.push("submit->handed-back".into());
                        rejected += 1;
                        if busy < limit {
                            let cause = if panics > 0 { "after-a-job-panicked" } else if retired { "after-workers-retired" } else { "other" };
                            return fail(&format!("rejected-below-limit:{cause}"), format!("job handed back although only {busy} jobs are running, thread_limit {limit}"));
                        }
                        if sh.started[i.min(n_max - 1)].load(SeqCst) != 0 && i < n_max {
                            return fail("handed-back-job-started", format!("job {i} was handed back but its body started"));
                        }
                    }
                }
            }
            3 => {
                let g = &sh.gates[arg];
                *g.open.lock().unwrap() = true;
                g.cv.notify_all();
                opened[arg] = true;
                if !wait_until(|| sh.finished[arg].load(SeqCst) == 1, 2000) {
                    return fail("job-never-finishes", format!("gate of job {arg} opened, body did not finish within 2 s"));
                }
                if panicking[arg] {
                    panics += 1;
                    // let the worker thread unwind completely
                    std::thread::sleep(Duration::from_millis(2));
                }
                log.push(format!("open-gate({arg})"));
            }
            _ => {
                std::thread::sleep(IDLE * 4);
                retired = true;
                log.push("idle-pause".into());
            }
        }
        let m = sh.max_running.load(SeqCst);
        if m > limit {
            return fail("limit-exceeded", format!("{m} jobs ran at once, thread_limit {limit}"));
        }
        for i in 0..n_max {
            if sh.started[i].load(SeqCst) > 1 {
                return fail("job-started-twice", format!("job {i}"));
            }
        }
    }
    // release everything
    for i in 0..submitted {
        if !opened[i] {
            let g = &sh.gates[i];
            *g.open.lock().unwrap() = true;
            g.cv.notify_all();
        }
    }
    for i in 0..submitted {
        if !wait_until(|| sh.finished[i].load(SeqCst) == 1, 2000) {
            return fail("job-never-finishes", format!("job {i} did not finish at teardown"));
        }
    }
    Ok(format!("{submitted}|{rejected}|{panics}|{retired}"))
}

// ---------------------------------------------------------------------------------------------
// The dispatcher's pool: ONE pool shared by `Dispatcher::dispatch_blocking` and by the worker
// runtimes' `spawn_blocking` -- its thread limit bounds the jobs of both kinds together.
// ---------------------------------------------------------------------------------------------

fn run_dispatcher(limit: usize, workers: usize, depth: usize, ch: &mut Chooser, log: &mut Vec<String>) -> Result<String, (String, String)> {
    use std::num::NonZeroUsize;
    let fail = |k: &str, d: String| -> Result<String, (String, String)> { Err((k.to_string(), d)) };
    let mut pb = compio_driver::ProactorBuilder::new();
    pb.thread_pool_limit(limit);
    let disp = compio_dispatcher::Dispatcher::builder()
        .worker_threads(NonZeroUsize::new(workers).unwrap())
        .proactor_builder(pb)
        .build()
        .map_err(|e| ("setup".to_string(), format!("{e}")))?;
    let n_max = 4;
    let sh = Arc::new(Shared {
        running: AtomicUsize::new(0),
        max_running: AtomicUsize::new(0),
        started: (0..n_max).map(|_| AtomicUsize::new(0)).collect(),
        finished: (0..n_max).map(|_| AtomicUsize::new(0)).collect(),
        gates: (0..n_max).map(|_| Gate::default()).collect(),
    });
    let mk_job = |i: usize, s: Arc<Shared>| {
        move || {
            s.started[i].fetch_add(1, SeqCst);
            let n = s.running.fetch_add(1, SeqCst) + 1;
            s.max_running.fetch_max(n, SeqCst);
            {
                let g = &s.gates[i];
                let mut o = g.open.lock().unwrap();
                while !*o {
                    o = g.cv.wait(o).unwrap();
                }
            }
            s.running.fetch_sub(1, SeqCst);
            s.finished[i].fetch_add(1, SeqCst);
        }
    };
    let mut accepted = 0usize; // jobs the pool or a worker runtime has been given
    let mut opened = vec![false; n_max];
    let mut kinds = String::new();
    let started_now = |sh: &Shared, n: usize| (0..n).filter(|&i| sh.started[i].load(SeqCst) > 0).count();
    for _ in 0..depth {
        let parked: Vec<usize> = (0..accepted).filter(|&i| sh.started[i].load(SeqCst) > 0 && !opened[i]).collect();
        let mut menu: Vec<(u8, usize)> = vec![(0, 0)];
        if accepted < n_max {
            menu.push((1, 0));
            menu.push((2, 0));
        }
        for &i in &parked {
            menu.push((3, i));
        }
        let (op, arg) = menu[ch.pick(menu.len())];
        let done_before = (0..accepted).filter(|&i| sh.finished[i].load(SeqCst) > 0).count();
        match op {
            0 => break,
            1 => {
                let i = accepted;
                let busy = parked.len();
                match disp.dispatch_blocking(mk_job(i, sh.clone())) {
                    Ok(rx) => {
                        std::mem::forget(rx);
                        log.push("dispatch_blocking->accepted".into());
                        kinds.push('b');
                        accepted += 1;
                    }
                    Err(_) => {
                        log.push("dispatch_blocking->handed-back".into());
                        if busy < limit {
                            return fail("dispatcher:rejected-below-limit", format!("dispatch_blocking handed the job back although only {busy} blocking jobs are running, thread_pool_limit {limit}"));
                        }
                    }
                }
            }
            2 => {
                let i = accepted;
                let job = mk_job(i, sh.clone());
                match disp.dispatch(move || async move {
                    let _ = compio_runtime::spawn_blocking(job).await;
                }) {
                    Ok(rx) => std::mem::forget(rx),
                    Err(_) => return fail("dispatcher:dispatch-failed", "dispatch of an async task failed".into()),
                }
                log.push("dispatch(spawn_blocking)".into());
                kinds.push('s');
                accepted += 1;
            }
            _ => {
                let g = &sh.gates[arg];
                *g.open.lock().unwrap() = true;
                g.cv.notify_all();
                opened[arg] = true;
                if !wait_until(|| sh.finished[arg].load(SeqCst) == 1, 2000) {
                    return fail("dispatcher:job-never-finishes", format!("gate of job {arg} opened, body did not finish within 2 s"));
                }
                log.push(format!("open-gate({arg})"));
            }
        }
        // quiescence: as many jobs parked at their gates as the limit allows
        let done = (0..accepted).filter(|&i| sh.finished[i].load(SeqCst) > 0).count().max(done_before);
        let want = accepted.min(done + limit);
        if !wait_until(|| started_now(&sh, accepted) >= want, 3000) {
            return fail("dispatcher:accepted-job-never-starts", format!("{accepted} blocking jobs accepted, {done} finished, thread_pool_limit {limit}: only {} have started within 3 s", started_now(&sh, accepted)));
        }
        // give an over-eager second pool the chance to show itself
        std::thread::sleep(Duration::from_millis(3));
        let m = sh.max_running.load(SeqCst);
        if m > limit {
            return fail("dispatcher:limit-exceeded", format!("{m} blocking jobs ran at once ({kinds}: b = dispatch_blocking, s = spawn_blocking in a dispatched task), thread_pool_limit {limit}"));
        }
    }
    // release everything: open the gates of started jobs until all accepted jobs have finished
    let t0 = Instant::now();
    loop {
        for i in 0..accepted {
            if sh.started[i].load(SeqCst) > 0 && !opened[i] {
                let g = &sh.gates[i];
                *g.open.lock().unwrap() = true;
                g.cv.notify_all();
                opened[i] = true;
            }
        }
        if (0..accepted).all(|i| sh.finished[i].load(SeqCst) == 1) {
            break;
        }
        if t0.elapsed() > Duration::from_secs(4) {
            return fail("dispatcher:job-never-finishes", "not every accepted blocking job finished at teardown".into());
        }
        std::thread::sleep(Duration::from_micros(300));
    }
    let m = sh.max_running.load(SeqCst);
    if m > limit {
        return fail("dispatcher:limit-exceeded", format!("{m} blocking jobs ran at once ({kinds}), thread_pool_limit {limit}"));
    }
    for i in 0..accepted {
        if sh.started[i].load(SeqCst) != 1 {
            return fail("dispatcher:job-started-twice", format!("job {i} started {} times", sh.started[i].load(SeqCst)));
        }
    }
    // join the dispatcher on a helper runtime-less thread: block_on is not needed, join is async ->
    // drop instead (workers exit when the channel closes)
    drop(disp);
    Ok(format!("{accepted}|{kinds}|{m}"))
}

fn main() {
    let args = vcore::parse_args();
    vcore::quiet_panics();
    let rep = Report::new(&args.property, args.tier);
    let depth = args.tier.pick(5, 6);
    // split by (limit, first choice)
    let items: Vec<(usize, u32)> = [1usize, 2].iter().flat_map(|&l| (0..3u32).map(move |f| (l, f))).collect();
    rep.must_reach("job-panicked-then-later-job");
    rep.must_reach("workers-retired-then-later-job");
    vcore::par_for_each(&items, |_, &(limit, first)| {
        let mut prefix = vec![first];
        loop {
            let mut ch = Chooser::new(prefix.clone(), u32::MAX);
            let mut log = Vec::new();
            let r = vcore::catch(|| run(limit, depth, &mut ch, &mut log)).unwrap_or_else(|p| Err(("panic".into(), p)));
            rep.add_execution(log.len() as u64 + 1);
            rep.add_states(1);
            match r {
                Ok(sig) => {
                    let p: Vec<&str> = sig.split('|').collect();
                    if p[2] != "0" && log.iter().rev().take_while(|l| !l.starts_with("open-gate")).any(|l| l.contains("accepted")) {
                        rep.count("job-panicked-then-later-job", 1);
                    }
                    if p[3] == "true" && log.iter().rev().take_while(|l| *l != "idle-pause").any(|l| l.contains("accepted")) {
                        rep.count("workers-retired-then-later-job", 1);
                    }
                    rep.outcome(format!("{limit}|{sig}"));
                    if log.len() >= depth {
                        rep.sample(6, || json!({"thread_limit": limit, "program": log, "outcome": sig}));
                    }
                }
                Err((key, detail)) => rep.violation(Violation {
                    key: format!("realpool:{key}"),
                    what: format!("thread_limit={limit} program={log:?}: {detail}"),
                    replay: json!({"engine":"e_c17","thread_limit":limit,"choices":ch.choices(),"program":log}),
                }),
            }
            match vcore::next_prefix(&ch.trace) {
                Some(p) if p[0] == first => prefix = p,
                _ => break,
            }
        }
    });
    // the dispatcher's shared pool
    rep.must_reach("dispatcher-both-kinds-of-blocking-jobs-at-the-limit");
    let ditems: Vec<(usize, usize, u32)> = [1usize, 2].iter().flat_map(|&l| [1usize, 2].into_iter().flat_map(move |w| (0..3u32).map(move |f| (l, w, f)))).collect();
    let ddepth = args.tier.pick(4, 5);
    vcore::par_for_each(&ditems, |_, &(limit, workers, first)| {
        let mut prefix = vec![first];
        loop {
            let mut ch = Chooser::new(prefix.clone(), u32::MAX);
            let mut log = Vec::new();
            let r = vcore::catch(|| run_dispatcher(limit, workers, ddepth, &mut ch, &mut log)).unwrap_or_else(|p| Err(("dispatcher:panic".into(), p)));
            rep.add_execution(log.len() as u64 + 1);
            rep.add_states(1);
            match r {
                Ok(sig) => {
                    let p: Vec<&str> = sig.split('|').collect();
                    if p[1].contains('b') && p[1].contains('s') && p[2].parse::<usize>().unwrap_or(0) == limit {
                        rep.count("dispatcher-both-kinds-of-blocking-jobs-at-the-limit", 1);
                    }
                    rep.outcome(format!("disp|{limit}|{workers}|{sig}"));
                }
                Err((key, detail)) => rep.violation(Violation {
                    key: format!("realpool:{key}"),
                    what: format!("Dispatcher(workers={workers}, thread_pool_limit={limit}) program={log:?}: {detail}"),
                    replay: json!({"engine":"e_c17","family":"dispatcher","thread_limit":limit,"workers":workers,"choices":ch.choices(),"program":log}),
                }),
            }
            match vcore::next_prefix(&ch.trace) {
                Some(p) if p[0] == first => prefix = p,
                _ => break,
            }
        }
    });
    rep.extra("dispatcher_bounds", json!({"program_depth": ddepth, "thread_pool_limit": [1, 2], "worker_threads": [1, 2], "jobs_max": 4, "steps": ["dispatch_blocking(gated job)", "dispatch(async { spawn_blocking(gated job) })", "open gate i"]}));
    rep.extra("bounds", json!({"program_depth": depth, "thread_limit": [1, 2], "jobs_max": 4, "idle_timeout_ms": IDLE.as_millis() as u64}));
    rep.rule("(dispatcher) every sequence up to depth 4/5 over {dispatch_blocking(gated job), dispatch(async task running spawn_blocking(gated job)), open gate i} on a real Dispatcher with thread_pool_limit {1,2} x worker_threads {1,2}: blocking jobs of both kinds together never exceed the limit, dispatch_blocking hands a job back only when the pool is saturated, every accepted job starts as soon as a slot is free and finishes once; (pool) every sequence up to program_depth over {submit normal job, submit panicking job, open gate i, idle pause (4x the idle timeout)} on the real AsyncifyPool with real threads; every job body parks on a harness gate, the harness waits for quiescence after each step");
    rep.assume("real time only as a watchdog (2 s) and to let idle workers retire (4x the 15 ms idle timeout)");
    rep.finish();
}
