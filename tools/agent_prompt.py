#!/usr/bin/env python3
"""Prints the prompt given to an independent mutation-seeding sub-agent for one property."""
import json, sys
pid, tag = sys.argv[1], sys.argv[2]
p = next(json.loads(l) for l in open('/verif/properties.jsonl') if json.loads(l)['id'] == pid)
wt = f"/tmp/mut-{pid}-{tag}"
print(f"""You are helping to evaluate a verification effort for the Rust project compio-rs/compio (a completion-based async runtime; io_uring/polling drivers, fs/net/io/buf crates). Your job: produce a realistic *seeded defect*: a small source change to compio that BREAKS the semantic property below, while the project still compiles and its existing test suite still passes.

Property {pid}: {p['title']}
Statement: {p['statement']}
Quantified over: {p['quantifier']['text']}
Relevant files (starting points, not a restriction): {', '.join(p['anchors']['files'])}

Rules
1. Work ONLY in your own scratch git worktree. Create it with:  git -C /repo worktree add --detach {wt} HEAD   and do everything inside {wt}. Never edit /repo itself. Do NOT read, list or use anything under /verif (it must stay independent of your work). No network is available; use `--offline` with cargo.
2. The change must need something specific to manifest: a particular interleaving/ordering, a fault or short read/write at a particular point, a multi-step sequence of operations, an unusual (but valid) input, or two cooperating sites that each look fine alone. It must NOT be something that ordinary use or the existing tests expose at once. Prefer changes to shared mutable state, cursor/offset/length arithmetic, ordering of publish-vs-write, boundary conditions (<, <=), forgotten re-arm/reset. Keep it small (a few lines), looking like a plausible refactoring slip or "optimisation". It must break the property as stated (observable through the public API), not merely differ internally.
3. Produce TWO different such changes at different code sites if you can (call them m1 and m2); one good one is acceptable.
4. For each change write a demonstration: a Rust integration test file (placed in the appropriate crate's tests/ directory in your worktree, named verif_demo_<id>.rs) or small program that FAILS with the change and PASSES without it, deterministically. Run it both ways to be sure.
5. Confirm the existing test suite still passes WITH the change applied (excluding your demo): run in {wt}:  cargo nextest run --workspace --no-fail-fast --offline --test-threads 8   (fallback: cargo test --workspace --no-fail-fast --offline). The unmodified tree passes 217 tests. If any existing test fails because of your change, the change is not acceptable: pick another.
6. Deliverables, per change, in {wt}/OUT/m1/ (and m2/): patch.diff (output of `git diff` for the source change ONLY, without the demo test, applicable with `git apply` at the repository root), the demo test file (copy), and meta.json with keys: property, summary (what was changed and why it breaks the property), needs (what is needed for it to manifest), demo_cmd (exact command to run the demo), suite_result (numbers passed/failed with the change), files_touched.
7. When done, leave the worktree in place with the m1 (or last) change reverted to a clean source state plus OUT/ directory (do not delete the worktree; do `cargo clean` only if the disk is nearly full). Report back briefly: for each change, the summary, where it is, what it needs to manifest, and the verified results (demo fails with / passes without; suite passes with).
Be economical: the whole job should take well under an hour. Builds are slow; reuse the worktree's target dir.""")
