#!/usr/bin/env python3
"""merge_evidence.py <ID> <tier> <part> [<part>...] : merges evidence/parts/<ID>.<part>.json into evidence/<ID>.json"""
import json, sys, os
ROOT = os.environ.get("VERIF_ROOT", "/verif")
pid, tier, parts = sys.argv[1], sys.argv[2], sys.argv[3:]
cov = {"states": 0, "transitions": 0, "traces_validated_against_impl": 0, "evaluations": 0, "distinct_nontrivial": 0,
       "samples": [], "exhaustive": True, "caps_hit": [], "parts": {}, "rule": ""}
assumptions, wall, violations, known = [], 0.0, 0, []
for part in parts:
    f = f"{ROOT}/evidence/parts/{pid}.{part}.json"
    if not os.path.exists(f):
        print(f"MACHINERY-ERROR: evidence part {f} missing", file=sys.stderr); sys.exit(2)
    e = json.load(open(f)); c = e["coverage"]
    for k in ("states", "transitions", "traces_validated_against_impl", "evaluations", "distinct_nontrivial"):
        cov[k] += int(c.get(k, 0))
    cov["samples"] += c.get("samples", [])[:6]
    cov["exhaustive"] = cov["exhaustive"] and bool(c.get("exhaustive", False))
    cov["caps_hit"] += c.get("caps_hit", [])
    cov["rule"] += f"[{part}] " + c.get("rule", "") + " "
    cov["parts"][part] = {k: v for k, v in c.items() if k not in ("samples",)}
    for a in e.get("assumptions", []):
        if a not in assumptions: assumptions.append(a)
    wall += e.get("wall_s", 0); violations += e.get("violations", 0); known += e.get("known_findings_hit", [])
out = {"property_id": pid, "tier": tier, "seed": int(os.environ.get("VERIF_SEED", "0") or 0), "level": "model_checking",
       "coverage": cov, "assumptions": assumptions, "wall_s": wall, "violations": violations, "known_findings_hit": known}
json.dump(out, open(f"{ROOT}/evidence/{pid}.json", "w"), indent=1)
