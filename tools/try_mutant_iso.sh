#!/bin/bash
# tools/try_mutant_iso.sh <patch.diff> <ID> [tier]        (env ISO_SLOT=n for parallel trials)
# Runs ./check against a PATCHED COPY of /repo inside a private mount namespace: a scratch worktree is
# bind-mounted over /repo, and scratch directories over /verif/.target, /verif/evidence,
# /verif/replays and /verif/logs. The real /repo, the real evidence and the real build outputs are
# never touched, so trials can run next to other work. Development tool only: nothing registered in
# MANIFEST.json uses it.
set -u
P=$(realpath "$1"); ID="$2"; TIER="${3:-quick}"
SLOT="${ISO_SLOT:-0}"
WT=/tmp/iso-repo-$SLOT
BASE=/verif/.iso/$SLOT
mkdir -p "$BASE/target" "$BASE/evidence/parts" "$BASE/replays" "$BASE/logs"
if [ ! -d "$WT" ]; then
  git -C /repo worktree prune
  git -C /repo worktree add --detach "$WT" HEAD >/dev/null 2>&1 || { echo "cannot create $WT"; exit 3; }
fi
# bring the persistent scratch worktree to /repo's HEAD, clean (only touched files change mtime)
git -C "$WT" checkout -q --detach "$(git -C /repo rev-parse HEAD)" 2>/dev/null
git -C "$WT" checkout -q -- . ; git -C "$WT" clean -fdq -e target >/dev/null 2>&1
if [ "$P" != "/dev/null" ]; then
  git -C "$WT" apply "$P" || { echo PATCH-DOES-NOT-APPLY; exit 4; }
fi
unshare -m bash -c "
  mount --bind '$WT' /repo && mount --bind '$BASE/target' /verif/.target &&
  mount --bind '$BASE/evidence' /verif/evidence && mount --bind '$BASE/replays' /verif/replays &&
  mount --bind '$BASE/logs' /verif/logs && cd /verif && ./check '$ID' '$TIER'
" > "$BASE/out-$ID.txt" 2>&1; rc=$?
git -C "$WT" checkout -q -- . ; git -C "$WT" clean -fdq -e target >/dev/null 2>&1
grep -E "^(VIOLATION|KNOWN-FINDING|MACHINERY)" "$BASE/out-$ID.txt" | cut -c1-160 | head -5
grep "violation detail" "$BASE/out-$ID.txt" | cut -c1-300 | head -3
tail -1 "$BASE/out-$ID.txt" | cut -c1-200
echo "check-exit=$rc"
exit $rc
