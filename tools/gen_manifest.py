#!/usr/bin/env python3
"""Generates /verif/MANIFEST.json from the table below (single source of truth)."""
import json, os, subprocess
ROOT = os.path.dirname(os.path.dirname(os.path.abspath(__file__)))

CHECKS = {
 "C10": dict(engine="e2pure", design="§2/C10",
   technique="exhaustive input enumeration (bounded): all root kinds x (len,cap) x view trees x fill sequences, executed on the real compio-buf code, pointer-arithmetic oracle",
   text="Every root buffer kind with every len<=cap<=bound, every nesting of slice(a..)/slice(a..e)/uninit() up to depth 3 with all in-range parameters, flatten(), vectored containers with slice/slice_mut/owned_iter, and every fill sequence (write k bytes, advance_to/advance/advance_vec_to) up to the stated length is executed on the real code and checked against pointer arithmetic on the root allocation. Exhaustive within the bounds; not a proof for larger sizes (the code has no size-dependent branches beyond 0/1/many).",
   note="Trusted: root types' native accessors (Vec::len/capacity/as_ptr ...), the harness model (~40 lines). Bounds: capacities <= 3 (quick) / 5 (thorough), view depth 3, fills <= 2/3. BufferRef (pool buffer) root is covered under C07's engine, not here."),

 "C11": dict(engine="e2pure", design="§2/C11",
   technique="deviation-bounded exhaustive exploration of scripted environment answers (short read/write, Interrupted, error, EOF) x exhaustive small inputs, on the real compio-io helpers, reference-model oracle",
   text="Each helper (read_exact, read_to_end/string, append, read_vectored_exact, *_at, write_all, write_vectored_all, *_at, copy_with_size, Take, split halves, BufReader and BufWriter caller programs) runs on the real code against a scripted source/sink; every placement of <= 2 (quick) / 3 (thorough) deviations from 'transfer everything now' is enumerated, crossed with all small payloads, capacities (incl. 0, 1), destination shapes and positions; in-memory readers/writers/cursors are enumerated over all positions (incl. beyond the end) and shapes. The oracle is a straight-line reference computed from the environment's answer list.",
   note="Trusted: the scripted reader/writer (env.rs) and the reference walk (ref_exact). Bounds: payloads <= 7 bytes, capacities {0,1,2,3,5}, deviations <= 2/3, BufReader/BufWriter caller programs of <= 2-4 operations. Known findings: Uninit view in read_exact, BufReader capacity 0."),
 "C13": dict(engine="e2pure", design="§2/C13",
   technique="exhaustive enumeration of frame lists x framer parameters x fragmentations (all compositions / deviation-bounded incl. Pending) through the real Sink and Stream; exhaustive hostile byte strings over an interesting alphabet; exhaustive ancillary message lists x buffer sizes",
   text="Round trip: every list of <= 2-3 frames (payloads over alphabets that include the delimiter's own bytes) for LengthDelimited (every width 1..8 x endianness), CharDelimited, AnyDelimited is encoded by the real Sink (scripted writer: short writes, Interrupted, Pending) and decoded by the real Stream under every fragmentation (all compositions for streams <= 10 bytes, <= 2/3 deviations otherwise); hostile: all byte strings over {00,01,7f,80,ff,delim} up to length-field width + 2, whole and bytewise, must yield frames/errors/end, no panic, no endless loop; ancillary: all lists of <= 3 messages of 5 payload sizes x 19 buffer sizes round-trip through builder and iterator with exact fit/too-small decisions; serde_json codec round trip.",
   note="Trusted: scripted reader/writer; BytesCodec as payload carrier. Built with overflow checks on (an arithmetic overflow is a panic and is reported). AncillaryIter is only fed builder output (its constructor is unsafe). Observation outside the property (counted in evidence, not a verdict): SinkExt::send returns before the transport is flushed."),
 "C12": dict(engine="e2pure", design="§2/C12",
   technique="exhaustive caller-program enumeration (depth-bounded) x deviation-bounded scripted inner stream (short, Interrupted, error, park-until-gate) on the real SyncStream / AsyncReadStream / AsyncWriteStream, reference-FIFO and wake-obligation oracle",
   text="Every caller program up to depth 4 (quick) / 5 (thorough) over the adapters' entry points is run on the real code for base capacities {1,2,4} and limits {2,4,8}, with every placement of <= 1-3 inner-stream deviations; oracle: bytes produced by the inner reader == bytes delivered + into_parts() remainder, bytes accepted by write == bytes received by the inner writer after a (retried) flush/close, would-block exactly when the reference model needs servicing, limits honoured, Pending only when the inner stream is parked, and every entry point that returned Pending has its latest (fresh per poll) waker woken when the gate opens.",
   note="Trusted: scripted inner streams and the gate (c12.rs, env.rs). The thorough tier caps each scenario at 3e6 executions and says so (exhaustive=false with caps listed). Known finding: read-side limit overshoot below base_capacity."),
 "C03": dict(engine="e3loom+e_c03", design="§2/C03",
   technique="loom (preemption-bounded exhaustive interleavings, C11 model) on the real executor wake path; exhaustive wake-position enumeration on the real io_uring and polling drivers through cfg(compio_verif) interleaving points",
   text="(a) loom explores the real compio-executor cross-thread wake path: 1-2 waking threads (wake / wake_by_ref) x queue sizes 1-2 x re-arm-and-wake-again x two tasks with a full queue, against block_on's tick/park loop on a correct event count; a lost wake-up is a loom deadlock. (b+c) on the REAL drivers every program of loop calls up to depth 3 (quick) / 4 (thorough) over {poll(0), poll(T), external-loop iteration = flush + wait for the descriptor + poll(0)} is run with one wake-up injected at every position: between calls, at every named step inside Driver::poll/flush (before/after the flag reset, before/after the blocking wait, after set_awake, after reaping), and from a second thread while blocked; plus wake-ups produced by completions reaped while pushing (submission-queue overflow, capacity 2). Oracle: the first blocking wait after an unconsumed wake-up returns promptly; without any wake-up it really waits.",
   note="Trusted: loom; ArrayQueue as linearizable; 'a wake performed synchronously at an interleaving point == another thread performing it there' (the wake is one atomic RMW + at most one eventfd/poller write); real time only as a watchdog (prompt < 30 ms vs wait 60 ms; second-thread wakes within 200 ms of 1500 ms), violations are re-run once before being reported."),
 "C04": dict(engine="e2pure+e3loom", design="§2/C04",
   technique="exhaustive single-threaded program enumeration on the real Executor with instrumented futures/outputs; loom (preemption-bounded exhaustive interleavings) for handle / waker / executor-drop operations from other threads",
   text="(a) every program up to depth 6 (quick) / 7 (thorough) over {spawn (7 task kinds: ready, pending-until-woken, self-waking, wake-and-finish, panicking, waking a sibling, dropping a sibling's handle), wake, tick, poll-handle, drop-handle, detach, drop-executor} with <= 3 tasks and max_interval in {1,2,61} runs on the real executor; oracle: polled only inside tick and never after finishing or (beyond the fairness bound) after cancellation, future dropped exactly once, output delivered xor dropped exactly once, results/panics reach only their own handle, starvation bound ceil(tasks/max_interval)+1 ticks, handles resolve after executor drop, no panic. (b) loom: handle awaited (parking and busy-polling), dropped or cancelled on another thread while the home thread runs the task; waker used on another thread while the executor is dropped; output taken remotely while the executor is dropped; futures carry loom cells so any poll/drop off the home thread is reported.",
   note="Trusted: loom; instrumented futures. A leaked clone of the join handle's waker (observed, outside the property's statement) is reported as an outcome class, not a violation."),
 "C06": dict(engine="e_c06+e3loom", design="§2/C06",
   technique="exhaustive program enumeration of the close protocol and of cancelled descriptor-producing operations on the real runtime (both drivers) with /proc/self/fd accounting in single-threaded worker processes; loom on the real fd.rs for cross-thread handles",
   text="(a) every program up to depth 5 (quick) / 6 (thorough) over {clone, drop-handle, start-op (pending read), complete-op, cancel-op, close-create, close-poll with a fresh waker each time, close-drop (unpolled or pending), harvest} on a compio_net::UnixStream, and every order of {submit, peer-connects, cancel, harvest, poll} for accept and File::open, on io_uring and polling, each from a fresh runtime: close().await is Ready exactly when no other handle and no unfinished operation holds the descriptor (not before; at the next poll after the last release; its latest waker woken), and at the end the process has exactly the descriptors it started with (no leak, no double close: a canary re-using the number survives). (b) loom on the real fd.rs (feature sync): closer vs 1-2 droppers on other threads, clone-then-drop, two concurrent closers, try_unwrap vs drop, droppers only.",
   note="Trusted: /proc/self/fd in a single-threaded worker process; bounded waits (<= 500 ms) only for completions the harness enabled that run on the blocking pool (close / File::open on the polling driver); loom + shim_synchrony for (b). Known findings (feature sync only): closer can sleep forever across threads (2 entries)."),
 "C17": dict(engine="e3loom", design="§2/C17",
   technique="loom: exhaustive interleaving exploration of the real compio-driver/src/asyncify.rs (include!d; flume re-bound to a loom rendezvous channel, std::thread to loom)",
   text="Layer (a) of DESIGN §2/C17: 1-3 dispatcher threads (several runtimes sharing a pool) x thread_limit 1-2 with the drivers' retry loop, and worker retirement after the idle timeout followed by a late job. Oracle: every job body runs exactly once, a handed-back job is the same job, jobs running at once <= thread_limit at every point, a job after retirement still runs, no deadlock.",
   note="Trusted: loom; shim_flume (rendezvous channel, idle timeout fired by an explicit scenario step). Scenarios with 4 threads run with preemption bound 1 (quick) / 2 (thorough)."),
 "C08": dict(engine="e_c08", design="§2/C08",
   technique="bounded exhaustive differential exploration: every operation sequence up to depth d over small alphabets, executed on the real compio code in lock-step against synchronous OS calls, on the io_uring driver and on the polling driver (thread-pool fallback)",
   text="Every sequence of depth <= 2-3 (quick) / 3-4 (thorough) over positional and vectored file I/O (5 offsets relative to EOF, 3 write lengths, 4 buffer shapes, 4 vectored layouts x 3 fill states, set_len, sync, metadata), all 64 OpenOptions subsets, anonymous pipes (depth 4 / 6) and the directory / whole-file helpers is run from a fresh state in three worlds: OS reference (std::fs + libc), compio on io_uring, compio on polling. After every operation results (value, ErrorKind, errno), returned buffers (length, capacity, all bytes up to capacity), metadata and the externally visible state (tree, file bytes, mode, nlink, pipe content) must be identical.",
   note="Trusted: kernel + std/libc as reference; tmpfs ($TMPDIR=/dev/shm) so sync_* only exercises the result path; a watchdog turns a stuck operation into a Hang observation; wall guard 38 s quick / 900 s thorough (cap => exhaustive=false). Not covered: overlapping operations and cancellation (C01/C02/C05), managed-buffer reads, splice, permission errors, transfers > 4 bytes. Known findings: offset u64::MAX on io_uring, zero-capacity pipe read on polling."),
 "C09": dict(engine="e_c09", design="§2/C09",
   technique="explicit-state BFS to a fixpoint with a virtual clock over the transplanted timer source (time/{mod,runtime,future}.rs, std::time::Instant re-bound), every transition replayed on the real objects; plus real-time replay of all maximal traces of a reduced space on the real Runtime",
   text="All reachable canonical states of {real TimerRuntime + real Sleep/Timeout/Interval futures + modelled run loop} under Sleep(d in -1..3)/Timeout/Tick/Poll (two wakers)/Drop/Busy/Loop(early|exact|late) are explored to the fixpoint for <= 3 timers alive and clock <= 6 (quick) / 10 (thorough) ticks, and <= 4 alive for sleeps and interval only. Invariants on every transition: never Ready before the deadline; Ready and the registered waker invoked once a wake() ran at or after the deadline; min_timeout never exceeds the nearest pending deadline; no wheel entry without a live owner; Timeout gives Ok iff the inner future was ready at that poll, Elapsed only at/after the deadline; interval ticks equal start + k*period. Conformance: 538 (quick) / 6890 (thorough) maximal traces replayed on the real runtime with 1 tick = 3 ms (never-early exact; fires-within-slack with a tolerance).",
   note="Trusted: the virtual Instant, the 20-line Runtime stand-in, the run-loop model Loop(delta) (read from lib.rs, not transplanted), the canonical-state abstraction (argued in model.rs; a wrong merge can only lose coverage). The real-time 'always fires' part uses a 60 ms slack and is a liveness check with a tolerance. Not covered: driver timeout rounding, > 4 simultaneous timers, Instant overflow."),
 "C20": dict(engine="e_c20", design="§2/C20",
   technique="bounded exhaustive enumeration of harness step sequences (gated child process x manually stepped compio runtime) on the real compio-process/runtime/driver code, both drivers and both wait paths, position-coded stream and exit-status oracle",
   text="Every plan of the families {full, out, outerr, in, duplex, status, output, managed} (sub-alphabets of ChildOut/Err(n), ChildReadIn, ChildClose, ChildExit(mode), ReadOut/Err(chunk), WriteIn(len), CloseIn, WaitPoll, OutputPoll, Harvest; depth 3-4 quick / 4-6 thorough with a stop alternative at every position; sizes {1, cap-1, cap, cap+1, 2cap}, chunks {1, 4096, cap}, exit modes {0,1,255,TERM,KILL}) runs once from a fresh runtime, thread and child (the harness's own binary obeying commands over a control socket), followed by a canonical drain/exit/wait epilogue, on io_uring and polling and with the blocking-pool and pidfd wait paths. Checked at every step: stdout/stderr bytes equal the commanded bytes in order and complete, EOF only after close/exit, the child's stdin checksum equals the bytes acknowledged as written, wait is Pending before the exit step and yields exactly the commanded code or signal afterwards, no runtime-thread blocking.",
   note="Trusted: child state machine and control protocol, Linux pipe semantics, /proc/<tid>/syscall for blocked-thread detection; a 20 s watchdog; 30/100 ms grace for 'wait stays pending'; violations re-executed twice before being reported. Not covered: Child::kill, cancelling in-flight stdio/wait futures, pipe capacities other than 65536. Known finding: stdin write blocks the runtime thread on the polling driver."),
 "C05": dict(engine="e_c05", design="§2/C05",
   technique="real-kernel operation-sequence exploration: exhaustive enumeration of harness step sequences (submit / cancel by drop, token, timeout / register-after-fire / make-ready / harvest / cancel-again) on fresh compio runtimes, both drivers, byte- and connection-conservation oracle",
   text="Ten scenarios of 2-3 pending recv / pipe read / accept / connect (blackholed) / PollOnce operations with at least two on one descriptor, two tokens plus token-less ops; every prefix of every step sequence up to depth 5-6 (polling) / 4 (io_uring) in quick, 7 / 5 in thorough is its own execution on a fresh runtime, followed by an epilogue (make everything ready until all uncancelled ops complete), teardown and a conservation audit. Oracle: a cancelled op finishes without its descriptor being made ready (or, on the drop route, its storage is released); its result is a cancellation error or a genuine result (bytes are a run of what the peer wrote and are consumed from the stream; never Ok(0)/foreign errors/fabricated readiness); every uncancelled op, also on the same descriptor, stays pending through a grace period and later gets exactly its model result; cancel twice / after completion changes nothing; an op registered under a fired token is cancelled; a canary checks that a token attached with with_cancel is visible to the op.",
   note="Trusted: harness peers, zero-timeout harvest to quiescence, 2/6 ms grace for negative observations, poisoning allocator + crash supervisor (a crash is re-run in isolation and reported only if it reproduces); the timeout route is the only real-time step (a scheduler-disturbed execution is repeated). Which of two readers on one descriptor the kernel serves first is accepted either way. Not covered: connect success racing a cancel, peer close racing a cancel, vectored/multishot/managed/zero-copy and send ops, io_uring beyond depth 4/5."),
}

NOT_YET = {
}

def main():
    props = [json.loads(l) for l in open(os.path.join(ROOT, "properties.jsonl"))]
    checks = []
    na = []
    for p in props:
        pid = p["id"]
        if pid in CHECKS:
            c = CHECKS[pid]
            checks.append({
                "property_id": pid,
                "quick_cmd": f"./check {pid} quick",
                "thorough_cmd": f"./check {pid} thorough",
                "evidence_file": f"/verif/evidence/{pid}.json",
                "replay_cmd_template": f"./check {pid} --replay {{path}}",
                "engine": c["engine"],
                "level_claimed": {"category": c.get("category", "model_checking"), "text": c["text"], "design_ref": c["design"]},
                "level_note": c["note"],
                "technique": c["technique"],
            })
        else:
            na.append({"property_id": pid, "reason": NOT_YET.get(pid, "check not built yet in this round (planned, see DESIGN.md §2 and §8); not claimed until its quick check passes on the unchanged tree and has failed on a seeded fault")})
    hooks_commits = []
    try:
        out = subprocess.run(["git", "-C", "/repo", "log", "--format=%H %s"], capture_output=True, text=True).stdout
        for line in out.splitlines():
            h, _, s = line.partition(" ")
            if s.startswith("verif-hook:"):
                hooks_commits.append(h)
    except Exception:
        pass
    m = {
        "version": 1,
        "setup_cmd": "./setup.sh",
        "hooks": {
            "guard": "--cfg compio_verif",
            "enable": "RUSTFLAGS='--cfg compio_verif' (set by ./check for the engines that need the event sink; loom engines use --cfg loom, the repository's own switch)",
            "baseline_off_cmd": "cd /repo && (cargo nextest run --workspace --no-fail-fast --tool-config-file pb:/w/lib/nextest.toml --profile pb --test-threads 8 --offline || cargo test --workspace --no-fail-fast --offline)",
            "source_commits": hooks_commits,
            "add_only": True,
        },
        "engines": [
            {"name": "e3loom", "path": "/verif/e3loom", "serves_properties": ["C03", "C04", "C06", "C17"], "kind_free_text": "loom (bounded-preemption exhaustive interleaving exploration) over the repository's own source: compio-executor via its cfg(loom), fd.rs and asyncify.rs via include! with std/flume/synchrony re-bound to loom-backed shims; each scenario in a sub-process"},
            {"name": "e_c08", "path": "/verif/e_c08", "serves_properties": ["C08"], "kind_free_text": "differential operation-sequence explorer: OS reference vs compio on io_uring vs compio on polling (fusion driver, driver chosen at run time)"},
            {"name": "e_c09", "path": "/verif/e_c09", "serves_properties": ["C09"], "kind_free_text": "explicit-state BFS with a virtual clock over the transplanted timer sources (build.rs copies them from /repo and re-binds std), plus real-time trace conformance on the real runtime"},
            {"name": "e_c03", "path": "/verif/e_c03", "serves_properties": ["C03"], "kind_free_text": "wake-position enumerator on the real drivers (cfg(compio_verif) interleaving points inside Driver::poll/flush)"},
            {"name": "e_c20", "path": "/verif/e_c20", "serves_properties": ["C20"], "kind_free_text": "plan enumerator over a gated child process and a manually stepped runtime, sharded over worker processes"},
            {"name": "e_c06", "path": "/verif/e_c06", "serves_properties": ["C06"], "kind_free_text": "close-protocol / descriptor-accounting program enumerator on the real runtime, sharded over single-threaded worker processes"},
            {"name": "e_c05", "path": "/verif/e_c05", "serves_properties": ["C05"], "kind_free_text": "real-kernel operation-sequence explorer for cancellation (both drivers), supervisor process for crash containment"},
            {"name": "e2pure", "path": "/verif/e2pure", "serves_properties": ["C10", "C11", "C12", "C13"], "kind_free_text": "input-exhaustive / deviation-bounded explorer driving real compio-buf and compio-io code (stateless DFS with prefix replay, vcore::explore)"},
        ],
        "checks": checks,
        "not_applicable": na,
        "notes": "All checks: ./check <ID> <quick|thorough>; exit 0 held / 1 VIOLATION / 2 machinery error. Known findings in /verif/known_findings.json. See DESIGN.md.",
    }
    json.dump(m, open(os.path.join(ROOT, "MANIFEST.json"), "w"), indent=1)
    print("MANIFEST.json written:", len(checks), "checks,", len(na), "not claimed")

main()
