#!/bin/bash
# tools/seeded_regress.sh [name-filter]   (env ISO_SLOT)
# Re-runs every stored seeded change (seeded/*/patch.diff, seeded/*/*.diff) against the check named in
# its meta.json, isolated from /repo (tools/try_mutant_iso.sh). Expected: exit 1 for each.
# Writes logs/seeded-regress-<slot>.txt. Development tool; not registered in MANIFEST.json.
cd "$(dirname "$0")/.."
F="${1:-}"
OUT=logs/seeded-regress-${ISO_SLOT:-0}.txt
[ -n "${SEEDED_APPEND:-}" ] || : > "$OUT"
for d in seeded/*/; do
  n=$(basename "$d")
  case "$n" in *"$F"*) ;; *) continue;; esac
  id=$(python3 -c "import json,re,sys; m=json.load(open('$d/meta.json')); c=m.get('detected_by_check',{}).get('check',''); r=re.search(r'C\d\d',c); print(r.group(0) if r else m.get('property','?'))")
  for p in "$d"*.diff; do
    [ -f "$p" ] || continue
    s=$(date +%s)
    ./tools/try_mutant_iso.sh "$p" "$id" quick > /tmp/seeded-regress-$$.out 2>&1; rc=$?
    e=$(date +%s)
    key=$(grep -m1 "violation detail" /tmp/seeded-regress-$$.out | sed 's/violation detail: key=\([^ ]*\).*/\1/')
    echo "$n $(basename "$p") check=$id exit=$rc wall=$((e-s))s $key" | tee -a "$OUT"
  done
done
rm -f /tmp/seeded-regress-$$.out
