#!/bin/bash
# tools/confirm_mutant.sh <worktree> <mdir> <crate-dir-for-demo> <demo-file> <cargo-test-args...>
# In the scratch worktree: demo must FAIL with the patch, the 217-test suite must PASS with it,
# and the demo must PASS without it. Prints a summary line.
set -u
WT="$1"; M="$2"; CR="$3"; DEMO="$4"; shift 4
cd "$WT" || exit 9
git checkout -q -- . ; 
git apply "$M/patch.diff" || { echo "CONFIRM $M: patch does not apply"; exit 4; }
mkdir -p "$CR/tests"; cp "$M/$DEMO" "$CR/tests/"
cargo test --offline "$@" > "$M/confirm_demo_with.log" 2>&1; with=$?
rm -f "$CR/tests/$DEMO"
cargo nextest run --workspace --no-fail-fast --offline --test-threads 8 > "$M/confirm_suite.log" 2>&1; suite=$?
summ=$(grep -E "^\s+Summary" "$M/confirm_suite.log" | tail -1)
git checkout -q -- .
cp "$M/$DEMO" "$CR/tests/"
cargo test --offline "$@" > "$M/confirm_demo_without.log" 2>&1; without=$?
rm -f "$CR/tests/$DEMO"
git checkout -q -- .
echo "CONFIRM $M: demo_with_patch_exit=$with (want !=0) suite_exit=$suite [$summ] demo_without_exit=$without (want 0)"
