#!/bin/bash
# tools/try_mutant.sh <patch.diff> <ID> [tier]   -- apply to /repo, run the check, always revert
set -u
P="$1"; ID="$2"; TIER="${3:-quick}"
cd /verif
if ! git -C /repo diff --quiet; then echo "REFUSING: /repo has uncommitted changes"; exit 3; fi
if ! git -C /repo apply "$P"; then echo "PATCH-DOES-NOT-APPLY"; exit 4; fi
./check "$ID" "$TIER" > /tmp/try-$ID.out 2>&1; rc=$?
git -C /repo checkout -- . ; git -C /repo clean -fdq -- . >/dev/null 2>&1
grep -E "^(VIOLATION|KNOWN-FINDING|MACHINERY)" /tmp/try-$ID.out | cut -c1-160 | head -5
grep "violation detail" /tmp/try-$ID.out | cut -c1-300 | head -3
tail -1 /tmp/try-$ID.out | cut -c1-200
echo "check-exit=$rc"
exit $rc
