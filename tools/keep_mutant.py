#!/usr/bin/env python3
"""keep_mutant.py <agent OUT/mX dir> <seeded name> <property> <detected:yes|no|after-strengthening> <confirm line> [notes]"""
import json, os, shutil, sys, glob
src, name, prop, detected, confirm = sys.argv[1:6]
notes = sys.argv[6] if len(sys.argv) > 6 else ""
dst = f"/verif/seeded/{name}"
os.makedirs(dst, exist_ok=True)
for f in glob.glob(src + "/*"):
    if os.path.basename(f).startswith("confirm_"):
        continue
    shutil.copy(f, dst)
meta = json.load(open(dst + "/meta.json"))
meta["property"] = prop
meta["lead_confirmation"] = {"what_was_run": "tools/confirm_mutant.sh in the agent's scratch worktree: demo with patch (must fail), full 217-test nextest suite with patch (must pass), demo without patch (must pass)", "result": confirm}
meta["detected_by_check"] = {"check": f"./check {prop} quick", "detected": detected, "notes": notes}
json.dump(meta, open(dst + "/meta.json", "w"), indent=1)
print("kept", dst)
