//! E2 — deviation-bounded / input-exhaustive explorer for the pure crates
//! (compio-buf, compio-io). One binary, one sub-command per property.
mod c04;
mod c10;
mod c10v;
mod c11;
mod c12;
mod c13;
mod env;

fn main() {
    let args = vcore::parse_args();
    vcore::quiet_panics();
    match args.property.as_str() {
        "C04" => c04::run(args),
        "C10" => c10::run(args),
        "C11" => c11::run(args),
        "C12" => c12::run(args),
        "C13" => c13::run(args),
        p => vcore::machinery_error(&format!("e2pure does not serve property {p}")),
    }
}
