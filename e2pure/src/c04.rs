//! C04, layer (a): single-threaded task / join-handle lifecycle on the real `compio_executor::Executor`.
//!
//! Every program up to a depth over {Spawn(kind), Wake(i), Tick, PollHandle(i), DropHandle(i),
//! Detach(i), Cancel(i), PollCancel(i), DropExecutor} with at most 3 tasks and `max_interval` in {1, 2, 61} is executed on
//! the real executor with instrumented futures and outputs.
use std::{
    cell::{Cell, RefCell},
    future::Future,
    pin::Pin,
    rc::Rc,
    sync::{
        Arc,
        atomic::{AtomicUsize, Ordering::SeqCst},
    },
    task::{Context, Poll, Wake, Waker},
};

use compio_executor::{Executor, ExecutorConfig, JoinError, JoinHandle};
use vcore::{Args, Chooser, Report, Violation, json};

#[derive(Clone, Copy, Debug, PartialEq)]
enum Kind {
    /// Ready at the first poll
    ReadyNow,
    /// Pending until woken through the waker it stored, then Ready
    UntilWoken,
    /// wakes itself and returns Pending twice, then Ready
    SelfWake2,
    /// wakes itself and returns Ready in the same poll
    WakeAndReady,
    /// panics at its second poll (first poll: self-wake + Pending)
    PanicAt2,
    /// wakes task 0 (if it stored a waker) and completes
    WakesFirst,
    /// drops the join handle of task 0 (if the harness still has it) and completes
    DropsFirstHandle,
}

const KINDS: [Kind; 7] = [Kind::ReadyNow, Kind::UntilWoken, Kind::SelfWake2, Kind::WakeAndReady, Kind::PanicAt2, Kind::WakesFirst, Kind::DropsFirstHandle];

#[derive(Default)]
struct TaskObs {
    polls: Cell<usize>,
    fut_drops: Cell<usize>,
    out_drops: Cell<usize>,
    finished: Cell<bool>,
    polled_after_finish: Cell<bool>,
    stored_waker: RefCell<Option<Waker>>,
    /// tick number at which the task became runnable and has not been polled since
    runnable_since: Cell<Option<usize>>,
    last_poll_tick: Cell<usize>,
}

struct Shared {
    tasks: RefCell<Vec<Rc<TaskObs>>>,
    handles: RefCell<Vec<Option<JoinHandle<Token>>>>,
    tick_no: Cell<usize>,
    in_tick: Cell<bool>,
    polled_outside_tick: Cell<bool>,
}

struct Token {
    obs: Rc<TaskObs>,
}

impl Drop for Token {
    fn drop(&mut self) {
        self.obs.out_drops.set(self.obs.out_drops.get() + 1);
    }
}

struct Fut {
    kind: Kind,
    obs: Rc<TaskObs>,
    sh: Rc<Shared>,
}

impl Future for Fut {
    type Output = Token;

    fn poll(self: Pin<&mut Self>, cx: &mut Context<'_>) -> Poll<Token> {
        let o = &self.obs;
        if o.finished.get() {
            o.polled_after_finish.set(true);
        }
        if !self.sh.in_tick.get() {
            self.sh.polled_outside_tick.set(true);
        }
        o.polls.set(o.polls.get() + 1);
        o.runnable_since.set(None);
        o.last_poll_tick.set(self.sh.tick_no.get());
        let n = o.polls.get();
        let done = |o: &Rc<TaskObs>| {
            o.finished.set(true);
            Poll::Ready(Token { obs: o.clone() })
        };
        match self.kind {
            Kind::ReadyNow => done(o),
            Kind::UntilWoken => {
                if n >= 2 {
                    done(o)
                } else {
                    *o.stored_waker.borrow_mut() = Some(cx.waker().clone());
                    Poll::Pending
                }
            }
            Kind::SelfWake2 => {
                if n >= 3 {
                    done(o)
                } else {
                    cx.waker().wake_by_ref();
                    o.runnable_since.set(Some(self.sh.tick_no.get()));
                    Poll::Pending
                }
            }
            Kind::WakeAndReady => {
                cx.waker().wake_by_ref();
                done(o)
            }
            Kind::PanicAt2 => {
                if n >= 2 {
                    o.finished.set(true);
                    panic!("task panics as scripted");
                }
                cx.waker().wake_by_ref();
                o.runnable_since.set(Some(self.sh.tick_no.get()));
                Poll::Pending
            }
            Kind::WakesFirst => {
                let first = self.sh.tasks.borrow().first().cloned();
                if let Some(f) = first {
                    let w = f.stored_waker.borrow_mut().take();
                    if let Some(w) = w {
                        if !f.finished.get() {
                            f.runnable_since.set(Some(self.sh.tick_no.get()));
                        }
                        w.wake();
                    }
                }
                done(o)
            }
            Kind::DropsFirstHandle => {
                let h = self.sh.handles.borrow_mut().get_mut(0).and_then(|h| h.take());
                drop(h);
                done(o)
            }
        }
    }
}

impl Drop for Fut {
    fn drop(&mut self) {
        self.obs.fut_drops.set(self.obs.fut_drops.get() + 1);
    }
}

struct CountWaker(AtomicUsize);

impl Wake for CountWaker {
    fn wake(self: Arc<Self>) {
        self.0.fetch_add(1, SeqCst);
    }

    fn wake_by_ref(self: &Arc<Self>) {
        self.0.fetch_add(1, SeqCst);
    }
}

#[derive(Clone, Copy, PartialEq, Debug)]
enum HState {
    Held,
    Taken,
    Dropped,
    Detached,
    /// `cancel()` was called; its future has not resolved yet
    Cancelling,
    /// `cancel()` resolved
    CancelDone,
}

type CancelFut = Pin<Box<dyn Future<Output = Option<Token>>>>;

fn run_program(ch: &mut Chooser, max_interval: u32, depth: usize, log: &mut Vec<String>) -> Result<String, (String, String)> {
    let fail = |k: &str, d: String| -> Result<String, (String, String)> { Err((k.to_string(), d)) };
    let sh = Rc::new(Shared {
        tasks: RefCell::new(Vec::new()),
        handles: RefCell::new(Vec::new()),
        tick_no: Cell::new(0),
        in_tick: Cell::new(false),
        polled_outside_tick: Cell::new(false),
    });
    let exe = Executor::with_config(ExecutorConfig {
        max_interval,
        ..Default::default()
    });
    let mut exe = Some(exe);
    let mut hstate: Vec<HState> = Vec::new();
    let mut kinds: Vec<Kind> = Vec::new();
    let mut got_result: Vec<Option<&'static str>> = Vec::new();
    // every poll of a handle uses a FRESH waker; the one of the latest Pending poll must be invoked
    // when the task completes (a handle may be polled from different contexts, e.g. select / hand-over)
    let mut hwakers: Vec<Option<Arc<CountWaker>>> = Vec::new();
    let mut cancelled_at_tick: Vec<Option<usize>> = Vec::new();
    let mut cancel_futs: Vec<Option<CancelFut>> = Vec::new();
    let fresh = || Arc::new(CountWaker(AtomicUsize::new(0)));
    // judge what a cancel() future yielded
    let judge_cancel = |i: usize, r: &Option<Token>, finished: bool, kind: Kind, exe_alive: bool| -> Result<&'static str, (String, String)> {
        match r {
            Some(_) if !finished => Err(("result-before-finish".to_string(), format!("cancel() of task {i} yielded an output before the task finished"))),
            Some(_) => Ok("CancelSome"),
            None if finished && kind != Kind::PanicAt2 && exe_alive => {
                Err(("cancel-discards-output".to_string(), format!("task {i} had finished (output not taken) when cancel() was called, but cancel().await yielded None: the output never reached the handle")))
            }
            None => Ok("CancelNone"),
        }
    };
    for _ in 0..depth {
        let n = kinds.len();
        // menu: 0 stop | spawn kinds (if < 3 tasks) | tick | drop executor | per task: wake, poll, drop, detach
        let mut menu: Vec<(u8, usize)> = vec![(0, 0)];
        if exe.is_some() {
            if n < 3 {
                for k in 0..KINDS.len() {
                    menu.push((1, k));
                }
            }
            menu.push((2, 0));
            menu.push((3, 0));
        }
        for i in 0..n {
            if sh.tasks.borrow()[i].stored_waker.borrow().is_some() {
                menu.push((4, i));
            }
            if hstate[i] == HState::Held && sh.handles.borrow()[i].is_some() {
                menu.push((5, i));
                menu.push((6, i));
                menu.push((7, i));
                menu.push((8, i));
            }
            if hstate[i] == HState::Cancelling {
                menu.push((9, i));
            }
        }
        let (op, arg) = menu[ch.pick(menu.len())];
        match op {
            0 => break,
            1 => {
                let kind = KINDS[arg];
                let obs = Rc::new(TaskObs::default());
                obs.runnable_since.set(Some(sh.tick_no.get()));
                sh.tasks.borrow_mut().push(obs.clone());
                let h = exe.as_ref().unwrap().spawn(Fut { kind, obs, sh: sh.clone() });
                sh.handles.borrow_mut().push(Some(h));
                hstate.push(HState::Held);
                kinds.push(kind);
                got_result.push(None);
                hwakers.push(None);
                cancelled_at_tick.push(None);
                cancel_futs.push(None);
                log.push(format!("spawn({kind:?})"));
            }
            2 => {
                sh.tick_no.set(sh.tick_no.get() + 1);
                sh.in_tick.set(true);
                let r = vcore::catch(|| exe.as_ref().unwrap().tick());
                sh.in_tick.set(false);
                match r {
                    Ok(more) => log.push(format!("tick->{more}")),
                    Err(p) => return fail("tick-panics", format!("tick() panicked: {p}")),
                }
            }
            3 => {
                let r = vcore::catch(|| drop(exe.take()));
                log.push("drop-executor".into());
                if let Err(p) = r {
                    return fail("executor-drop-panics", p);
                }
            }
            4 => {
                let t = sh.tasks.borrow()[arg].clone();
                let w = t.stored_waker.borrow_mut().take().unwrap();
                if !t.finished.get() && exe.is_some() && cancelled_at_tick[arg].is_none() {
                    t.runnable_since.set(Some(sh.tick_no.get()));
                }
                w.wake();
                log.push(format!("wake({arg})"));
            }
            5 => {
                let mut h = sh.handles.borrow_mut()[arg].take().unwrap();
                let cw = fresh();
                let w = Waker::from(cw.clone());
                let p = vcore::catch(|| Pin::new(&mut h).poll(&mut Context::from_waker(&w)));
                hwakers[arg] = None;
                match p {
                    Err(p) => return fail("handle-poll-panics", p),
                    Ok(Poll::Pending) => {
                        hwakers[arg] = Some(cw);
                        log.push(format!("poll-handle({arg})->Pending"));
                        if sh.tasks.borrow()[arg].finished.get() {
                            return fail("result-not-delivered", format!("task {arg} has finished but its handle is Pending"));
                        }
                        sh.handles.borrow_mut()[arg] = Some(h);
                    }
                    Ok(Poll::Ready(r)) => {
                        hstate[arg] = HState::Taken;
                        let what = match &r {
                            Ok(_) => "Ok",
                            Err(JoinError::Cancelled) => "Cancelled",
                            Err(JoinError::Panicked(_)) => "Panicked",
                        };
                        log.push(format!("poll-handle({arg})->{what}"));
                        got_result[arg] = Some(what);
                        let t = sh.tasks.borrow()[arg].clone();
                        match (what, kinds[arg], t.finished.get()) {
                            ("Ok", Kind::PanicAt2, _) => return fail("panic-lost", format!("task {arg} panicked but its handle reports Ok")),
                            ("Ok", _, false) => return fail("result-before-finish", format!("handle {arg} is Ok before the task finished")),
                            ("Panicked", k, _) if k != Kind::PanicAt2 => return fail("foreign-panic", format!("handle {arg} reports a panic of another task")),
                            ("Cancelled", _, true) if exe.is_some() && kinds[arg] != Kind::PanicAt2 => {
                                return fail("result-lost", format!("task {arg} finished but its handle reports Cancelled"));
                            }
                            ("Cancelled", _, false) if exe.is_some() => return fail("spurious-cancel", format!("handle {arg} reports Cancelled although nobody cancelled task {arg}")),
                            _ => {}
                        }
                        drop(r);
                    }
                }
            }
            6 => {
                let h = sh.handles.borrow_mut()[arg].take().unwrap();
                drop(h);
                hstate[arg] = HState::Dropped;
                if !sh.tasks.borrow()[arg].finished.get() {
                    cancelled_at_tick[arg] = Some(sh.tick_no.get());
                }
                sh.tasks.borrow()[arg].runnable_since.set(None);
                log.push(format!("drop-handle({arg})"));
            }
            7 => {
                let h = sh.handles.borrow_mut()[arg].take().unwrap();
                h.detach();
                hstate[arg] = HState::Detached;
                hwakers[arg] = None;
                log.push(format!("detach({arg})"));
            }
            8 | 9 => {
                let t = sh.tasks.borrow()[arg].clone();
                let mut f: CancelFut = if op == 8 {
                    let h = sh.handles.borrow_mut()[arg].take().unwrap();
                    hwakers[arg] = None;
                    if !t.finished.get() {
                        cancelled_at_tick[arg] = Some(sh.tick_no.get());
                    }
                    t.runnable_since.set(None);
                    hstate[arg] = HState::Cancelling;
                    Box::pin(h.cancel())
                } else {
                    cancel_futs[arg].take().unwrap()
                };
                let finished_at_call = t.finished.get();
                let w = Waker::from(fresh());
                match vcore::catch(|| f.as_mut().poll(&mut Context::from_waker(&w))) {
                    Err(p) => return fail("cancel-poll-panics", p),
                    Ok(Poll::Pending) => {
                        log.push(format!("{}({arg})->Pending", if op == 8 { "cancel" } else { "poll-cancel" }));
                        cancel_futs[arg] = Some(f);
                    }
                    Ok(Poll::Ready(r)) => {
                        let what = judge_cancel(arg, &r, finished_at_call, kinds[arg], exe.is_some())?;
                        log.push(format!("{}({arg})->{what}", if op == 8 { "cancel" } else { "poll-cancel" }));
                        got_result[arg] = Some(what);
                        hstate[arg] = HState::CancelDone;
                        drop(r);
                    }
                }
            }
            _ => unreachable!(),
        }
        // handle dropped by a sibling task
        for i in 0..kinds.len() {
            if hstate[i] == HState::Held && sh.handles.borrow()[i].is_none() {
                hstate[i] = HState::Dropped;
                if !sh.tasks.borrow()[i].finished.get() {
                    cancelled_at_tick[i] = Some(sh.tick_no.get());
                }
                sh.tasks.borrow()[i].runnable_since.set(None);
            }
        }
        // invariants after every step
        if sh.polled_outside_tick.get() {
            return fail("polled-outside-tick", "a task future was polled outside Executor::tick".into());
        }
        let n_tasks = kinds.len();
        for (i, t) in sh.tasks.borrow().iter().enumerate() {
            // the task completed (or panicked) while its handle was parked: the waker of the
            // handle's latest poll must have been invoked
            if t.finished.get() && hstate[i] == HState::Held && !sh.in_tick.get() {
                if let Some(cw) = &hwakers[i] {
                    if cw.0.load(SeqCst) == 0 {
                        return fail("join-waker-not-invoked", format!("task {i} has finished; its handle's latest poll returned Pending but the waker of that poll was never invoked (an older waker may have been)"));
                    }
                }
            }
            if t.polled_after_finish.get() {
                return fail("polled-after-finish", format!("task {i} polled after it returned Ready / panicked"));
            }
            if t.fut_drops.get() > 1 {
                return fail("future-dropped-twice", format!("task {i}"));
            }
            if t.out_drops.get() > 1 {
                return fail("output-dropped-twice", format!("task {i}"));
            }
            if let Some(c) = cancelled_at_tick[i] {
                // cancelled: never polled again after the next tick, future dropped by then
                if sh.tick_no.get() > c && t.last_poll_tick.get() > c + 1 {
                    return fail("polled-after-cancel", format!("task {i} was cancelled at tick {c} but polled at tick {}", t.last_poll_tick.get()));
                }
                // the cancelled task is scheduled like any runnable task: same fairness bound
                if sh.tick_no.get() >= c + n_tasks.div_ceil(max_interval as usize) + 1 && t.fut_drops.get() == 0 && !sh.in_tick.get() {
                    return fail("cancelled-future-not-dropped", format!("task {i} cancelled at tick {c}, future still alive after tick {}", sh.tick_no.get()));
                }
            }
            if exe.is_some() {
                if let Some(since) = t.runnable_since.get() {
                    let bound = n_tasks.div_ceil(max_interval as usize) + 1;
                    if sh.tick_no.get() >= since + bound && !t.finished.get() && cancelled_at_tick[i].is_none() {
                        return fail("starved", format!("task {i} runnable since tick {since}, not polled by tick {} (max_interval {max_interval}, {n_tasks} tasks)", sh.tick_no.get()));
                    }
                }
            }
        }
    }
    // teardown: drop the executor, then remaining handles
    if let Some(e) = exe.take() {
        if let Err(p) = vcore::catch(|| drop(e)) {
            return fail("executor-drop-panics", p);
        }
    }
    let remaining: Vec<Option<JoinHandle<Token>>> = std::mem::take(&mut *sh.handles.borrow_mut());
    for (i, h) in remaining.into_iter().enumerate() {
        if let Some(mut h) = h {
            // a handle outliving the executor must resolve (value or cancellation), not hang or crash
            let w = Waker::from(fresh());
            match vcore::catch(|| Pin::new(&mut h).poll(&mut Context::from_waker(&w))) {
                Err(p) => return fail("handle-poll-panics", p),
                Ok(Poll::Pending) => return fail("handle-hangs-after-executor-drop", format!("handle {i} is Pending after the executor was dropped")),
                Ok(Poll::Ready(r)) => drop(r),
            }
        }
    }
    for (i, f) in cancel_futs.iter_mut().enumerate() {
        if let Some(mut f) = f.take() {
            let w = Waker::from(fresh());
            match vcore::catch(|| f.as_mut().poll(&mut Context::from_waker(&w))) {
                Err(p) => return fail("cancel-poll-panics", p),
                Ok(Poll::Pending) => return fail("cancel-hangs-after-executor-drop", format!("cancel() of task {i} is Pending after the executor was dropped")),
                Ok(Poll::Ready(r)) => drop(r),
            }
        }
    }
    // stored wakers may still reference the tasks: drop them last (wakers used after executor drop)
    for t in sh.tasks.borrow().iter() {
        if let Some(w) = t.stored_waker.borrow_mut().take() {
            if let Err(p) = vcore::catch(|| w.wake()) {
                return fail("wake-after-drop-panics", p);
            }
        }
    }
    let mut sig = String::new();
    for (i, t) in sh.tasks.borrow().iter().enumerate() {
        if t.fut_drops.get() != 1 {
            return fail("future-drop-count", format!("task {i} ({:?}): future dropped {} times by the end", kinds[i], t.fut_drops.get()));
        }
        let produced = t.finished.get() && kinds[i] != Kind::PanicAt2;
        if t.out_drops.get() != produced as usize {
            return fail("output-drop-count", format!("task {i} ({:?}): output produced={produced}, dropped {} times", kinds[i], t.out_drops.get()));
        }
        sig.push_str(&format!("{:?}{}{}", hstate[i], t.polls.get().min(3), got_result[i].unwrap_or("-")));
    }
    Ok(sig)
}

pub fn run(args: Args) {
    let rep = Report::new("C04", args.tier);
    let depth = args.tier.pick(6, 7);
    let items: Vec<(u32, usize)> = [1u32, 2, 61].iter().flat_map(|&m| (0..=KINDS.len()).map(move |first| (m, first))).collect();
    vcore::par_for_each(&items, |_, &(max_interval, first)| {
        // split the space by the first choice (0 = stop, 1.. = spawn kind) for parallelism
        let mut prefix = vec![first as u32];
        loop {
            let mut ch = Chooser::new(prefix.clone(), u32::MAX);
            let mut log = Vec::new();
            let r = vcore::catch(|| run_program(&mut ch, max_interval, depth, &mut log));
            rep.add_execution(log.len() as u64 + 1);
            rep.add_states(1);
            let r = match r {
                Ok(r) => r,
                Err(p) => Err(("panic".to_string(), p)),
            };
            match r {
                Ok(sig) => {
                    rep.outcome(format!("{max_interval}|{sig}"));
                    if log.len() >= depth {
                        rep.sample(8, || json!({"max_interval": max_interval, "program": log, "outcome": sig}));
                    }
                }
                Err((key, detail)) => rep.violation(Violation {
                    key: format!("program:{key}"),
                    what: format!("max_interval={max_interval} program={log:?}: {detail}"),
                    replay: json!({"engine":"e2pure/C04","max_interval":max_interval,"choices":ch.choices(),"program":log}),
                }),
            }
            match vcore::next_prefix(&ch.trace) {
                Some(p) if p[0] == first as u32 => prefix = p,
                _ => break,
            }
        }
    });
    rep.extra("bounds", json!({"program_depth": depth, "max_tasks": 3, "max_interval": [1, 2, 61], "task_kinds": format!("{KINDS:?}")}));
    rep.rule("every program up to program_depth over {spawn(7 task kinds), wake, tick, poll-handle (fresh waker per poll), drop-handle, detach, cancel, poll-cancel, drop-executor} with <= 3 tasks x max_interval in {1,2,61} on the real single-threaded Executor; distinct outcomes = (handle states, poll counts, results) classes");
    rep.finish();
}
