//! C10, vectored part: containers of buffers, `slice(begin)`, `slice_mut(begin)`, `owned_iter()`.
//!
//! Fill = write k bytes through `iter_uninit_slice()` in order (what `readv` does), then record
//! with `advance_vec_to(k)` (vectored views) or `advance_to(k)` (the `owned_iter` cursor).
//! Oracle per member buffer (a `Vec<u8>` whose whole capacity is pre-written with a pattern):
//! every written byte is visible as initialized at the position where it was written, nothing
//! outside the written range changed, no member exposes bytes beyond
//! max(previous length, written extent).
use arrayvec::ArrayVec;
use compio_buf::*;
use smallvec::SmallVec;
use vcore::{Report, Tier, Violation, json};

type Member = Vec<u8>;

fn mk_member(len: usize, cap: usize, tag: usize) -> Member {
    let mut v: Vec<u8> = Vec::with_capacity(cap);
    assert_eq!(v.capacity(), cap);
    unsafe {
        for i in 0..cap {
            v.as_mut_ptr().add(i).write(0xA0 + (tag as u8) * 0x10 + i as u8);
        }
        v.set_len(len);
    }
    v
}

pub trait Container: IoVectoredBufMut + Sized + 'static {
    fn name() -> &'static str;
    fn build(m: Vec<Member>) -> Option<Self>;
    fn members_mut(&mut self) -> Vec<&mut Member>;
}

impl Container for Vec<Member> {
    fn name() -> &'static str {
        "Vec<Vec<u8>>"
    }

    fn build(m: Vec<Member>) -> Option<Self> {
        Some(m)
    }

    fn members_mut(&mut self) -> Vec<&mut Member> {
        self.iter_mut().collect()
    }
}

impl Container for [Member; 2] {
    fn name() -> &'static str {
        "[Vec<u8>;2]"
    }

    fn build(m: Vec<Member>) -> Option<Self> {
        m.try_into().ok()
    }

    fn members_mut(&mut self) -> Vec<&mut Member> {
        self.iter_mut().collect()
    }
}

impl Container for ArrayVec<Member, 3> {
    fn name() -> &'static str {
        "ArrayVec<Vec<u8>,3>"
    }

    fn build(m: Vec<Member>) -> Option<Self> {
        if m.len() > 3 {
            return None;
        }
        Some(m.into_iter().collect())
    }

    fn members_mut(&mut self) -> Vec<&mut Member> {
        self.iter_mut().collect()
    }
}

impl Container for SmallVec<[Member; 2]> {
    fn name() -> &'static str {
        "SmallVec<[Vec<u8>;2]>"
    }

    fn build(m: Vec<Member>) -> Option<Self> {
        Some(m.into_iter().collect())
    }

    fn members_mut(&mut self) -> Vec<&mut Member> {
        self.iter_mut().collect()
    }
}

impl Container for (Member, (Member,)) {
    fn name() -> &'static str {
        "(Vec<u8>,(Vec<u8>,))"
    }

    fn build(m: Vec<Member>) -> Option<Self> {
        let [a, b]: [Member; 2] = m.try_into().ok()?;
        Some((a, (b,)))
    }

    fn members_mut(&mut self) -> Vec<&mut Member> {
        vec![&mut self.0, &mut self.1.0]
    }
}

impl Container for (Member, (Member, (Member, ()))) {
    fn name() -> &'static str {
        "(Vec<u8>,(Vec<u8>,(Vec<u8>,())))"
    }

    fn build(m: Vec<Member>) -> Option<Self> {
        let [a, b, c]: [Member; 3] = m.try_into().ok()?;
        Some((a, (b, (c, ()))))
    }

    fn members_mut(&mut self) -> Vec<&mut Member> {
        vec![&mut self.0, &mut self.1.0, &mut self.1.1.0]
    }
}

#[derive(Clone)]
struct MModel {
    ptr: usize,
    cap: usize,
    len: usize,
    content: Vec<u8>,
    written: usize, // extent written in this member by the last fill
}

fn snapshot<C: Container>(c: &mut C) -> Vec<MModel> {
    c.members_mut()
        .into_iter()
        .map(|m| MModel {
            ptr: m.as_ptr() as usize,
            cap: m.capacity(),
            len: m.len(),
            content: unsafe { std::slice::from_raw_parts(m.as_ptr(), m.capacity()) }.to_vec(),
            written: 0,
        })
        .collect()
}

/// Write `k` bytes through the given (ptr,len) iovecs in order; update the model.
fn scatter(iov: &[(usize, usize)], k: usize, fill_no: usize, model: &mut [MModel]) -> Result<(), String> {
    let mut left = k;
    let mut n = 0usize;
    for &(p, l) in iov {
        let take = l.min(left);
        if take > 0 {
            let Some(mi) = model.iter().position(|m| p >= m.ptr && p + l <= m.ptr + m.cap && m.cap > 0) else {
                return Err(format!("iter_uninit_slice yields {l} bytes at {p:#x}, outside every member allocation"));
            };
            let off = p - model[mi].ptr;
            for j in 0..take {
                let b = 0x10 * (fill_no as u8 + 1) + n as u8;
                unsafe { ((p + j) as *mut u8).write(b) };
                model[mi].content[off + j] = b;
                n += 1;
            }
            model[mi].written = model[mi].written.max(off + take);
        }
        left -= take;
        if left == 0 {
            break;
        }
    }
    if left > 0 {
        vcore::machinery_error("scatter: k exceeds the view's capacity");
    }
    Ok(())
}

fn verify<C: Container>(c: &mut C, model: &mut [MModel]) -> Result<String, (&'static str, String)> {
    let mut sig = String::new();
    for (i, (m, mm)) in c.members_mut().into_iter().zip(model.iter_mut()).enumerate() {
        if m.as_ptr() as usize != mm.ptr || m.capacity() != mm.cap {
            return Err(("member-moved", format!("member {i} reallocated")));
        }
        let all = unsafe { std::slice::from_raw_parts(m.as_ptr(), m.capacity()) };
        if all != &mm.content[..] {
            return Err(("member-content", format!("member {i} bytes {all:02x?} expected {:02x?}", mm.content)));
        }
        let bound = mm.len.max(mm.written);
        if m.len() < mm.written {
            return Err((
                "written-bytes-not-visible",
                format!("member {i}: {} bytes were written from its start but its length is {} (was {})", mm.written, m.len(), mm.len),
            ));
        }
        if m.len() > bound {
            return Err((
                "member-exposes-uninitialized",
                format!("member {i}: length {} but only {} bytes are initialized (was {}, written {})", m.len(), bound, mm.len, mm.written),
            ));
        }
        if m.len() < mm.len {
            return Err((
                "member-truncated",
                format!("member {i}: length dropped from {} to {} when {} bytes written from its start were recorded: initialized content outside the written range is lost", mm.len, m.len(), mm.written),
            ));
        }
        sig.push_str(&format!("{}", m.len()));
        mm.len = m.len();
        mm.written = 0;
    }
    Ok(sig)
}

fn iovecs<V: IoVectoredBufMut>(v: &mut V) -> Vec<(usize, usize)> {
    v.iter_uninit_slice().map(|s| (s.as_ptr() as usize, s.len())).collect()
}

/// static contract of a vectored view: the i-th initialized slice is a prefix of the i-th
/// writable slice
fn vec_static<V: IoVectoredBufMut>(v: &mut V) -> Result<(), (&'static str, String)> {
    let init: Vec<(usize, usize)> = v.iter_slice().map(|s| (s.as_ptr() as usize, s.len())).collect();
    let un = iovecs(v);
    if init.len() != un.len() {
        return Err(("vec-slice-count", format!("iter_slice yields {} slices, iter_uninit_slice {}", init.len(), un.len())));
    }
    for (i, (a, b)) in init.iter().zip(un.iter()).enumerate() {
        if a.1 > b.1 {
            return Err(("vec-len-exceeds-capacity", format!("slice {i}: init len {} > writable len {}", a.1, b.1)));
        }
        if a.1 > 0 && a.0 != b.0 {
            return Err(("vec-init-not-prefix", format!("slice {i}: init at {:#x}, writable at {:#x}", a.0, b.0)));
        }
    }
    let tl: usize = init.iter().map(|x| x.1).sum();
    if v.total_len() != tl || v.total_capacity() != un.iter().map(|x| x.1).sum::<usize>() {
        return Err(("vec-totals", "total_len/total_capacity disagree with the slices".into()));
    }
    Ok(())
}

#[derive(Clone, Copy, Debug)]
enum VKind {
    Whole,
    Slice(usize),
    SliceMut(usize),
}

/// true if every byte before capacity-offset `b` is initialized (the analogue of `slice(a..)`'s
/// `a <= buf_len` requirement; without it recording a length would expose the gap)
fn prefix_initialized(spec: &[(usize, usize)], b: usize) -> bool {
    let mut left = b;
    for &(l, c) in spec {
        if left >= c {
            if l != c {
                return false;
            }
            left -= c;
        } else {
            return l >= left;
        }
    }
    left == 0
}

fn run_vec_case<C: Container>(rep: &Report, spec: &[(usize, usize)], kind: VKind, max_fills: usize, ch: &mut vcore::Chooser) {
    let members: Vec<Member> = spec.iter().enumerate().map(|(i, &(l, c))| mk_member(l, c, i)).collect();
    let Some(mut c) = C::build(members) else { return };
    let mut model = snapshot(&mut c);
    let desc = format!("{}{:?}.{:?}", C::name(), spec, kind);
    let mut fills: Vec<usize> = Vec::new();
    let mut cause = "distribution";
    let fill_ok = match kind {
        VKind::Whole => true,
        VKind::Slice(b) => {
            // skipping b initialized bytes == skipping b capacity bytes only if all earlier members are full
            let mut left = b;
            let mut ok = true;
            for &(l, cc) in spec {
                if l > left {
                    break;
                }
                left -= l;
                ok &= l == cc;
            }
            ok
        }
        VKind::SliceMut(b) => prefix_initialized(spec, b),
    };
    let res: Result<String, (&'static str, String)> = vcore::catch(|| {
        let mut sig = String::new();
        macro_rules! drive {
            ($v:expr, $inner:expr) => {{
                vec_static($v)?;
                while fill_ok && fills.len() < max_fills {
                    let iov = iovecs($v);
                    let cap: usize = iov.iter().map(|x| x.1).sum();
                    let c = ch.pick(cap + 2);
                    if c == 0 {
                        break;
                    }
                    let k = c - 1;
                    cause = if k <= $v.total_len() { "noop:k<=total_len" } else { "distribution" };
                    scatter(&iov, k, fills.len(), &mut model).map_err(|e| ("iovec-outside", e))?;
                    unsafe { $v.advance_vec_to(k) };
                    fills.push(k);
                    sig = verify($inner, &mut model)?;
                    vec_static($v)?;
                }
            }};
        }
        match kind {
            VKind::Whole => {
                // (macro needs two paths to the same object; split borrow by re-borrowing)
                vec_static(&mut c)?;
                while fills.len() < max_fills {
                    let iov = iovecs(&mut c);
                    let cap: usize = iov.iter().map(|x| x.1).sum();
                    let x = ch.pick(cap + 2);
                    if x == 0 {
                        break;
                    }
                    let k = x - 1;
                    cause = if k <= c.total_len() { "noop:k<=total_len" } else { "distribution" };
                    scatter(&iov, k, fills.len(), &mut model).map_err(|e| ("iovec-outside", e))?;
                    unsafe { c.advance_vec_to(k) };
                    fills.push(k);
                    sig = verify(&mut c, &mut model)?;
                    vec_static(&mut c)?;
                }
            }
            VKind::Slice(b) => {
                let mut v = c.slice(b);
                drive!(&mut v, v.as_inner_mut());
                c = v.into_inner();
            }
            VKind::SliceMut(b) => {
                let mut v = c.slice_mut(b);
                drive!(&mut v, v.as_inner_mut());
                c = v.into_inner();
            }
        }
        let _ = &mut c;
        Ok(sig)
    })
    .unwrap_or_else(|p| Err(("panic", p)));
    rep.add_execution(fills.len() as u64 + 1);
    let kname = match kind {
        VKind::Whole => "whole",
        VKind::Slice(_) => "slice",
        VKind::SliceMut(_) => "slice_mut",
    };
    match res {
        Ok(sig) => {
            rep.outcome(format!("vec|{kname}|{sig}"));
            if fills.len() == 2 {
                rep.sample(10, || json!({"vectored": desc, "fills": fills, "member_lens_after": sig}));
            }
        }
        Err((oracle, detail)) => rep.violation(Violation {
            key: format!("vectored:{oracle}:{kname}:{cause}:{}", C::name()),
            what: format!("{desc} fills {fills:?}: {detail}"),
            replay: json!({"engine":"e2pure/C10","case":"vectored","container":C::name(),"members":spec,"view":format!("{kind:?}"),"fills":fills,"choices":ch.choices()}),
        }),
    }
}

/// `owned_iter()`: walk members with `next()`, filling the current one via the `IoBufMut` impl.
fn run_iter_case<C: Container>(rep: &Report, spec: &[(usize, usize)], ch: &mut vcore::Chooser) {
    let members: Vec<Member> = spec.iter().enumerate().map(|(i, &(l, c))| mk_member(l, c, i)).collect();
    let Some(mut c) = C::build(members) else { return };
    let mut model = snapshot(&mut c);
    let desc = format!("{}{:?}.owned_iter", C::name(), spec);
    let mut step = 0usize;
    let mut ks = Vec::new();
    let mut cause = "earlier-members-empty-and-filled-to-capacity";
    let res: Result<String, (&'static str, String)> = vcore::catch(|| {
        let mut it = match c.owned_iter() {
            Ok(it) => it,
            Err(_) => return Ok("empty".to_string()),
        };
        let sig;
        loop {
            // contract of the cursor as an IoBufMut
            let (pi, li) = {
                let s = it.as_init();
                (s.as_ptr() as usize, s.len())
            };
            let (pu, lu) = {
                let s = it.as_uninit();
                (s.as_ptr() as usize, s.len())
            };
            if li > lu {
                return Err(("iter-len-exceeds-capacity", format!("member {step}: buf_len {li} > buf_capacity {lu}")));
            }
            if li > 0 && pi != pu {
                return Err(("iter-init-not-prefix", format!("member {step}: as_init at {pi:#x}, as_uninit at {pu:#x}")));
            }
            let k = ch.pick(lu + 1);
            scatter(&[(pu, lu)], k, step, &mut model).map_err(|e| ("iovec-outside", e))?;
            unsafe { it.advance_to(k) };
            ks.push(k);
            match it.next() {
                Ok(n) => {
                    if k < lu || li > 0 {
                        cause = "next()-after-member-preinitialized-or-not-filled-to-capacity";
                    }
                    it = n;
                    step += 1;
                }
                Err(mut inner) => {
                    sig = verify(&mut inner, &mut model)?;
                    break;
                }
            }
        }
        Ok(sig)
    })
    .unwrap_or_else(|p| Err(("panic", p)));
    rep.add_execution(spec.len() as u64 + 1);
    match res {
        Ok(sig) => rep.outcome(format!("vec|iter|{sig}")),
        Err((oracle, detail)) => rep.violation(Violation {
            key: format!("vectored:{oracle}:owned_iter:{cause}:{}", C::name()),
            what: format!("{desc} fills-per-member {ks:?}: {detail}"),
            replay: json!({"engine":"e2pure/C10","case":"owned_iter","container":C::name(),"members":spec,"fills":ks,"choices":ch.choices()}),
        }),
    }
}

fn specs(n_members: usize, max_cap: usize) -> Vec<Vec<(usize, usize)>> {
    let single: Vec<(usize, usize)> = (0..=max_cap).flat_map(|c| (0..=c).map(move |l| (l, c))).collect();
    let mut out: Vec<Vec<(usize, usize)>> = vec![vec![]];
    for _ in 0..n_members {
        out = out
            .into_iter()
            .flat_map(|p| {
                single.iter().map(move |s| {
                    let mut q = p.clone();
                    q.push(*s);
                    q
                })
            })
            .collect();
    }
    out
}

fn sweep<C: Container>(rep: &Report, n_members: usize, max_cap: usize, max_fills: usize) {
    let all = specs(n_members, max_cap);
    vcore::par_for_each(&all, |_, spec| {
        let total_cap: usize = spec.iter().map(|s| s.1).sum();
        let total_len: usize = spec.iter().map(|s| s.0).sum();
        let mut kinds = vec![VKind::Whole];
        kinds.extend((0..=total_len).map(VKind::Slice));
        kinds.extend((0..=total_cap).filter(|&b| prefix_initialized(spec, b)).map(VKind::SliceMut));
        for kind in kinds {
            let st = vcore::explore(u32::MAX, u64::MAX, |ch| {
                run_vec_case::<C>(rep, spec, kind, max_fills, ch);
                true
            });
            rep.add_states(st.executions);
        }
        let st = vcore::explore(u32::MAX, u64::MAX, |ch| {
            run_iter_case::<C>(rep, spec, ch);
            true
        });
        rep.add_states(st.executions);
    });
}

pub fn run(rep: &Report, tier: Tier) {
    let cap = tier.pick(3, 4);
    sweep::<Vec<Member>>(rep, 0, cap, 2);
    sweep::<Vec<Member>>(rep, 1, cap, 2);
    sweep::<Vec<Member>>(rep, 2, cap, 2);
    sweep::<[Member; 2]>(rep, 2, cap, 2);
    sweep::<(Member, (Member,))>(rep, 2, cap, 2);
    sweep::<ArrayVec<Member, 3>>(rep, 2, cap, 1);
    sweep::<SmallVec<[Member; 2]>>(rep, 2, cap, 1);
    sweep::<Vec<Member>>(rep, 3, 2, tier.pick(1, 2));
    sweep::<(Member, (Member, (Member, ())))>(rep, 3, 2, 1);
    sweep::<SmallVec<[Member; 2]>>(rep, 3, 2, 1);
    rep.extra("vectored_bounds", json!({"member_capacity_max": cap, "members_max": 3}));
}
