//! C12 — blocking-style (`SyncStream`) and poll-style (`AsyncStream`) adapters are lossless FIFO
//! pipes.
//!
//! Caller programs (every sequence of entry-point calls up to a depth) x every placement of at
//! most `bound` deviations of the scripted inner stream (short transfer, Interrupted, error,
//! Pending until an explicit `OpenGate` step) x small capacities/limits. Oracle: two reference
//! FIFOs (bytes produced by the inner reader vs. bytes delivered to the caller + what
//! `into_parts` hands back; bytes accepted by `write` vs. bytes received by the inner writer),
//! would-block exactly when the model says the adapter needs servicing, the configured limit is
//! honoured, and every entry point that returned `Pending` has its latest waker woken when the
//! inner stream becomes ready.
use std::{
    cell::{Cell, RefCell},
    future::Future,
    io::{BufRead, Read, Write},
    pin::Pin,
    rc::Rc,
    sync::{
        Arc,
        atomic::{AtomicUsize, Ordering},
    },
    task::{Context, Poll, Wake, Waker},
};

use compio_buf::{BufResult, IoBuf, IoBufMut};
use compio_io::{
    AsyncRead, AsyncWrite,
    compat::{AsyncReadStream, AsyncWriteStream, SyncStream},
};
use vcore::{Args, Chooser, Report, Violation, json};

use crate::env::*;

type Res = Result<String, (String, String)>;

fn fail<T>(key: impl Into<String>, detail: impl Into<String>) -> Result<T, (String, String)> {
    Err((key.into(), detail.into()))
}

// --------------------------------------------------------------------------------------------
// gated inner stream: Pending until the harness opens the gate
// --------------------------------------------------------------------------------------------

#[derive(Default)]
struct Gate {
    open: Cell<bool>,
    waiting: RefCell<Option<Waker>>,
    /// how many times an inner call parked on the gate
    parked: Cell<usize>,
}

impl Gate {
    fn open(&self) -> bool {
        self.open.set(true);
        if let Some(w) = self.waiting.borrow_mut().take() {
            w.wake();
            true
        } else {
            false
        }
    }
}

struct GateFut(Rc<Gate>);

impl Future for GateFut {
    type Output = ();

    fn poll(self: Pin<&mut Self>, cx: &mut Context<'_>) -> Poll<()> {
        if self.0.open.get() {
            Poll::Ready(())
        } else {
            *self.0.waiting.borrow_mut() = Some(cx.waker().clone());
            Poll::Pending
        }
    }
}

struct GReader {
    r: ScriptReader,
    gate: Rc<Gate>,
}

impl AsyncRead for GReader {
    async fn read<B: IoBufMut>(&mut self, buf: B) -> BufResult<usize, B> {
        // decide first whether this call parks
        let park = {
            let mut e = self.r.env.borrow_mut();
            e.calls < e.horizon && e.ch.deviate(2) == 1
        };
        if park {
            self.gate.open.set(false);
            self.gate.parked.set(self.gate.parked.get() + 1);
            GateFut(self.gate.clone()).await;
        }
        self.r.read(buf).await
    }
}

struct GWriter {
    w: ScriptWriter,
    gate: Rc<Gate>,
}

impl AsyncWrite for GWriter {
    async fn write<T: IoBuf>(&mut self, buf: T) -> BufResult<usize, T> {
        let park = {
            let mut e = self.w.env.borrow_mut();
            e.calls < e.horizon && e.ch.deviate(2) == 1
        };
        if park {
            self.gate.open.set(false);
            self.gate.parked.set(self.gate.parked.get() + 1);
            GateFut(self.gate.clone()).await;
        }
        self.w.write(buf).await
    }

    async fn flush(&mut self) -> std::io::Result<()> {
        // the inner flush may park as well (the adapter has handed its buffer back by then)
        let park = {
            let mut e = self.w.env.borrow_mut();
            e.calls < e.horizon && e.ch.deviate(2) == 1
        };
        if park {
            self.gate.open.set(false);
            self.gate.parked.set(self.gate.parked.get() + 1);
            GateFut(self.gate.clone()).await;
        }
        self.w.flush().await
    }

    async fn shutdown(&mut self) -> std::io::Result<()> {
        self.w.shutdown().await
    }
}

fn show<T>(p: &Poll<std::io::Result<T>>, f: impl Fn(&T) -> String) -> String {
    match p {
        Poll::Pending => "Pending".into(),
        Poll::Ready(Ok(v)) => format!("Ok({})", f(v)),
        Poll::Ready(Err(e)) => format!("Err({:?})", e.kind()),
    }
}

struct CountWaker(AtomicUsize);

impl Wake for CountWaker {
    fn wake(self: Arc<Self>) {
        self.0.fetch_add(1, Ordering::SeqCst);
    }

    fn wake_by_ref(self: &Arc<Self>) {
        self.0.fetch_add(1, Ordering::SeqCst);
    }
}

fn explore_case(rep: &Report, name: &str, params: &str, bound: u32, cap: u64, f: &dyn Fn(&Env, &mut Vec<String>) -> Res) {
    let st = vcore::explore(bound, cap, |ch| {
        let c = std::mem::replace(ch, Chooser::new(vec![], 0));
        let env = new_env(c, 200);
        let mut log = Vec::new();
        let r = vcore::catch(|| f(&env, &mut log));
        *ch = take_chooser(&env);
        let e = env.borrow();
        rep.add_execution((log.len() + e.reads.len() + e.writes.len()) as u64 + 1);
        let r = match r {
            Ok(Ok(_)) if e.livelock => Err(("livelock".to_string(), "environment horizon exceeded".to_string())),
            Ok(r) => r,
            Err(p) => Err(("panic".to_string(), p)),
        };
        match r {
            Ok(sig) => {
                rep.outcome(format!("{name}|{sig}"));
                if ch.deviations >= 1 && log.len() >= 4 {
                    rep.sample(12, || json!({"case": name, "params": params, "program": log, "inner_reads": format!("{:?}", e.reads), "inner_writes": format!("{:?}", e.writes)}));
                }
            }
            Err((key, detail)) => rep.violation(Violation {
                key: format!("{name}:{key}"),
                what: format!("{name}({params}) program={log:?} inner_reads={:?} inner_writes={:?} flushes={:?}: {detail}", e.reads, e.writes, e.flushes),
                replay: json!({"engine":"e2pure/C12","case":name,"params":params,"choices":ch.choices(),"program":log}),
            }),
        }
        true
    });
    rep.add_states(st.executions);
    if st.capped {
        rep.cap_hit(&format!("{name}({params}) capped at {cap} executions"));
    }
}

// --------------------------------------------------------------------------------------------
// SyncStream
// --------------------------------------------------------------------------------------------

struct Both {
    r: ScriptReader,
    w: ScriptWriter,
}

impl AsyncRead for Both {
    async fn read<B: IoBufMut>(&mut self, buf: B) -> BufResult<usize, B> {
        self.r.read(buf).await
    }
}

impl AsyncWrite for Both {
    async fn write<T: IoBuf>(&mut self, buf: T) -> BufResult<usize, T> {
        self.w.write(buf).await
    }

    async fn flush(&mut self) -> std::io::Result<()> {
        self.w.flush().await
    }

    async fn shutdown(&mut self) -> std::io::Result<()> {
        self.w.shutdown().await
    }
}

fn sync_stream(rep: &Report, bound: u32, base: usize, max: usize, data_len: usize, depth: usize) {
    let data = payload(data_len);
    explore_case(rep, "SyncStream", &format!("base={base} max={max} data={data_len} depth={depth}"), bound, 3_000_000, &|env, log| {
        {
            let mut e = env.borrow_mut();
            e.allow_zero = false;
        }
        let mut inner = Both {
            r: ScriptReader::new(env, &data),
            w: ScriptWriter::new(env),
        };
        // how many sink bytes the inner stream had received when ITS flush last succeeded (an inner
        // stream may stage what it is given until it is flushed)
        let inner_flushed = Rc::new(Cell::new(0usize));
        inner.w.flushed_upto = Some(inner_flushed.clone());
        let mut s = SyncStream::with_limits(base, max, inner);
        let mut delivered: Vec<u8> = Vec::new(); // bytes handed to the caller
        let mut accepted: Vec<u8> = Vec::new(); // bytes the caller was told were written
        let mut next = 0u8;
        let mut eof_seen = false;
        let mut flush_failed = false;
        for _ in 0..depth {
            let produced = s.get_ref().r.pos;
            let buffered = produced - delivered.len();
            if buffered > max {
                let cause = if buffered < max + base { "overshoot-less-than-base-capacity" } else { "overshoot-at-least-base-capacity" };
                return fail(format!("read-limit-exceeded:{cause}"), format!("{buffered} bytes buffered on the read side, limit {max}, base capacity {base}"));
            }
            let op = env.borrow_mut().ch.pick(8);
            match op {
                0 => break,
                1 | 2 => {
                    let n = op; // read(1) / read(2)
                    let mut b = vec![0u8; n];
                    let r = s.read(&mut b);
                    log.push(format!("read({n})->{:?}", r.as_ref().map_err(|e| e.kind())));
                    match r {
                        Ok(k) => {
                            if buffered == 0 && !eof_seen {
                                return fail("read-without-data", format!("read returned Ok({k}) with nothing buffered and no EOF"));
                            }
                            if k == 0 && buffered > 0 {
                                return fail("read-zero-with-data", "read returned Ok(0) although data is buffered");
                            }
                            if k > n.min(buffered) {
                                return fail("read-too-much", format!("read({n}) returned {k} with {buffered} buffered"));
                            }
                            delivered.extend_from_slice(&b[..k]);
                        }
                        Err(e) if e.kind() == std::io::ErrorKind::WouldBlock => {
                            if buffered > 0 || eof_seen {
                                return fail("spurious-would-block", format!("read would block with {buffered} bytes buffered (eof={eof_seen})"));
                            }
                        }
                        Err(e) => return fail("read-error", format!("{e:?}")),
                    }
                }
                3 => {
                    // fill_buf + consume all but one (or the single byte)
                    let r = s.fill_buf().map(|b| b.to_vec());
                    log.push(format!("fill_buf->{:?}", r.as_ref().map(|b| b.len()).map_err(|e| e.kind())));
                    match r {
                        Ok(b) => {
                            if b.len() != buffered {
                                return fail("fill_buf-length", format!("fill_buf shows {} bytes, {buffered} are buffered", b.len()));
                            }
                            let k = if b.len() > 1 { b.len() - 1 } else { b.len() };
                            delivered.extend_from_slice(&b[..k]);
                            s.consume(k);
                        }
                        Err(e) if e.kind() == std::io::ErrorKind::WouldBlock => {
                            if buffered > 0 || eof_seen {
                                return fail("spurious-would-block", format!("fill_buf would block with {buffered} bytes buffered"));
                            }
                        }
                        Err(e) => return fail("read-error", format!("{e:?}")),
                    }
                }
                4 => {
                    let r = run_polls(s.fill_read_buf(), 8).unwrap();
                    log.push(format!("fill_read_buf->{:?}", r.as_ref().map_err(|e| e.kind())));
                    match r {
                        Ok(0) => {
                            // genuine EOF only: the scripted reader answers 0 only when exhausted
                            if s.get_ref().r.pos != data_len {
                                let offered_nothing = matches!(env.borrow().reads.last(), Some((0, _)));
                                let cause = if offered_nothing { "inner-read-offered-a-zero-capacity-buffer" } else { "other" };
                                return fail(format!("false-eof:{cause}"), format!("fill_read_buf returned 0 ({buffered} bytes buffered, limit {max}, base {base}) before the inner stream ended: end of file is latched and the rest of the stream is never delivered"));
                            }
                            if s.get_ref().r.pos == data_len {
                                eof_seen = true;
                            }
                        }
                        Ok(_) => {}
                        Err(e) if e.kind() == std::io::ErrorKind::OutOfMemory => {
                            if buffered < max {
                                return fail("limit-reported-early", format!("OutOfMemory with {buffered} buffered, limit {max}"));
                            }
                        }
                        Err(_) => {}
                    }
                }
                5 | 6 => {
                    let k = if op == 5 { 1 } else { 3 };
                    let chunk: Vec<u8> = (0..k).map(|i| 0x61 + next + i as u8).collect();
                    let r = s.write(&chunk);
                    log.push(format!("write({k})->{:?}", r.as_ref().map_err(|e| e.kind())));
                    let pending = accepted.len() - s.get_ref().w.sink.len();
                    match r {
                        Ok(n) => {
                            if n == 0 || n > k {
                                return fail("write-count", format!("write({k}) returned {n}"));
                            }
                            if pending + n > max {
                                return fail("write-limit-exceeded", format!("{} bytes buffered on the write side, limit {max}", pending + n));
                            }
                            accepted.extend_from_slice(&chunk[..n]);
                            next += n as u8;
                        }
                        Err(e) if e.kind() == std::io::ErrorKind::WouldBlock => {
                            if pending == 0 {
                                return fail("spurious-would-block", "write would block although nothing is buffered");
                            }
                        }
                        Err(e) => return fail("write-error", format!("{e:?}")),
                    }
                }
                _ => {
                    let r = run_polls(s.flush_write_buf(), 8).unwrap();
                    log.push(format!("flush_write_buf->{:?}", r.as_ref().map_err(|e| e.kind())));
                    match r {
                        Ok(_) => {
                            if s.get_ref().w.sink != accepted {
                                let cause = if flush_failed { "after-failed-flush" } else { "no-failure" };
                                return fail(format!("sink-differs-after-flush:{cause}"), format!("sink {:02x?}, accepted {accepted:02x?}", s.get_ref().w.sink));
                            }
                            if inner_flushed.get() != accepted.len() {
                                let cause = if flush_failed { "after-failed-flush" } else { "no-failure" };
                                return fail(
                                    format!("flush-ok-without-inner-flush:{cause}"),
                                    format!("flush_write_buf returned Ok, but the inner stream's last successful flush covered {} of the {} bytes handed to it: an inner stream that stages data until flushed never delivers the rest", inner_flushed.get(), accepted.len()),
                                );
                            }
                        }
                        Err(_) => flush_failed = true,
                    }
                }
            }
            let sink = &s.get_ref().w.sink;
            if sink[..] != accepted[..sink.len().min(accepted.len())] || sink.len() > accepted.len() {
                let cause = if flush_failed { "after-failed-flush" } else { "no-failure" };
                return fail(format!("sink-not-prefix:{cause}"), format!("sink {sink:02x?}, accepted {accepted:02x?}"));
            }
            if delivered[..] != data[..delivered.len()] {
                return fail("read-stream-corrupted", format!("delivered {delivered:02x?}"));
            }
        }
        // final: retry the flush until it succeeds, then everything accepted must have arrived
        let mut ok = false;
        for _ in 0..6 {
            match run_polls(s.flush_write_buf(), 8).unwrap() {
                Ok(_) => {
                    ok = true;
                    break;
                }
                Err(_) => flush_failed = true,
            }
        }
        if ok && s.get_ref().w.sink != accepted {
            let cause = if flush_failed { "after-failed-flush" } else { "no-failure" };
            return fail(format!("sink-differs-after-flush:{cause}"), format!("sink {:02x?}, accepted {accepted:02x?}", s.get_ref().w.sink));
        }
        // read side conservation: delivered + into_parts() == produced
        let (inner, rest) = s.into_parts();
        let mut all = delivered.clone();
        all.extend_from_slice(&rest);
        if all[..] != data[..inner.r.pos] {
            return fail("read-bytes-lost", format!("delivered {delivered:02x?} + remaining {rest:02x?} != produced {:02x?}", &data[..inner.r.pos]));
        }
        Ok(format!("{}|{}|{}", delivered.len(), accepted.len(), log.len()))
    });
}

// --------------------------------------------------------------------------------------------
// AsyncReadStream / AsyncWriteStream (poll-style)
// --------------------------------------------------------------------------------------------

struct Entry {
    name: &'static str,
    latest: Option<Arc<CountWaker>>,
    pending: bool,
}

impl Entry {
    fn new(name: &'static str) -> Self {
        Self {
            name,
            latest: None,
            pending: false,
        }
    }

    /// a fresh waker for every poll (a future may migrate between tasks)
    fn fresh(&mut self) -> Waker {
        let w = Arc::new(CountWaker(AtomicUsize::new(0)));
        self.latest = Some(w.clone());
        Waker::from(w)
    }

    fn woken(&self) -> usize {
        self.latest.as_ref().map(|w| w.0.load(Ordering::SeqCst)).unwrap_or(0)
    }
}

fn check_wake_obligations(entries: &[&Entry], what: &str) -> Result<(), (String, String)> {
    for e in entries {
        if e.pending && e.woken() == 0 {
            return fail(format!("lost-wakeup:{}", e.name), format!("{what}: {} returned Pending with its latest waker, which was not woken when the inner stream became ready", e.name));
        }
    }
    Ok(())
}

fn async_read(rep: &Report, bound: u32, base: usize, data_len: usize, depth: usize) {
    let data = payload(data_len);
    explore_case(rep, "AsyncReadStream", &format!("base={base} data={data_len} depth={depth}"), bound, 3_000_000, &|env, log| {
        {
            let mut e = env.borrow_mut();
            e.allow_zero = false;
        }
        let gate = Rc::new(Gate::default());
        gate.open.set(true);
        let r = ScriptReader::new(env, &data);
        let inner = GReader { r, gate: gate.clone() };
        let s = AsyncReadStream::with_capacity(base, inner);
        let mut s = Box::pin(s);
        let mut e_read = Entry::new("poll_read");
        let mut e_uninit = Entry::new("poll_read_uninit");
        let mut e_fill = Entry::new("poll_fill_buf");
        let mut delivered: Vec<u8> = Vec::new();
        let mut eof = false;
        let mut steps = 0usize;
        let mut errors = 0usize;
        loop {
            steps += 1;
            if steps > depth + 40 {
                return fail("no-progress", format!("after {} caller steps {} of {data_len} bytes delivered (eof={eof})", steps, delivered.len()));
            }
            // within the program: free choice; afterwards: drain with poll_read(2), opening the gate when parked
            let op = if steps <= depth {
                env.borrow_mut().ch.pick(5)
            } else if gate.waiting.borrow().is_some() {
                4
            } else {
                0
            };
            use futures_util::{AsyncBufRead, AsyncRead as FAsyncRead};
            match op {
                0 | 1 => {
                    let n = if op == 0 { 2 } else { 1 };
                    let w = e_read.fresh();
                    let mut b = vec![0u8; n];
                    let p = s.as_mut().poll_read(&mut Context::from_waker(&w), &mut b);
                    log.push(format!("poll_read({n})->{}", show(&p, |v| v.to_string())));
                    match p {
                        Poll::Ready(Ok(k)) => {
                            e_read.pending = false;
                            if k == 0 {
                                eof = true;
                            }
                            delivered.extend_from_slice(&b[..k]);
                        }
                        Poll::Ready(Err(_)) => {
                            e_read.pending = false;
                            errors += 1;
                        }
                        Poll::Pending => {
                            if gate.waiting.borrow().is_none() {
                                return fail("pending-without-cause", "poll_read returned Pending although the inner stream is not parked");
                            }
                            e_read.pending = true;
                        }
                    }
                }
                2 => {
                    let w = e_uninit.fresh();
                    let mut b = [std::mem::MaybeUninit::<u8>::uninit(); 2];
                    let p = s.as_mut().poll_read_uninit(&mut Context::from_waker(&w), &mut b);
                    log.push(format!("poll_read_uninit(2)->{}", show(&p, |v| v.to_string())));
                    match p {
                        Poll::Ready(Ok(k)) => {
                            e_uninit.pending = false;
                            if k == 0 {
                                eof = true;
                            }
                            for x in &b[..k] {
                                delivered.push(unsafe { x.assume_init() });
                            }
                        }
                        Poll::Ready(Err(_)) => {
                            e_uninit.pending = false;
                            errors += 1;
                        }
                        Poll::Pending => {
                            if gate.waiting.borrow().is_none() {
                                return fail("pending-without-cause", "poll_read_uninit returned Pending although the inner stream is not parked");
                            }
                            e_uninit.pending = true;
                        }
                    }
                }
                3 => {
                    let w = e_fill.fresh();
                    let p = s.as_mut().poll_fill_buf(&mut Context::from_waker(&w)).map(|r| r.map(|b| b.to_vec()));
                    log.push(format!("poll_fill_buf->{}", show(&p, |v| v.len().to_string())));
                    match p {
                        Poll::Ready(Ok(b)) => {
                            e_fill.pending = false;
                            if b.is_empty() {
                                eof = true;
                            }
                            let k = if b.len() > 1 { b.len() - 1 } else { b.len() };
                            delivered.extend_from_slice(&b[..k]);
                            s.as_mut().consume(k);
                        }
                        Poll::Ready(Err(_)) => {
                            e_fill.pending = false;
                            errors += 1;
                        }
                        Poll::Pending => {
                            if gate.waiting.borrow().is_none() {
                                return fail("pending-without-cause", "poll_fill_buf returned Pending although the inner stream is not parked");
                            }
                            e_fill.pending = true;
                        }
                    }
                }
                _ => {
                    let woke = gate.open();
                    log.push(format!("open_gate(woke={woke})"));
                    if woke {
                        check_wake_obligations(&[&e_read, &e_uninit, &e_fill], "inner read became ready")?;
                    }
                    e_read.pending = false;
                    e_uninit.pending = false;
                    e_fill.pending = false;
                }
            }
            if delivered.len() > data_len || delivered[..] != data[..delivered.len()] {
                return fail("read-stream-corrupted", format!("delivered {delivered:02x?}, source {data:02x?}"));
            }
            if eof && steps > depth {
                break;
            }
            if eof && delivered.len() < data_len && errors == 0 && s.get_ref().r.pos == data_len {
                // EOF reported although produced bytes were not delivered
                return fail("read-bytes-lost", format!("EOF after {} of {data_len} bytes", delivered.len()));
            }
        }
        if delivered.len() != s.get_ref().r.pos {
            return fail("read-bytes-lost", format!("EOF reached: delivered {} bytes, inner stream produced {}", delivered.len(), s.get_ref().r.pos));
        }
        Ok(format!("{}|{}|{}", delivered.len(), gate.parked.get(), errors))
    });
}

fn async_write(rep: &Report, bound: u32, base: usize, depth: usize) {
    explore_case(rep, "AsyncWriteStream", &format!("base={base} depth={depth}"), bound, 3_000_000, &|env, log| {
        {
            let mut e = env.borrow_mut();
            e.allow_zero = false;
        }
        let gate = Rc::new(Gate::default());
        gate.open.set(true);
        let mut inner = GWriter {
            w: ScriptWriter::new(env),
            gate: gate.clone(),
        };
        let inner_flushed = Rc::new(Cell::new(0usize));
        inner.w.flushed_upto = Some(inner_flushed.clone());
        let mut s = Box::pin(AsyncWriteStream::with_capacity(base, inner));
        let mut e_write = Entry::new("poll_write");
        let mut e_flush = Entry::new("poll_flush");
        let mut e_close = Entry::new("poll_close");
        let mut accepted: Vec<u8> = Vec::new();
        let mut next = 0u8;
        let mut steps = 0usize;
        let mut closed = false;
        let mut failed = false;
        let mut closing = false;
        loop {
            steps += 1;
            if steps > depth + 40 {
                return fail("no-progress", format!("close did not complete within {} caller steps", steps));
            }
            let op = if steps <= depth && !closing {
                env.borrow_mut().ch.pick(5)
            } else if gate.waiting.borrow().is_some() {
                4
            } else {
                3
            };
            use futures_util::AsyncWrite as FAsyncWrite;
            match op {
                0 | 1 => {
                    let k = if op == 0 { 1 } else { 3 };
                    let chunk: Vec<u8> = (0..k).map(|i| 0x61 + next + i as u8).collect();
                    let w = e_write.fresh();
                    let p = s.as_mut().poll_write(&mut Context::from_waker(&w), &chunk);
                    log.push(format!("poll_write({k})->{}", show(&p, |v| v.to_string())));
                    match p {
                        Poll::Ready(Ok(n)) => {
                            e_write.pending = false;
                            if n == 0 || n > k {
                                return fail("write-count", format!("poll_write({k}) returned {n}"));
                            }
                            accepted.extend_from_slice(&chunk[..n]);
                            next += n as u8;
                        }
                        Poll::Ready(Err(_)) => {
                            e_write.pending = false;
                            failed = true;
                        }
                        Poll::Pending => {
                            if gate.waiting.borrow().is_none() {
                                return fail("pending-without-cause", "poll_write returned Pending although the inner stream is not parked");
                            }
                            e_write.pending = true;
                        }
                    }
                }
                2 => {
                    let w = e_flush.fresh();
                    let p = s.as_mut().poll_flush(&mut Context::from_waker(&w));
                    log.push(format!("poll_flush->{}", show(&p, |_| String::new())));
                    match p {
                        Poll::Ready(Ok(())) => {
                            e_flush.pending = false;
                            if s.get_ref().w.sink != accepted {
                                let cause = if failed { "after-failed-call" } else { "no-failure" };
                                return fail(format!("sink-differs-after-flush:{cause}"), format!("sink {:02x?}, accepted {accepted:02x?}", s.get_ref().w.sink));
                            }
                            if inner_flushed.get() != accepted.len() {
                                let cause = if failed { "after-failed-call" } else { "no-failure" };
                                return fail(
                                    format!("flush-ok-without-inner-flush:{cause}"),
                                    format!("poll_flush returned Ready(Ok), but the inner stream's last successful flush covered {} of the {} bytes handed to it", inner_flushed.get(), accepted.len()),
                                );
                            }
                        }
                        Poll::Ready(Err(_)) => {
                            e_flush.pending = false;
                            failed = true;
                        }
                        Poll::Pending => {
                            if gate.waiting.borrow().is_none() {
                                return fail("pending-without-cause", "poll_flush returned Pending although the inner stream is not parked");
                            }
                            e_flush.pending = true;
                        }
                    }
                }
                3 => {
                    closing = true;
                    let w = e_close.fresh();
                    let p = s.as_mut().poll_close(&mut Context::from_waker(&w));
                    log.push(format!("poll_close->{}", show(&p, |_| String::new())));
                    match p {
                        Poll::Ready(Ok(())) => {
                            closed = true;
                        }
                        Poll::Ready(Err(_)) => {
                            e_close.pending = false;
                            failed = true;
                        }
                        Poll::Pending => {
                            if gate.waiting.borrow().is_none() {
                                return fail("pending-without-cause", "poll_close returned Pending although the inner stream is not parked");
                            }
                            e_close.pending = true;
                        }
                    }
                }
                _ => {
                    let woke = gate.open();
                    log.push(format!("open_gate(woke={woke})"));
                    if woke {
                        check_wake_obligations(&[&e_write, &e_flush, &e_close], "inner write became ready")?;
                    }
                    e_write.pending = false;
                    e_flush.pending = false;
                    e_close.pending = false;
                }
            }
            let sink = &s.get_ref().w.sink;
            if sink.len() > accepted.len() || sink[..] != accepted[..sink.len()] {
                let cause = if failed { "after-failed-call" } else { "no-failure" };
                return fail(format!("sink-not-prefix:{cause}"), format!("sink {sink:02x?}, accepted {accepted:02x?}"));
            }
            if closed {
                break;
            }
        }
        if s.get_ref().w.sink != accepted {
            let cause = if failed { "after-failed-call" } else { "no-failure" };
            return fail(format!("sink-differs-after-close:{cause}"), format!("sink {:02x?}, accepted {accepted:02x?}", s.get_ref().w.sink));
        }
        if env.borrow().shutdowns != 1 {
            return fail("shutdown-count", format!("inner shutdown called {} times", env.borrow().shutdowns));
        }
        Ok(format!("{}|{}|{}", accepted.len(), gate.parked.get(), failed))
    });
}

pub fn run(args: Args) {
    let rep = Report::new("C12", args.tier);
    let t = args.tier;
    let bound: u32 = t.pick(1, 2);
    let depth = t.pick(4, 5);
    let mut items: Vec<Box<dyn Fn(&Report) + Send + Sync>> = Vec::new();
    for base in [1usize, 2, 4] {
        // limits that are and that are not a multiple of the base capacity (the last growth step then
        // would pass the limit)
        for max in [2usize, 3, 4, 6, 8] {
            if max < base {
                continue;
            }
            for dl in [0usize, 3, 6] {
                items.push(Box::new(move |rep| sync_stream(rep, bound, base, max, dl, depth)));
            }
        }
        for dl in [0usize, 1, 3, 5] {
            items.push(Box::new(move |rep| async_read(rep, bound + 1, base, dl, depth)));
        }
        items.push(Box::new(move |rep| async_write(rep, bound + 1, base, depth)));
    }
    vcore::par_for_each(&items, |_, f| f(&rep));
    rep.extra("bounds", json!({"program_depth": depth, "max_deviations_sync": bound, "max_deviations_async": bound + 1, "base_capacities": [1,2,4], "limits": [2,3,4,6,8]}));
    rep.rule("every caller program up to program_depth over the entry points (read/fill_buf+consume/read_buf_uninit/write/fill_read_buf/flush_write_buf; poll_read/poll_read_uninit/poll_fill_buf/poll_write/poll_flush/poll_close/open-gate, fresh waker per poll) x every placement of <= max_deviations inner-stream deviations (short, Interrupted, error, park-until-gate) x capacities and limits");
    rep.assume("inner streams answer only when called (no background progress); a parked inner call is released only by the explicit open-gate step");
    rep.finish();
}
