//! C11 — I/O helpers are invariant under chunking and transient errors.
//!
//! Every helper is run on the real compio-io code against a scripted source/sink whose every
//! answer is an explorer choice (default "as much as fits"; deviations: 1 byte, m-1 bytes,
//! Interrupted, Other error, Ok(0)-now), for all placements of at most `bound` deviations, crossed
//! with small exhaustive payloads / capacities / positions / buffer shapes. In-memory readers and
//! writers are enumerated directly over all positions and shapes. Oracle: a straight-line
//! reference computed from the list of environment answers.
use std::io::Cursor;

use compio_buf::*;
use compio_io::*;
use vcore::{Args, Chooser, Report, Violation, json};

use crate::{c10::View, env::*};

type Res = Result<String, (String, String)>; // Ok(outcome signature) | Err((oracle:cause, detail))

fn fail<T>(key: impl Into<String>, detail: impl Into<String>) -> Result<T, (String, String)> {
    Err((key.into(), detail.into()))
}

/// Explore one scenario: all placements of <= bound deviations of the scripted environment.
fn scenario(rep: &Report, name: &str, params: &str, bound: u32, f: &dyn Fn(&Env, &mut Vec<String>) -> Res) {
    let st = vcore::explore(bound, 2_000_000, |ch| {
        let c = std::mem::replace(ch, Chooser::new(vec![], 0));
        let env = new_env(c, 64);
        let mut log = Vec::new();
        let r = vcore::catch(|| f(&env, &mut log));
        *ch = take_chooser(&env);
        let e = env.borrow();
        rep.add_execution((e.reads.len() + e.writes.len() + e.flushes.len() + 1) as u64);
        let script = || json!({"scenario": name, "params": params, "reads": format!("{:?}", e.reads), "writes": format!("{:?}", e.writes), "flushes": format!("{:?}", e.flushes), "ops": log});
        let r = match r {
            Ok(Ok(_)) if e.livelock => Err(("livelock".to_string(), format!("more than {} environment calls", e.horizon))),
            Ok(r) => r,
            Err(p) => Err(("panic".to_string(), p)),
        };
        match r {
            Ok(sig) => {
                rep.outcome(format!("{name}|{sig}"));
                if ch.deviations >= 2 {
                    rep.sample(12, script);
                }
            }
            Err((key, detail)) => rep.violation(Violation {
                key: format!("{name}:{key}"),
                what: format!("{name}({params}) reads={:?} writes={:?} flushes={:?} ops={:?}: {detail}", e.reads, e.writes, e.flushes, log),
                replay: json!({"engine":"e2pure/C11","scenario":name,"params":params,"choices":ch.choices(),"script":script()}),
            }),
        }
        true
    });
    rep.add_states(st.executions);
    if st.capped {
        rep.cap_hit(&format!("scenario {name}({params}) capped at 2e6 executions"));
    }
}

// --------------------------------------------------------------------------------------------
// reference for "transfer exactly `need` bytes" loops
// --------------------------------------------------------------------------------------------

#[derive(Debug, PartialEq)]
enum Expect {
    Ok,
    Eof,   // UnexpectedEof (reads) / WriteZero (writes)
    Other, // the scripted hard error
}

/// Walk the environment answers of an exact-transfer loop. Returns (expected result, bytes moved).
fn ref_exact(answers: &[(usize, Ans)], need: usize) -> Result<(Expect, usize), (String, String)> {
    let mut moved = 0usize;
    for (i, (_, a)) in answers.iter().enumerate() {
        if moved >= need {
            return fail("io-after-completion", format!("environment call #{i} after all {need} bytes were transferred"));
        }
        let last = i + 1 == answers.len();
        match a {
            Ans::N(0) | Ans::Zero => {
                if !last {
                    return fail("continues-after-eof", format!("call #{i} returned 0 but the helper kept going"));
                }
                return Ok((Expect::Eof, moved));
            }
            Ans::N(n) => moved += n,
            Ans::Interrupted | Ans::Pending => {}
            Ans::Error => {
                if !last {
                    return fail("continues-after-error", format!("call #{i} failed but the helper kept going"));
                }
                return Ok((Expect::Other, moved));
            }
        }
    }
    if moved == need {
        Ok((Expect::Ok, moved))
    } else {
        fail("stopped-early", format!("helper returned after {moved} of {need} bytes without EOF or error"))
    }
}

fn check_result<T>(res: &std::io::Result<T>, exp: &Expect, eof_kind: std::io::ErrorKind) -> Result<(), (String, String)> {
    let got = match res {
        Ok(_) => "Ok".to_string(),
        Err(e) => kind_of(e),
    };
    let want = match exp {
        Expect::Ok => "Ok".to_string(),
        Expect::Eof => format!("{eof_kind:?}"),
        Expect::Other => "Other".to_string(),
    };
    if got != want {
        return fail(format!("wrong-result:want-{want}"), format!("helper returned {got}, reference says {want}"));
    }
    Ok(())
}

// --------------------------------------------------------------------------------------------
// read side
// --------------------------------------------------------------------------------------------

/// read_exact into any view over a Vec root
fn sc_read_exact<V: View<Root = Vec<u8>>>(rep: &Report, bound: u32, shape: &str, mk: &dyn Fn() -> V, data_len: usize) {
    let data = payload(data_len);
    scenario(rep, &format!("read_exact[{shape}]"), &format!("data={data_len}"), bound, &|env, _| {
        let mut v = mk();
        let before = all_bytes(v.root_mut());
        let old_len = v.root_mut().len();
        let rp = v.root_mut().as_ptr() as usize;
        let (need, start) = {
            let u = v.as_uninit();
            (u.len(), (u.as_ptr() as usize).wrapping_sub(rp))
        };
        let mut r = ScriptReader::new(env, &data);
        let BufResult(res, v) = run_now(r.read_exact(v));
        let root = v.unwrap_root();
        let (exp, moved) = ref_exact(&env.borrow().reads, need)?;
        check_result(&res, &exp, std::io::ErrorKind::UnexpectedEof)?;
        if r.pos != moved {
            return fail("source-position", format!("source consumed {} bytes, delivered {moved}", r.pos));
        }
        let after = all_bytes(&root);
        if after.len() != before.len() {
            return fail("dest-reallocated", "capacity changed");
        }
        // bytes outside the view's writable region are never touched, whatever the result
        for i in 0..before.len() {
            if (i < start || i >= start + need) && after[i] != before[i] {
                return fail("outside-touched", format!("root byte {i} changed from {:02x} to {:02x}", before[i], after[i]));
            }
        }
        if exp == Expect::Ok {
            if after[start..start + need] != data[..need] {
                return fail("misplaced-data", format!("view region holds {:02x?}, source delivered {:02x?}", &after[start..start + need], &data[..need]));
            }
            let want_len = if need > 0 { old_len.max(start + need) } else { old_len };
            if root.len() != want_len {
                return fail("dest-length", format!("root length {} expected {want_len}", root.len()));
            }
        }
        Ok(format!("{exp:?}|{need}|{}", env.borrow().reads.len()))
    });
}

fn sc_read_to_end(rep: &Report, bound: u32, len: usize, cap: usize, data_len: usize, as_string: bool) {
    let data = payload(data_len);
    let name = if as_string { "read_to_string" } else { "read_to_end" };
    scenario(rep, name, &format!("dest={len}/{cap} data={data_len}"), bound, &|env, _| {
        let mut v = mk_vec(len, cap);
        if as_string {
            for b in v.iter_mut() {
                *b = b'a' + (*b & 0x0f);
            }
        }
        let old = v.clone();
        let mut r = ScriptReader::new(env, &data);
        let (res, out) = if as_string {
            let BufResult(res, s) = run_now(r.read_to_string(String::from_utf8(v).unwrap()));
            (res, s.into_bytes())
        } else {
            let BufResult(res, v) = run_now(r.read_to_end(v));
            (res, v)
        };
        // reference: append everything delivered until the first 0 / hard error
        let mut delivered = 0usize;
        let mut exp = Expect::Ok;
        let reads = env.borrow().reads.clone();
        for (i, (_, a)) in reads.iter().enumerate() {
            let last = i + 1 == reads.len();
            match a {
                Ans::N(0) | Ans::Zero => {
                    if !last {
                        return fail("continues-after-eof", format!("read #{i}"));
                    }
                }
                Ans::N(n) => delivered += n,
                Ans::Interrupted | Ans::Pending => {}
                Ans::Error => {
                    exp = Expect::Other;
                    if !last {
                        return fail("continues-after-error", format!("read #{i}"));
                    }
                }
            }
        }
        if exp == Expect::Ok && !matches!(reads.last(), Some((_, Ans::N(0) | Ans::Zero))) {
            return fail("stopped-early", "returned Ok without having seen end-of-file");
        }
        check_result(&res, &exp, std::io::ErrorKind::UnexpectedEof)?;
        if r.pos != delivered {
            return fail("source-position", format!("source consumed {} delivered {delivered}", r.pos));
        }
        if exp == Expect::Ok {
            if *res.as_ref().unwrap() != delivered {
                return fail("wrong-count", format!("returned {} but {delivered} bytes were read", res.as_ref().unwrap()));
            }
            let mut want = old.clone();
            want.extend_from_slice(&data[..delivered]);
            if out != want {
                let cause = if len > 0 { "prefilled-destination" } else { "empty-destination" };
                return fail(format!("content:{cause}"), format!("buffer holds {out:02x?}, expected previous content + data = {want:02x?}"));
            }
        } else if !as_string && out.len() >= old.len() && out[..old.len()] != old[..] && len > 0 {
            // even on error, what was there before must not be overwritten ("appended")
            return fail("content:prefilled-destination", format!("previous content overwritten on error: {out:02x?}"));
        }
        Ok(format!("{exp:?}|{delivered}|{}", reads.len()))
    });
}

fn sc_append(rep: &Report, bound: u32, len: usize, cap: usize, data_len: usize) {
    let data = payload(data_len);
    scenario(rep, "append", &format!("dest={len}/{cap} data={data_len}"), bound, &|env, _| {
        let v = mk_vec(len, cap);
        let before = all_bytes(&v);
        let mut r = ScriptReader::new(env, &data);
        let BufResult(res, v) = run_now(r.append(v));
        let reads = env.borrow().reads.clone();
        if reads.len() != 1 {
            return fail("call-count", format!("{} reads for one append", reads.len()));
        }
        let after = all_bytes(&v);
        let mut want = before.clone();
        let mut want_len = len;
        match (&reads[0].1, &res) {
            (Ans::N(n), Ok(m)) if n == m => {
                want[len..len + n].copy_from_slice(&data[..*n]);
                want_len += n;
            }
            (Ans::Zero, Ok(0)) => {}
            (Ans::Interrupted, Err(e)) if e.kind() == std::io::ErrorKind::Interrupted => {}
            (Ans::Error, Err(_)) => {}
            (a, r) => return fail("wrong-result", format!("environment {a:?}, helper {r:?}")),
        }
        if after != want || v.len() != want_len {
            return fail("content", format!("buffer {after:02x?} len {}, expected {want:02x?} len {want_len}", v.len()));
        }
        Ok(format!("{:?}", reads[0].1))
    });
}

fn sc_read_vectored_exact(rep: &Report, bound: u32, spec: &[(usize, usize)], data_len: usize, native: bool) {
    let data = payload(data_len);
    let need: usize = spec.iter().map(|s| s.1).sum();
    let class = if spec.iter().any(|s| s.0 > 0) { "preinitialized-members" } else { "empty-members" };
    scenario(rep, &format!("read_vectored_exact[{},{class}]", if native { "native" } else { "default" }), &format!("members={spec:?} data={data_len}"), bound, &|env, _| {
        let bufs: Vec<Vec<u8>> = spec.iter().map(|&(l, c)| mk_vec(l, c)).collect();
        let mut r = ScriptReader::new(env, &data);
        r.native_vectored = native;
        let BufResult(res, bufs) = run_now(r.read_vectored_exact(bufs));
        let (exp, moved) = ref_exact(&env.borrow().reads, need)?;
        check_result(&res, &exp, std::io::ErrorKind::UnexpectedEof)?;
        if r.pos != moved {
            return fail("source-position", format!("source consumed {} delivered {moved}", r.pos));
        }
        if exp == Expect::Ok {
            let mut off = 0;
            for (i, b) in bufs.iter().enumerate() {
                let c = spec[i].1;
                if b.len() != c || b[..] != data[off..off + c] {
                    let cause = if spec.iter().any(|s| s.0 > 0) { "preinitialized-members" } else { "empty-members" };
                    return fail(format!("misplaced-data:{cause}"), format!("member {i} = {:02x?} (len {}), expected {:02x?}", all_bytes(b), b.len(), &data[off..off + c]));
                }
                off += c;
            }
        }
        Ok(format!("{exp:?}|{need}|{}", env.borrow().reads.len()))
    });
}

fn sc_read_at(rep: &Report, bound: u32, len: usize, cap: usize, data_len: usize, pos: u64) {
    let data = payload(data_len);
    let tail: Vec<u8> = data[(pos as usize).min(data_len)..].to_vec();
    scenario(rep, "read_exact_at", &format!("dest={len}/{cap} data={data_len} pos={pos}"), bound, &|env, _| {
        let v = mk_vec(len, cap);
        let r = ScriptReaderAt { env: env.clone(), data: data.clone() };
        let BufResult(res, v) = run_now(r.read_exact_at(v, pos));
        let (exp, _) = ref_exact(&env.borrow().reads, cap)?;
        check_result(&res, &exp, std::io::ErrorKind::UnexpectedEof)?;
        if exp == Expect::Ok && (v.len() != cap || v[..] != tail[..cap]) {
            return fail("misplaced-data", format!("buffer {v:02x?} expected {:02x?}", &tail[..cap]));
        }
        Ok(format!("{exp:?}|{}", env.borrow().reads.len()))
    });
    scenario(rep, "read_to_end_at", &format!("dest={len}/{cap} data={data_len} pos={pos}"), bound, &|env, _| {
        let v = mk_vec(len, cap);
        let old = v.clone();
        let r = ScriptReaderAt { env: env.clone(), data: data.clone() };
        let BufResult(res, v) = run_now(r.read_to_end_at(v, pos));
        let reads = env.borrow().reads.clone();
        let mut delivered = 0;
        let mut exp = Expect::Ok;
        for (_, a) in &reads {
            match a {
                Ans::N(n) => delivered += n,
                Ans::Error => exp = Expect::Other,
                _ => {}
            }
        }
        check_result(&res, &exp, std::io::ErrorKind::UnexpectedEof)?;
        if exp == Expect::Ok {
            let mut want = old.clone();
            want.extend_from_slice(&tail[..delivered]);
            if v != want {
                let cause = if len > 0 { "prefilled-destination" } else { "empty-destination" };
                return fail(format!("content:{cause}"), format!("buffer {v:02x?}, expected previous content + data = {want:02x?}"));
            }
        }
        Ok(format!("{exp:?}|{delivered}|{}", reads.len()))
    });
}

// --------------------------------------------------------------------------------------------
// write side
// --------------------------------------------------------------------------------------------

fn ref_sink_prefix(sink: &[u8], src: &[u8], moved: usize) -> Result<(), (String, String)> {
    if sink != &src[..moved.min(src.len())] {
        return fail("sink-content", format!("sink received {sink:02x?}, expected the first {moved} bytes of {src:02x?}"));
    }
    Ok(())
}

fn sc_write_all(rep: &Report, bound: u32, n: usize, room: Option<usize>) {
    let data = payload(n);
    scenario(rep, "write_all", &format!("len={n} room={room:?}"), bound, &|env, _| {
        let mut w = ScriptWriter::new(env);
        w.room = room;
        let BufResult(res, back) = run_now(w.write_all(data.clone()));
        if back != data {
            return fail("buffer-returned", "the buffer handed back differs from the one submitted");
        }
        let (exp, moved) = ref_exact(&env.borrow().writes, n)?;
        check_result(&res, &exp, std::io::ErrorKind::WriteZero)?;
        ref_sink_prefix(&w.sink, &data, moved)?;
        Ok(format!("{exp:?}|{moved}|{}", env.borrow().writes.len()))
    });
    // through a slice view
    if n >= 2 {
        scenario(rep, "write_all[slice]", &format!("len={n} view=1.."), bound, &|env, _| {
            let mut w = ScriptWriter::new(env);
            let BufResult(res, _) = run_now(w.write_all(data.clone().slice(1..)));
            let (exp, moved) = ref_exact(&env.borrow().writes, n - 1)?;
            check_result(&res, &exp, std::io::ErrorKind::WriteZero)?;
            ref_sink_prefix(&w.sink, &data[1..], moved)?;
            Ok(format!("{exp:?}|{moved}"))
        });
    }
}

fn sc_write_vectored_all(rep: &Report, bound: u32, lens: &[usize], native: bool) {
    let total: usize = lens.iter().sum();
    let data = payload(total);
    scenario(rep, &format!("write_vectored_all[{}]", if native { "native" } else { "default" }), &format!("members={lens:?}"), bound, &|env, _| {
        let mut off = 0;
        let bufs: Vec<Vec<u8>> = lens
            .iter()
            .map(|&l| {
                let v = data[off..off + l].to_vec();
                off += l;
                v
            })
            .collect();
        let mut w = ScriptWriter::new(env);
        w.native_vectored = native;
        let BufResult(res, _) = run_now(w.write_vectored_all(bufs));
        let (exp, moved) = ref_exact(&env.borrow().writes, total)?;
        check_result(&res, &exp, std::io::ErrorKind::WriteZero)?;
        ref_sink_prefix(&w.sink, &data, moved)?;
        Ok(format!("{exp:?}|{moved}|{}", env.borrow().writes.len()))
    });
}

fn sc_write_all_at(rep: &Report, bound: u32, n: usize, pos: u64, vectored: Option<&[usize]>) {
    let data = payload(n);
    let name = if vectored.is_some() { "write_vectored_all_at" } else { "write_all_at" };
    scenario(rep, name, &format!("len={n} pos={pos} members={vectored:?}"), bound, &|env, _| {
        let mut w = ScriptWriterAt { env: env.clone(), file: vec![0xEE; 2] };
        let res = match vectored {
            None => run_now(w.write_all_at(data.clone(), pos)).0,
            Some(lens) => {
                let mut off = 0;
                let bufs: Vec<Vec<u8>> = lens
                    .iter()
                    .map(|&l| {
                        let v = data[off..off + l].to_vec();
                        off += l;
                        v
                    })
                    .collect();
                run_now(w.write_vectored_all_at(bufs, pos)).0
            }
        };
        let (exp, moved) = ref_exact(&env.borrow().writes, n)?;
        check_result(&res, &exp, std::io::ErrorKind::WriteZero)?;
        let mut want = vec![0xEE; 2];
        let p = pos as usize;
        if moved > 0 {
            if want.len() < p + moved {
                want.resize(p + moved, 0);
            }
            want[p..p + moved].copy_from_slice(&data[..moved]);
        }
        if w.file != want {
            return fail("file-content", format!("file {:02x?} expected {want:02x?}", w.file));
        }
        Ok(format!("{exp:?}|{moved}"))
    });
}

// --------------------------------------------------------------------------------------------
// copy / take / split
// --------------------------------------------------------------------------------------------

fn sc_copy(rep: &Report, bound: u32, data_len: usize, size: usize) {
    let data = payload(data_len);
    scenario(rep, "copy_with_size", &format!("data={data_len} buf={size}"), bound, &|env, _| {
        let mut r = ScriptReader::new(env, &data);
        let mut w = ScriptWriter::new(env);
        let res = run_now(compio_io::util::copy_with_size(&mut r, &mut w, size));
        let e = env.borrow();
        let read_err = e.reads.iter().any(|a| a.1 == Ans::Error);
        let write_bad = e.writes.iter().any(|a| matches!(a.1, Ans::Error | Ans::Zero));
        let flush_bad = e.flushes.iter().any(|a| *a != Ans::N(0));
        let delivered: usize = e.reads.iter().map(|a| if let Ans::N(n) = a.1 { n } else { 0 }).sum();
        if w.sink != data[..w.sink.len().min(data.len())] {
            return fail("sink-content", format!("sink {:02x?} is not a prefix of the source", w.sink));
        }
        match &res {
            Ok(total) => {
                if read_err || write_bad || flush_bad {
                    return fail("error-swallowed", "copy returned Ok although the environment reported a failure");
                }
                if *total as usize != delivered || w.sink.len() != delivered {
                    return fail("lost-bytes", format!("copy returned {total}, source delivered {delivered}, sink has {}", w.sink.len()));
                }
                let saw_eof = matches!(e.reads.last(), Some((_, Ans::N(0) | Ans::Zero)));
                if !saw_eof {
                    let cause = if size == 0 { "zero-size-buffer" } else { "other" };
                    return fail(format!("stopped-early:{cause}"), "Ok without having seen end-of-file");
                }
                if e.flushes.len() != 1 || e.shutdowns != 1 {
                    return fail("no-flush-or-shutdown", format!("flushes={} shutdowns={}", e.flushes.len(), e.shutdowns));
                }
            }
            Err(err) => {
                if !(read_err || write_bad || flush_bad) {
                    return fail("spurious-error", format!("copy failed with {err:?} although no failure was scripted"));
                }
            }
        }
        Ok(format!("{}|{delivered}|{}", res.is_ok(), e.writes.len()))
    });
}

fn sc_take(rep: &Report, bound: u32, data_len: usize, limit: u64, dest_cap: usize) {
    let data = payload(data_len);
    scenario(rep, "take+read_to_end", &format!("data={data_len} limit={limit} destcap={dest_cap}"), bound, &|env, _| {
        env.borrow_mut().allow_zero = false;
        let r = ScriptReader::new(env, &data);
        let mut t = r.take(limit);
        let BufResult(res, v) = run_now(t.read_to_end(mk_vec(0, dest_cap)));
        let e = env.borrow();
        let err = e.reads.iter().any(|a| a.1 == Ans::Error);
        let inner = t.into_inner();
        if inner.pos as u64 > limit {
            return fail("limit-exceeded", format!("{} bytes consumed from the source, limit {limit}", inner.pos));
        }
        if let Some((cap, _)) = e.reads.iter().find(|(cap, _)| *cap as u64 > limit) {
            return fail("limit-exceeded", format!("inner read was offered {cap} bytes of room, limit {limit}"));
        }
        if v[..] != data[..v.len().min(data.len())] {
            return fail("content", format!("got {v:02x?}"));
        }
        match res {
            Ok(n) => {
                let want = (limit as usize).min(data_len);
                if err {
                    return fail("error-swallowed", "");
                }
                if n != want || v.len() != want {
                    return fail("wrong-count", format!("read {n} bytes (buffer {}), expected {want}", v.len()));
                }
            }
            Err(_) if err => {}
            Err(e) => return fail("spurious-error", format!("{e:?}")),
        }
        Ok(format!("{}|{}", v.len(), e.reads.len()))
    });
    scenario(rep, "take+bufread", &format!("data={data_len} limit={limit}"), bound, &|env, log| {
        env.borrow_mut().allow_zero = false;
        env.borrow_mut().allow_err = false;
        let r = ScriptReader::new(env, &data);
        let mut t = BufReader::with_capacity(3, r).take(limit);
        let mut got = Vec::new();
        for _ in 0..20 {
            let n = match run_now(t.fill_buf()) {
                Ok(b) => {
                    got.extend_from_slice(b);
                    b.len()
                }
                Err(e) if e.kind() == std::io::ErrorKind::Interrupted => continue,
                Err(e) => return fail("spurious-error", format!("{e:?}")),
            };
            log.push(format!("fill_buf->{n}"));
            if n == 0 {
                break;
            }
            t.consume(n);
        }
        let want = &data[..(limit as usize).min(data_len)];
        if got != want {
            return fail("content", format!("got {got:02x?} expected {want:02x?}"));
        }
        Ok(format!("{}", got.len()))
    });
}

struct Duplex {
    r: ScriptReader,
    w: ScriptWriter,
}

impl AsyncRead for Duplex {
    async fn read<B: IoBufMut>(&mut self, buf: B) -> BufResult<usize, B> {
        self.r.read(buf).await
    }
}

impl AsyncWrite for Duplex {
    async fn write<T: IoBuf>(&mut self, buf: T) -> BufResult<usize, T> {
        self.w.write(buf).await
    }

    async fn flush(&mut self) -> std::io::Result<()> {
        self.w.flush().await
    }

    async fn shutdown(&mut self) -> std::io::Result<()> {
        self.w.shutdown().await
    }
}

fn sc_split(rep: &Report, bound: u32, n: usize) {
    let data = payload(n);
    scenario(rep, "split", &format!("len={n}"), bound, &|env, _| {
        let d = Duplex {
            r: ScriptReader::new(env, &data),
            w: ScriptWriter::new(env),
        };
        let (mut rh, mut wh) = compio_io::util::split::split(d);
        let BufResult(wres, _) = run_now(wh.write_all(data.clone()));
        let BufResult(rres, got) = run_now(rh.read_exact(mk_vec(0, n)));
        let d = rh.unsplit(wh);
        let (wexp, wmoved) = ref_exact(&env.borrow().writes, n)?;
        check_result(&wres, &wexp, std::io::ErrorKind::WriteZero)?;
        ref_sink_prefix(&d.w.sink, &data, wmoved)?;
        let (rexp, _) = ref_exact(&env.borrow().reads, n)?;
        check_result(&rres, &rexp, std::io::ErrorKind::UnexpectedEof)?;
        if rexp == Expect::Ok && got != data {
            return fail("misplaced-data", format!("{got:02x?}"));
        }
        Ok(format!("{wexp:?}|{rexp:?}"))
    });
}

// --------------------------------------------------------------------------------------------
// BufReader / BufWriter programs
// --------------------------------------------------------------------------------------------

fn sc_bufreader(rep: &Report, bound: u32, cap: usize, data_len: usize, prog_len: usize) {
    let data = payload(data_len);
    scenario(rep, "BufReader", &format!("cap={cap} data={data_len} prog<={prog_len}"), bound, &|env, log| {
        env.borrow_mut().allow_zero = false;
        let r = ScriptReader::new(env, &data);
        let mut br = BufReader::with_capacity(cap, r);
        let mut got: Vec<u8> = Vec::new();
        let mut steps = 0;
        let mut idle = 0;
        loop {
            steps += 1;
            if steps > 40 {
                let cause = if cap == 0 { "capacity-0" } else { "other" };
                return fail(format!("no-progress:{cause}"), format!("after 40 caller operations only {} of {data_len} bytes arrived", got.len()));
            }
            // caller op: in the first prog_len steps a free choice, afterwards plain 2-byte reads
            let op = if steps <= prog_len { env.borrow_mut().ch.pick(5) } else { 0 };
            let n = match op {
                0 | 1 | 2 => {
                    let c = [2usize, 1, 4][op];
                    let BufResult(res, b) = run_now(br.read(mk_vec(0, c)));
                    log.push(format!("read({c})->{:?}", res.as_ref().map_err(kind_of)));
                    match res {
                        Ok(n) => {
                            if b.len() != n {
                                return fail("count-vs-buffer", format!("read returned {n} but buffer length {}", b.len()));
                            }
                            got.extend_from_slice(&b);
                            Some(n)
                        }
                        Err(_) => None,
                    }
                }
                3 => {
                    let r = run_now(br.fill_buf()).map(|b| b.to_vec());
                    log.push(format!("fill_buf->{:?}", r.as_ref().map(|b| b.len()).map_err(kind_of)));
                    match r {
                        Ok(b) => {
                            // consume all but one byte (or the single byte)
                            let k = if b.len() > 1 { b.len() - 1 } else { b.len() };
                            got.extend_from_slice(&b[..k]);
                            br.consume(k);
                            Some(b.len())
                        }
                        Err(_) => None,
                    }
                }
                _ => {
                    let BufResult(res, b) = run_now(br.read_vectored([mk_vec(0, 1), mk_vec(0, 2)]));
                    log.push(format!("read_vectored([1,2])->{:?}", res.as_ref().map_err(kind_of)));
                    match res {
                        Ok(n) => {
                            let flat: Vec<u8> = b.iter().flatten().copied().collect();
                            if flat.len() != n {
                                return fail("count-vs-buffer", format!("read_vectored returned {n}, buffers hold {}", flat.len()));
                            }
                            got.extend_from_slice(&flat);
                            Some(n)
                        }
                        Err(_) => None,
                    }
                }
            };
            if got[..] != data[..got.len().min(data_len)] || got.len() > data_len {
                return fail("stream-corrupted", format!("caller received {got:02x?}, source is {data:02x?}"));
            }
            if n == Some(0) {
                idle += 1;
                if got.len() == data_len && idle >= 1 {
                    break;
                }
            }
        }
        Ok(format!("{}|{}", got.len(), env.borrow().reads.len()))
    });
}

fn sc_bufwriter(rep: &Report, bound: u32, cap: usize, prog_len: usize) {
    scenario(rep, "BufWriter", &format!("cap={cap} prog<={prog_len}"), bound, &|env, log| {
        env.borrow_mut().allow_zero = false;
        let w = ScriptWriter::new(env);
        let mut bw = BufWriter::with_capacity(cap, w);
        let mut accepted: Vec<u8> = Vec::new();
        let mut next = 0u8;
        let mut after_err = false;
        for _ in 0..prog_len {
            let op = env.borrow_mut().ch.pick(6);
            match op {
                0 => break,
                1 | 2 | 3 => {
                    let k = [1usize, 2, 5][op - 1];
                    let chunk: Vec<u8> = (0..k).map(|i| 0x41 + next + i as u8).collect();
                    let BufResult(res, _) = run_now(bw.write(chunk.clone()));
                    log.push(format!("write({k})->{:?}", res.as_ref().map_err(kind_of)));
                    match res {
                        Ok(n) => {
                            if n > k {
                                return fail("count-exceeds-input", format!("write of {k} bytes returned {n}"));
                            }
                            if n == 0 {
                                // Ok(0) for a non-empty buffer means "the sink takes nothing more":
                                // write_all turns it into WriteZero and the payload is lost
                                let cause = if cap == 0 { "capacity-0" } else if after_err { "after-failed-call" } else { "no-failure" };
                                return fail(format!("write-returns-zero:{cause}"), format!("write of {k} bytes returned Ok(0) although the sink accepts data"));
                            }
                            accepted.extend_from_slice(&chunk[..n]);
                            next += n as u8;
                        }
                        Err(_) => after_err = true, // caller assumes nothing was accepted
                    }
                }
                4 => {
                    let a: Vec<u8> = vec![0x41 + next];
                    let b: Vec<u8> = vec![];
                    let c: Vec<u8> = vec![0x42 + next, 0x43 + next];
                    let BufResult(res, _) = run_now(bw.write_vectored([a.clone(), b, c.clone()]));
                    log.push(format!("write_vectored([1,0,2])->{:?}", res.as_ref().map_err(kind_of)));
                    match res {
                        Ok(n) => {
                            let flat: Vec<u8> = a.iter().chain(c.iter()).copied().collect();
                            if n > flat.len() {
                                return fail("count-exceeds-input", format!("write_vectored returned {n}"));
                            }
                            if n == 0 {
                                let cause = if cap == 0 { "capacity-0" } else if after_err { "after-failed-call" } else { "no-failure" };
                                return fail(format!("write-vectored-returns-zero:{cause}"), "write_vectored of 3 bytes returned Ok(0) although the sink accepts data".to_string());
                            }
                            accepted.extend_from_slice(&flat[..n]);
                            next += n as u8;
                        }
                        Err(_) => after_err = true,
                    }
                }
                _ => {
                    let r = run_now(bw.flush());
                    log.push(format!("flush->{:?}", r.as_ref().map_err(kind_of)));
                    if r.is_err() {
                        after_err = true;
                    }
                }
            }
        }
        // final: flush until it succeeds
        let mut ok = false;
        for _ in 0..8 {
            match run_now(bw.flush()) {
                Ok(()) => {
                    ok = true;
                    break;
                }
                Err(_) => after_err = true,
            }
        }
        if !ok {
            return Ok("flush-never-succeeded".into()); // only if the script keeps failing (needs > bound deviations)
        }
        let w = bw.into_inner();
        if w.sink != accepted {
            let cause = if cap == 0 { "capacity-0" } else if after_err { "after-failed-call" } else { "no-failure" };
            return fail(format!("sink-differs:{cause}"), format!("sink received {:02x?}, the caller was told {accepted:02x?} were accepted", w.sink));
        }
        Ok(format!("{}|{}", accepted.len(), env.borrow().writes.len()))
    });
}

// --------------------------------------------------------------------------------------------
// in-memory readers / writers: direct enumeration of positions and shapes
// --------------------------------------------------------------------------------------------

fn mem_case(rep: &Report, name: &str, params: String, f: impl FnOnce() -> Res) {
    let r = vcore::catch(f).unwrap_or_else(|p| Err(("panic".into(), p)));
    rep.add_execution(1);
    rep.add_states(1);
    match r {
        Ok(sig) => rep.outcome(format!("{name}|{sig}")),
        Err((key, detail)) => rep.violation(Violation {
            key: format!("{name}:{key}"),
            what: format!("{name}({params}): {detail}"),
            replay: json!({"engine":"e2pure/C11","scenario":name,"params":params}),
        }),
    }
}

fn expect_read(name: &str, res: std::io::Result<usize>, got: &[u8], src: &[u8], pos: usize, room: usize) -> Res {
    let p = pos.min(src.len());
    let n = room.min(src.len() - p);
    match res {
        Ok(m) if m == n && got == &src[p..p + n] => Ok(format!("{n}")),
        other => fail("wrong-read", format!("{name}: returned {other:?} with {got:02x?}; expected {n} bytes {:02x?}", &src[p..p + n])),
    }
}

fn in_memory(rep: &Report, max: usize) {
    for sl in 0..=max {
        let src = payload(sl);
        let leaked: &'static [u8] = Box::leak(src.clone().into_boxed_slice());
        for cap in 0..=max {
            for len in [0, cap / 2, cap] {
                // &[u8] as reader
                mem_case(rep, "slice.read", format!("src={sl} dest={len}/{cap}"), || {
                    let mut s: &[u8] = leaked;
                    let BufResult(res, b) = run_now(s.read(mk_vec(len, cap)));
                    let n = *res.as_ref().unwrap_or(&0);
                    if s.len() != sl - n {
                        return fail("cursor", "source slice not advanced by the count");
                    }
                    expect_read("slice.read", res, &b[..n.min(b.len())], &src, 0, cap)
                });
                for pos in 0..=sl + 2 {
                    mem_case(rep, "Cursor<Vec>.read", format!("src={sl} pos={pos} dest={len}/{cap}"), || {
                        let mut c = Cursor::new(src.clone());
                        c.set_position(pos as u64);
                        let BufResult(res, b) = run_now(c.read(mk_vec(len, cap)));
                        let n = *res.as_ref().unwrap_or(&0);
                        if c.position() != (pos + n) as u64 {
                            return fail("cursor", format!("position {} after reading {n} at {pos}", c.position()));
                        }
                        expect_read("Cursor.read", res, &b[..n.min(b.len())], &src, pos, cap)
                    });
                    mem_case(rep, "slice.read_at", format!("src={sl} pos={pos} dest={len}/{cap}"), || {
                        let BufResult(res, b) = run_now(leaked.read_at(mk_vec(len, cap), pos as u64));
                        let n = *res.as_ref().unwrap_or(&0);
                        expect_read("read_at", res, &b[..n.min(b.len())], &src, pos, cap)
                    });
                    mem_case(rep, "Vec.read_at", format!("src={sl} pos={pos} dest={len}/{cap}"), || {
                        let BufResult(res, b) = run_now(src.read_at(mk_vec(len, cap), pos as u64));
                        let n = *res.as_ref().unwrap_or(&0);
                        expect_read("read_at", res, &b[..n.min(b.len())], &src, pos, cap)
                    });
                }
            }
        }
        // vectored destinations [c0, c1]
        for c0 in 0..=2usize {
            for c1 in 0..=2usize {
                let flat = |b: &[Vec<u8>; 2], n: usize| -> Vec<u8> {
                    // kernel order: fill member 0's capacity, then member 1
                    let mut v = Vec::new();
                    let a = n.min(c0);
                    v.extend_from_slice(&all_bytes(&b[0])[..a]);
                    v.extend_from_slice(&all_bytes(&b[1])[..n - a]);
                    v
                };
                mem_case(rep, "slice.read_vectored", format!("src={sl} dest=[{c0},{c1}]"), || {
                    let mut s: &[u8] = leaked;
                    let BufResult(res, b) = run_now(s.read_vectored([mk_vec(0, c0), mk_vec(0, c1)]));
                    let n = *res.as_ref().unwrap_or(&0);
                    if b[0].len() + b[1].len() != n {
                        return fail("lengths", format!("members have {}+{} initialized bytes, count {n}", b[0].len(), b[1].len()));
                    }
                    expect_read("read_vectored", res, &flat(&b, n.min(c0 + c1)), &src, 0, c0 + c1)
                });
                for pos in 0..=sl + 2 {
                    let cause = if pos > sl { "position-beyond-end" } else { "position-in-range" };
                    mem_case(rep, &format!("Cursor<Vec>.read_vectored:{cause}"), format!("src={sl} pos={pos} dest=[{c0},{c1}]"), || {
                        let mut c = Cursor::new(src.clone());
                        c.set_position(pos as u64);
                        let BufResult(res, b) = run_now(c.read_vectored([mk_vec(0, c0), mk_vec(0, c1)]));
                        let n = *res.as_ref().unwrap_or(&0);
                        if c.position() != (pos + n) as u64 {
                            return fail("cursor", format!("position {} after reading {n} at {pos}", c.position()));
                        }
                        expect_read("Cursor.read_vectored", res, &flat(&b, n.min(c0 + c1)), &src, pos, c0 + c1)
                    });
                    mem_case(rep, &format!("slice.read_vectored_at:{cause}"), format!("src={sl} pos={pos} dest=[{c0},{c1}]"), || {
                        let BufResult(res, b) = run_now(leaked.read_vectored_at([mk_vec(0, c0), mk_vec(0, c1)], pos as u64));
                        let n = *res.as_ref().unwrap_or(&0);
                        expect_read("read_vectored_at", res, &flat(&b, n.min(c0 + c1)), &src, pos, c0 + c1)
                    });
                }
            }
        }
    }
    // writers
    for pre in 0..=max {
        let old: Vec<u8> = (0..pre).map(|i| 0xE0 + i as u8).collect();
        for n in 0..=max {
            let data = payload(n);
            let cause = |pre: usize, n: usize| if pre > n { "sink-longer-than-data" } else { "sink-not-longer-than-data" };
            mem_case(rep, "Vec.write", format!("sink={pre} data={n}"), || {
                let mut v = old.clone();
                let BufResult(res, _) = run_now(v.write(data.clone()));
                let mut want = old.clone();
                want.extend_from_slice(&data);
                if !matches!(res, Ok(m) if m == n) || v != want {
                    return fail("wrong-write", format!("returned {res:?}, sink {v:02x?} expected {want:02x?}"));
                }
                Ok(format!("{n}"))
            });
            for split in 0..=n {
                let (a, b) = (data[..split].to_vec(), data[split..].to_vec());
                mem_case(rep, &format!("Vec.write_vectored:{}", cause(pre, n)), format!("sink={pre} data=[{split},{}]", n - split), || {
                    let mut v = old.clone();
                    let BufResult(res, _) = run_now(v.write_vectored([a.clone(), b.clone()]));
                    let mut want = old.clone();
                    want.extend_from_slice(&data);
                    if !matches!(res, Ok(m) if m == n) || v != want {
                        return fail("wrong-write", format!("returned {res:?}, sink {v:02x?} expected {want:02x?}"));
                    }
                    Ok(format!("{n}"))
                });
                mem_case(rep, &format!("Vec.write_zerocopy_vectored:{}", cause(pre, n)), format!("sink={pre} data=[{split},{}]", n - split), || {
                    let mut v = old.clone();
                    let BufResult(res, _) = run_now(v.write_zerocopy_vectored([a.clone(), b.clone()]));
                    let mut want = old.clone();
                    want.extend_from_slice(&data);
                    if !matches!(res, Ok(m) if m == n) || v != want {
                        return fail("wrong-write", format!("returned {res:?}, sink {v:02x?} expected {want:02x?}"));
                    }
                    Ok(format!("{n}"))
                });
                for pos in 0..=pre + 2 {
                    let file_ref = |pos: usize| {
                        let mut want = old.clone();
                        if n > 0 || pos > pre {
                            if want.len() < pos + n {
                                want.resize(pos + n, 0);
                            }
                            want[pos..pos + n].copy_from_slice(&data);
                        }
                        want
                    };
                    let wcause = if pre.saturating_sub(pos) > n { "tail-longer-than-data" } else { "tail-not-longer-than-data" };
                    mem_case(rep, &format!("Vec.write_vectored_at:{wcause}"), format!("sink={pre} pos={pos} data=[{split},{}]", n - split), || {
                        let mut v = old.clone();
                        let BufResult(res, _) = run_now(v.write_vectored_at([a.clone(), b.clone()], pos as u64));
                        let want = file_ref(pos);
                        if !matches!(res, Ok(m) if m == n) || (v != want && !(n == 0 && v.len() >= pre && v[..pre] == old[..])) {
                            return fail("wrong-write", format!("returned {res:?}, sink {v:02x?} expected {want:02x?}"));
                        }
                        Ok(format!("{n}"))
                    });
                    if split == 0 {
                        mem_case(rep, "Vec.write_at", format!("sink={pre} pos={pos} data={n}"), || {
                            let mut v = old.clone();
                            let BufResult(res, _) = run_now(v.write_at(data.clone(), pos as u64));
                            let want = file_ref(pos);
                            if !matches!(res, Ok(m) if m == n) || (v != want && !(n == 0 && v.len() >= pre && v[..pre] == old[..])) {
                                return fail("wrong-write", format!("returned {res:?}, sink {v:02x?} expected {want:02x?}"));
                            }
                            Ok(format!("{n}"))
                        });
                        mem_case(rep, "Cursor<Vec>.write", format!("sink={pre} pos={pos} data={n}"), || {
                            let mut c = Cursor::new(old.clone());
                            c.set_position(pos as u64);
                            let BufResult(res, _) = run_now(c.write(data.clone()));
                            let want = file_ref(pos);
                            let v = c.get_ref();
                            if !matches!(res, Ok(m) if m == n) || c.position() != (pos + n) as u64 || (*v != want && !(n == 0 && v.len() >= pre && v[..pre] == old[..])) {
                                return fail("wrong-write", format!("returned {res:?}, pos {}, sink {v:02x?} expected {want:02x?}", c.position()));
                            }
                            Ok(format!("{n}"))
                        });
                        // fixed-size sinks: [u8] write_at / &mut [u8] write
                        mem_case(rep, "[u8].write_at", format!("sink={pre} pos={pos} data={n}"), || {
                            let mut v = old.clone();
                            let BufResult(res, _) = run_now(v.as_mut_slice().write_at(data.clone(), pos as u64));
                            let p = pos.min(pre);
                            let k = n.min(pre - p);
                            let mut want = old.clone();
                            want[p..p + k].copy_from_slice(&data[..k]);
                            if !matches!(res, Ok(m) if m == k) || v != want {
                                return fail("wrong-write", format!("returned {res:?}, sink {v:02x?} expected {want:02x?}"));
                            }
                            Ok(format!("{k}"))
                        });
                    }
                    mem_case(rep, "[u8].write_vectored_at", format!("sink={pre} pos={pos} data=[{split},{}]", n - split), || {
                        let mut v = old.clone();
                        let BufResult(res, _) = run_now(v.as_mut_slice().write_vectored_at([a.clone(), b.clone()], pos as u64));
                        let p = pos.min(pre);
                        let k = n.min(pre - p);
                        let mut want = old.clone();
                        want[p..p + k].copy_from_slice(&data[..k]);
                        if !matches!(res, Ok(m) if m == k) || v != want {
                            return fail("wrong-write", format!("returned {res:?}, sink {v:02x?} expected {want:02x?}"));
                        }
                        Ok(format!("{k}"))
                    });
                }
                mem_case(rep, "&mut[u8].write_vectored", format!("sink={pre} data=[{split},{}]", n - split), || {
                    let mut store = old.clone();
                    let mut s: &mut [u8] = store.as_mut_slice();
                    let BufResult(res, _) = run_now(s.write_vectored([a.clone(), b.clone()]));
                    let k = n.min(pre);
                    let rest = s.len();
                    let mut want = old.clone();
                    want[..k].copy_from_slice(&data[..k]);
                    if !matches!(res, Ok(m) if m == k) || rest != pre - k || store != want {
                        return fail("wrong-write", format!("returned {res:?}, sink {store:02x?} expected {want:02x?}"));
                    }
                    Ok(format!("{k}"))
                });
            }
        }
    }
}

pub fn run(args: Args) {
    let rep = Report::new("C11", args.tier);
    let bound: u32 = args.tier.pick(2, 3);
    let t = args.tier;
    // work items so that the scenarios spread over all cores
    let mut items: Vec<Box<dyn Fn(&Report) + Send + Sync>> = Vec::new();
    let caps: Vec<usize> = t.pick(vec![0, 1, 2, 3], vec![0, 1, 2, 3, 5]);
    for &cap in &caps {
        for len in [0, cap / 2, cap] {
            if len == cap / 2 && (cap / 2 == 0 || cap / 2 == cap) && len != 0 {
                continue;
            }
            for dl in 0..=cap + 2 {
                items.push(Box::new(move |rep| {
                    sc_read_exact(rep, bound, "Vec", &|| mk_vec(len, cap), dl);
                    sc_read_exact(rep, bound, "Vec.uninit", &|| mk_vec(len, cap).uninit(), dl);
                    for a in 0..=len {
                        sc_read_exact(rep, bound, "Vec.slice(a..)", &|| mk_vec(len, cap).slice(a..), dl);
                        if a + 1 <= cap {
                            sc_read_exact(rep, bound, "Vec.slice(a..e)", &|| mk_vec(len, cap).slice(a..cap - 1 + (a == cap - 1) as usize), dl);
                        }
                    }
                    sc_read_to_end(rep, bound, len, cap, dl, false);
                    sc_append(rep, bound, len, cap, dl);
                    for pos in [0u64, 1, dl as u64, dl as u64 + 2] {
                        sc_read_at(rep, bound, len, cap, dl, pos);
                    }
                }));
            }
            items.push(Box::new(move |rep| sc_read_to_end(rep, bound, len, cap, 3, true)));
        }
    }
    let m: Vec<(usize, usize)> = vec![(0, 0), (0, 1), (0, 2), (1, 2), (2, 2), (1, 1)];
    for &a in &m {
        for &b in &m {
            for native in [false, true] {
                items.push(Box::new(move |rep| {
                    for dl in [a.1 + b.1, (a.1 + b.1).saturating_sub(1), a.1 + b.1 + 1] {
                        sc_read_vectored_exact(rep, bound, &[a, b], dl, native);
                    }
                }));
            }
        }
    }
    for n in 0..=t.pick(4, 6) {
        items.push(Box::new(move |rep| {
            sc_write_all(rep, bound, n, None);
            sc_write_all(rep, bound, n, Some(n.saturating_sub(1)));
            sc_split(rep, bound, n);
            for pos in [0u64, 1, 3] {
                sc_write_all_at(rep, bound, n, pos, None);
            }
        }));
    }
    for lens in [vec![], vec![0], vec![2], vec![1, 2], vec![0, 2, 1], vec![2, 0, 0, 1], vec![1, 1, 1]] {
        for native in [false, true] {
            let l = lens.clone();
            items.push(Box::new(move |rep| sc_write_vectored_all(rep, bound, &l, native)));
        }
        let l = lens.clone();
        items.push(Box::new(move |rep| {
            for pos in [0u64, 3] {
                sc_write_all_at(rep, bound, l.iter().sum(), pos, Some(&l));
            }
        }));
    }
    for dl in 0..=t.pick(4, 6) {
        for size in [0usize, 1, 2, 8] {
            items.push(Box::new(move |rep| sc_copy(rep, bound, dl, size)));
        }
        for limit in [0u64, 1, 3, 10] {
            items.push(Box::new(move |rep| {
                for dc in [0usize, 2] {
                    sc_take(rep, bound, dl, limit, dc);
                }
            }));
        }
    }
    for cap in [0usize, 1, 2, 3, 8] {
        for dl in [0usize, 1, 3, 5] {
            items.push(Box::new(move |rep| sc_bufreader(rep, bound.min(2), cap, dl, t.pick(2, 3))));
        }
        items.push(Box::new(move |rep| sc_bufwriter(rep, bound.min(2), cap, t.pick(3, 4))));
    }
    let mem_max = t.pick(3, 4);
    items.push(Box::new(move |rep| in_memory(rep, mem_max)));

    vcore::par_for_each(&items, |_, f| f(&rep));
    rep.extra("bounds", json!({"max_deviations": bound, "deviation_alphabet": ["1 byte", "m-1 bytes", "Interrupted", "Other error", "Ok(0) now"], "capacities": caps, "in_memory_max_len": mem_max}));
    rep.rule("each helper x small exhaustive parameters (payload length, destination len/cap/view, positions, member layouts) x every placement of <= max_deviations deviations of the scripted environment; in-memory readers/writers: all positions 0..len+2 and shapes; distinct outcomes = (scenario, result kind, bytes moved, environment calls)");
    rep.assume("the scripted environment is the only source of nondeterminism; helpers complete without waiting (checked: a Pending is a harness panic)");
    rep.finish();
}
