//! Scripted environment shared by the E2 checks: a reader / writer whose every answer is an
//! explorer choice (default = "transfer everything now", anything else costs one deviation).
use std::{
    cell::RefCell,
    future::Future,
    pin::pin,
    rc::Rc,
    task::{Context, Poll, Waker},
};

use compio_buf::*;
use compio_io::{AsyncRead, AsyncReadAt, AsyncWrite, AsyncWriteAt};
use vcore::Chooser;

/// Poll a future that must complete without waiting.
pub fn run_now<F: Future>(f: F) -> F::Output {
    let mut f = pin!(f);
    let mut cx = Context::from_waker(Waker::noop());
    for _ in 0..4 {
        if let Poll::Ready(v) = f.as_mut().poll(&mut cx) {
            return v;
        }
    }
    panic!("harness: future returned Pending although the scripted environment never blocks");
}

#[derive(Clone, Debug, PartialEq)]
pub enum Ans {
    /// bytes transferred
    N(usize),
    Interrupted,
    Error,
    /// Ok(0) although data / space was available
    Zero,
    /// the call returns Pending once (waking itself), then transfers everything
    Pending,
}

/// A future that is Pending exactly once and wakes itself.
pub struct YieldOnce(pub bool);

impl Future for YieldOnce {
    type Output = ();

    fn poll(mut self: std::pin::Pin<&mut Self>, cx: &mut Context<'_>) -> Poll<()> {
        if self.0 {
            Poll::Ready(())
        } else {
            self.0 = true;
            cx.waker().wake_by_ref();
            Poll::Pending
        }
    }
}

/// Poll a future up to `max` times (the scripted environment may answer Pending-then-wake).
pub fn run_polls<F: Future>(f: F, max: usize) -> Option<F::Output> {
    let mut f = pin!(f);
    let mut cx = Context::from_waker(Waker::noop());
    for _ in 0..max {
        if let Poll::Ready(v) = f.as_mut().poll(&mut cx) {
            return Some(v);
        }
    }
    None
}

pub struct EnvState {
    pub ch: Chooser,
    pub reads: Vec<(usize, Ans)>,  // (capacity offered, answer)
    pub writes: Vec<(usize, Ans)>, // (bytes offered, answer)
    pub flushes: Vec<Ans>,
    pub shutdowns: u32,
    pub calls: usize,
    pub horizon: usize,
    pub livelock: bool,
    /// restrict the alphabet (e.g. no EOF-now for readers that model a stream that only ends at its end)
    pub allow_zero: bool,
    pub allow_err: bool,
    pub allow_pending: bool,
    pub allow_interrupt: bool,
    /// offer every chunk size 1..m (all compositions) instead of {1, m-1}
    pub all_sizes: bool,
}

pub type Env = Rc<RefCell<EnvState>>;

pub fn new_env(ch: Chooser, horizon: usize) -> Env {
    Rc::new(RefCell::new(EnvState {
        ch,
        reads: vec![],
        writes: vec![],
        flushes: vec![],
        shutdowns: 0,
        calls: 0,
        horizon,
        livelock: false,
        allow_zero: true,
        allow_err: true,
        allow_pending: false,
        allow_interrupt: true,
        all_sizes: false,
    }))
}

pub fn take_chooser(env: &Env) -> Chooser {
    std::mem::replace(&mut env.borrow_mut().ch, Chooser::new(vec![], 0))
}

fn other_err() -> std::io::Error {
    std::io::Error::other("scripted failure")
}

fn interrupted() -> std::io::Error {
    std::io::Error::new(std::io::ErrorKind::Interrupted, "scripted interruption")
}

impl EnvState {
    /// decide the answer for a transfer of at most `m` bytes (`m` may be 0)
    fn decide(&mut self, m: usize) -> Ans {
        self.calls += 1;
        if self.calls > self.horizon {
            self.livelock = true;
            return Ans::Error;
        }
        let mut opts = vec![Ans::N(m)];
        if self.all_sizes {
            opts.extend((1..m).map(Ans::N));
        } else {
            if m >= 2 {
                opts.push(Ans::N(1));
            }
            if m >= 3 {
                opts.push(Ans::N(m - 1));
            }
        }
        if self.allow_interrupt {
            opts.push(Ans::Interrupted);
        }
        if self.allow_pending {
            opts.push(Ans::Pending);
        }
        if self.allow_err {
            opts.push(Ans::Error);
        }
        if m >= 1 && self.allow_zero {
            opts.push(Ans::Zero);
        }
        let c = self.ch.deviate(opts.len());
        opts[c].clone()
    }
}

/// copy `src` to the start of the writable region of `buf` and record it (what a driver op does)
pub fn fill_buf<B: IoBufMut>(buf: &mut B, src: &[u8]) {
    let dst = buf.as_uninit();
    assert!(src.len() <= dst.len());
    for (d, s) in dst.iter_mut().zip(src) {
        d.write(*s);
    }
    unsafe { buf.advance_to(src.len()) };
}

pub struct ScriptReader {
    pub env: Env,
    pub data: Vec<u8>,
    pub pos: usize,
    /// use a native vectored read (fill across the iovecs) instead of the trait's default
    pub native_vectored: bool,
}

impl ScriptReader {
    pub fn new(env: &Env, data: &[u8]) -> Self {
        Self {
            env: env.clone(),
            data: data.to_vec(),
            pos: 0,
            native_vectored: false,
        }
    }
}

impl AsyncRead for ScriptReader {
    async fn read<B: IoBufMut>(&mut self, mut buf: B) -> BufResult<usize, B> {
        let cap = buf.buf_capacity();
        let m = cap.min(self.data.len() - self.pos);
        let mut a = self.env.borrow_mut().decide(m);
        self.env.borrow_mut().reads.push((cap, a.clone()));
        if a == Ans::Pending {
            YieldOnce(false).await;
            a = Ans::N(m);
        }
        match a {
            Ans::N(n) => {
                fill_buf(&mut buf, &self.data[self.pos..self.pos + n]);
                self.pos += n;
                BufResult(Ok(n), buf)
            }
            Ans::Zero => BufResult(Ok(0), buf),
            Ans::Interrupted => BufResult(Err(interrupted()), buf),
            Ans::Error | Ans::Pending => BufResult(Err(other_err()), buf),
        }
    }

    async fn read_vectored<V: IoVectoredBufMut>(&mut self, mut buf: V) -> BufResult<usize, V> {
        if !self.native_vectored {
            // the trait's default: first non-empty member only
            let mut iter = match buf.owned_iter() {
                Ok(b) => b,
                Err(b) => return BufResult(Ok(0), b),
            };
            loop {
                if iter.buf_capacity() > 0 {
                    return self.read(iter).await.into_inner();
                }
                match iter.next() {
                    Ok(n) => iter = n,
                    Err(b) => return BufResult(Ok(0), b),
                }
            }
        }
        let cap = buf.total_capacity();
        let m = cap.min(self.data.len() - self.pos);
        let a = self.env.borrow_mut().decide(m);
        self.env.borrow_mut().reads.push((cap, a.clone()));
        match a {
            Ans::N(n) => {
                let mut left = &self.data[self.pos..self.pos + n];
                for s in buf.iter_uninit_slice() {
                    let k = s.len().min(left.len());
                    for (d, b) in s.iter_mut().zip(&left[..k]) {
                        d.write(*b);
                    }
                    left = &left[k..];
                }
                unsafe { buf.advance_vec_to(n) };
                self.pos += n;
                BufResult(Ok(n), buf)
            }
            Ans::Zero => BufResult(Ok(0), buf),
            Ans::Interrupted => BufResult(Err(interrupted()), buf),
            Ans::Error | Ans::Pending => BufResult(Err(other_err()), buf),
        }
    }
}

/// positional scripted source (a "file")
pub struct ScriptReaderAt {
    pub env: Env,
    pub data: Vec<u8>,
}

impl AsyncReadAt for ScriptReaderAt {
    async fn read_at<B: IoBufMut>(&self, mut buf: B, pos: u64) -> BufResult<usize, B> {
        let cap = buf.buf_capacity();
        let pos = (pos as usize).min(self.data.len());
        let m = cap.min(self.data.len() - pos);
        let a = self.env.borrow_mut().decide(m);
        self.env.borrow_mut().reads.push((cap, a.clone()));
        match a {
            Ans::N(n) => {
                fill_buf(&mut buf, &self.data[pos..pos + n]);
                BufResult(Ok(n), buf)
            }
            Ans::Zero => BufResult(Ok(0), buf),
            Ans::Interrupted => BufResult(Err(interrupted()), buf),
            Ans::Error | Ans::Pending => BufResult(Err(other_err()), buf),
        }
    }
}

pub struct ScriptWriter {
    pub env: Env,
    pub sink: Vec<u8>,
    /// maximal number of bytes the sink accepts in total (None = unbounded)
    pub room: Option<usize>,
    pub native_vectored: bool,
    /// if set: records how many sink bytes had been written when the last successful flush happened
    pub flushed_upto: Option<Rc<std::cell::Cell<usize>>>,
}

impl ScriptWriter {
    pub fn new(env: &Env) -> Self {
        Self {
            env: env.clone(),
            sink: vec![],
            room: None,
            native_vectored: false,
            flushed_upto: None,
        }
    }
}

impl AsyncWrite for ScriptWriter {
    async fn write<T: IoBuf>(&mut self, buf: T) -> BufResult<usize, T> {
        let len = buf.buf_len();
        let m = match self.room {
            Some(r) => len.min(r - self.sink.len()),
            None => len,
        };
        let mut a = self.env.borrow_mut().decide(m);
        self.env.borrow_mut().writes.push((len, a.clone()));
        if a == Ans::Pending {
            YieldOnce(false).await;
            a = Ans::N(m);
        }
        match a {
            Ans::N(n) => {
                self.sink.extend_from_slice(&buf.as_init()[..n]);
                BufResult(Ok(n), buf)
            }
            Ans::Zero => BufResult(Ok(0), buf),
            Ans::Interrupted => BufResult(Err(interrupted()), buf),
            Ans::Error | Ans::Pending => BufResult(Err(other_err()), buf),
        }
    }

    async fn write_vectored<T: IoVectoredBuf>(&mut self, buf: T) -> BufResult<usize, T> {
        if !self.native_vectored {
            let mut iter = match buf.owned_iter() {
                Ok(b) => b,
                Err(b) => return BufResult(Ok(0), b),
            };
            loop {
                if iter.buf_len() > 0 {
                    return self.write(iter).await.into_inner();
                }
                match iter.next() {
                    Ok(n) => iter = n,
                    Err(b) => return BufResult(Ok(0), b),
                }
            }
        }
        let len = buf.total_len();
        let a = self.env.borrow_mut().decide(len);
        self.env.borrow_mut().writes.push((len, a.clone()));
        match a {
            Ans::N(n) => {
                let mut left = n;
                for s in buf.iter_slice() {
                    let k = s.len().min(left);
                    self.sink.extend_from_slice(&s[..k]);
                    left -= k;
                }
                BufResult(Ok(n), buf)
            }
            Ans::Zero => BufResult(Ok(0), buf),
            Ans::Interrupted => BufResult(Err(interrupted()), buf),
            Ans::Error | Ans::Pending => BufResult(Err(other_err()), buf),
        }
    }

    async fn flush(&mut self) -> std::io::Result<()> {
        let mut e = self.env.borrow_mut();
        e.calls += 1;
        if e.calls > e.horizon {
            e.livelock = true;
            return Err(other_err());
        }
        let n = if e.allow_err { 3 } else { 1 };
        let c = e.ch.deviate(n);
        let a = [Ans::N(0), Ans::Interrupted, Ans::Error][c].clone();
        let shared_sink = self.flushed_upto.clone();
        if let (Ans::N(_), Some(f)) = (&a, shared_sink) {
            f.set(self.sink.len());
        }
        e.flushes.push(a.clone());
        match a {
            Ans::N(_) => Ok(()),
            Ans::Interrupted => Err(interrupted()),
            _ => Err(other_err()),
        }
    }

    async fn shutdown(&mut self) -> std::io::Result<()> {
        self.env.borrow_mut().shutdowns += 1;
        Ok(())
    }
}

/// positional scripted sink
pub struct ScriptWriterAt {
    pub env: Env,
    pub file: Vec<u8>,
}

impl AsyncWriteAt for ScriptWriterAt {
    async fn write_at<T: IoBuf>(&mut self, buf: T, pos: u64) -> BufResult<usize, T> {
        let len = buf.buf_len();
        let a = self.env.borrow_mut().decide(len);
        self.env.borrow_mut().writes.push((len, a.clone()));
        match a {
            Ans::N(n) => {
                let pos = pos as usize;
                if self.file.len() < pos + n {
                    self.file.resize(pos + n, 0);
                }
                self.file[pos..pos + n].copy_from_slice(&buf.as_init()[..n]);
                BufResult(Ok(n), buf)
            }
            Ans::Zero => BufResult(Ok(0), buf),
            Ans::Interrupted => BufResult(Err(interrupted()), buf),
            Ans::Error | Ans::Pending => BufResult(Err(other_err()), buf),
        }
    }
}

/// a Vec whose whole capacity is pre-written: `len` bytes 0xE0+i, spare bytes 0xF0+i
pub fn mk_vec(len: usize, cap: usize) -> Vec<u8> {
    let mut v: Vec<u8> = Vec::with_capacity(cap);
    assert!(v.capacity() == cap && len <= cap);
    unsafe {
        for i in 0..cap {
            v.as_mut_ptr().add(i).write(if i < len { 0xE0 + i as u8 } else { 0xF0 + i as u8 });
        }
        v.set_len(len);
    }
    v
}

/// all `cap` bytes of a Vec (initialized by `mk_vec`)
pub fn all_bytes(v: &Vec<u8>) -> Vec<u8> {
    unsafe { std::slice::from_raw_parts(v.as_ptr(), v.capacity()) }.to_vec()
}

pub fn payload(n: usize) -> Vec<u8> {
    (0..n).map(|i| 0x41 + i as u8).collect()
}

pub fn kind_of(e: &std::io::Error) -> String {
    format!("{:?}", e.kind())
}
