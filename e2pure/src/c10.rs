//! C10 — all buffer views obey one contract.
//!
//! Enumerated (DESIGN.md §2/C10): root buffer kinds × (len, cap) × view trees (slice(a..b),
//! uninit(), nested up to a depth) × all fill sequences (write k bytes where the view says the
//! writable region starts, then record with `advance_to` / `advance`), plus vectored containers ×
//! `slice`/`slice_mut`/`owned_iter` × fills recorded with `advance_vec_to`.
//!
//! Oracle: pointer arithmetic against the root allocation, whose every byte (also the spare
//! capacity) is pre-written with a position-dependent pattern.
use std::{marker::PhantomData, mem::MaybeUninit};

use arrayvec::ArrayVec;
use bytes::BytesMut;
use compio_buf::*;
use smallvec::SmallVec;
use vcore::{Args, Chooser, Report, Tier, Violation, json};

fn pattern(i: usize) -> u8 {
    0xA0u8.wrapping_add(i as u8)
}

// ------------------------------------------------------------------------------------------
// roots
// ------------------------------------------------------------------------------------------

pub trait RootBuf: IoBufMut + Sized + 'static {
    fn name() -> String;
    /// Build a root with `len` initialized bytes and capacity `cap`, every one of the `cap` bytes
    /// pre-written with `pattern(i)`. `None` if the type cannot represent (len, cap).
    fn make(len: usize, cap: usize) -> Option<Self>;
    /// (data pointer, length, capacity) by the type's own API (not through compio-buf).
    fn native(&mut self) -> (*mut u8, usize, usize);
    fn dispose(self) {}
}

unsafe fn prefill(p: *mut u8, cap: usize) {
    for i in 0..cap {
        unsafe { p.add(i).write(pattern(i)) };
    }
}

impl RootBuf for Vec<u8> {
    fn name() -> String {
        "Vec".into()
    }

    fn make(len: usize, cap: usize) -> Option<Self> {
        let mut v = Vec::with_capacity(cap);
        if v.capacity() != cap {
            return None;
        }
        unsafe {
            prefill(v.as_mut_ptr(), cap);
            v.set_len(len);
        }
        Some(v)
    }

    fn native(&mut self) -> (*mut u8, usize, usize) {
        (self.as_mut_ptr(), self.len(), self.capacity())
    }
}

impl RootBuf for BytesMut {
    fn name() -> String {
        "BytesMut".into()
    }

    fn make(len: usize, cap: usize) -> Option<Self> {
        let mut v = BytesMut::with_capacity(cap);
        if v.capacity() != cap {
            return None;
        }
        unsafe {
            prefill(v.as_mut_ptr(), cap);
            v.set_len(len);
        }
        Some(v)
    }

    fn native(&mut self) -> (*mut u8, usize, usize) {
        (self.as_mut_ptr(), self.len(), self.capacity())
    }
}

impl RootBuf for Box<[u8]> {
    fn name() -> String {
        "Box<[u8]>".into()
    }

    fn make(len: usize, cap: usize) -> Option<Self> {
        if len != cap {
            return None;
        }
        Some((0..cap).map(pattern).collect::<Vec<u8>>().into_boxed_slice())
    }

    fn native(&mut self) -> (*mut u8, usize, usize) {
        (self.as_mut_ptr(), self.len(), self.len())
    }
}

impl RootBuf for &'static mut [u8] {
    fn name() -> String {
        "&'static mut [u8]".into()
    }

    fn make(len: usize, cap: usize) -> Option<Self> {
        if len != cap {
            return None;
        }
        Some(Box::leak(
            (0..cap).map(pattern).collect::<Vec<u8>>().into_boxed_slice(),
        ))
    }

    fn native(&mut self) -> (*mut u8, usize, usize) {
        (self.as_mut_ptr(), self.len(), self.len())
    }

    fn dispose(self) {
        unsafe { drop(Box::from_raw(self as *mut [u8])) }
    }
}

impl<const N: usize> RootBuf for [u8; N] {
    fn name() -> String {
        format!("[u8;{N}]")
    }

    fn make(len: usize, cap: usize) -> Option<Self> {
        if len != N || cap != N {
            return None;
        }
        let mut a = [0u8; N];
        for (i, b) in a.iter_mut().enumerate() {
            *b = pattern(i);
        }
        Some(a)
    }

    fn native(&mut self) -> (*mut u8, usize, usize) {
        (self.as_mut_ptr(), N, N)
    }
}

impl<const N: usize> RootBuf for ArrayVec<u8, N> {
    fn name() -> String {
        format!("ArrayVec<{N}>")
    }

    fn make(len: usize, cap: usize) -> Option<Self> {
        if cap != N || len > N {
            return None;
        }
        let mut a = ArrayVec::<u8, N>::new();
        unsafe {
            prefill(a.as_mut_ptr(), N);
            a.set_len(len);
        }
        Some(a)
    }

    fn native(&mut self) -> (*mut u8, usize, usize) {
        (self.as_mut_ptr(), self.len(), N)
    }
}

impl<const N: usize> RootBuf for SmallVec<[u8; N]>
where
    [u8; N]: smallvec::Array<Item = u8>,
{
    fn name() -> String {
        format!("SmallVec<{N}>")
    }

    fn make(len: usize, cap: usize) -> Option<Self> {
        // cap == N: inline storage; cap > N: spilled to the heap
        if cap < N {
            return None;
        }
        let mut a = SmallVec::<[u8; N]>::with_capacity(cap);
        if a.capacity() != cap {
            return None;
        }
        unsafe {
            prefill(a.as_mut_ptr(), cap);
            a.set_len(len);
        }
        Some(a)
    }

    fn native(&mut self) -> (*mut u8, usize, usize) {
        (self.as_mut_ptr(), self.len(), self.capacity())
    }
}

// ------------------------------------------------------------------------------------------
// views
// ------------------------------------------------------------------------------------------

pub trait View: IoBufMut + Sized + 'static {
    type Root: RootBuf;
    fn root_mut(&mut self) -> &mut Self::Root;
    fn unwrap_root(self) -> Self::Root;
}

macro_rules! root_view {
    ($($t:ty),* ; $($n:literal),*) => {
        $(impl View for $t {
            type Root = $t;
            fn root_mut(&mut self) -> &mut $t { self }
            fn unwrap_root(self) -> $t { self }
        })*
        $(
        impl View for [u8; $n] {
            type Root = [u8; $n];
            fn root_mut(&mut self) -> &mut Self { self }
            fn unwrap_root(self) -> Self { self }
        }
        impl View for ArrayVec<u8, $n> {
            type Root = Self;
            fn root_mut(&mut self) -> &mut Self { self }
            fn unwrap_root(self) -> Self { self }
        }
        )*
    };
}
root_view!(Vec<u8>, BytesMut, Box<[u8]>, &'static mut [u8], SmallVec<[u8; 2]>, SmallVec<[u8; 4]>; 0, 1, 2, 3, 4, 5);

impl<T: View> View for Slice<T> {
    type Root = T::Root;

    fn root_mut(&mut self) -> &mut Self::Root {
        self.as_inner_mut().root_mut()
    }

    fn unwrap_root(self) -> Self::Root {
        self.into_inner().unwrap_root()
    }
}

impl<T: View> View for Uninit<T> {
    type Root = T::Root;

    fn root_mut(&mut self) -> &mut Self::Root {
        self.as_inner_mut().root_mut()
    }

    fn unwrap_root(self) -> Self::Root {
        self.into_inner().unwrap_root()
    }
}

// ------------------------------------------------------------------------------------------
// one execution: a view + a fill sequence chosen by the explorer
// ------------------------------------------------------------------------------------------

#[derive(Debug)]
struct Fail {
    oracle: &'static str,
    detail: String,
    fills_done: usize,
    last_rec: &'static str,
}

struct Model {
    rp: usize,
    rc: usize,
    len: usize,
    content: Vec<u8>,
}

fn check_static<V: View>(v: &mut V, m: &Model) -> Result<(), (&'static str, String)> {
    let (pi, li) = {
        let s = IoBuf::as_init(&*v);
        (s.as_ptr() as usize, s.len())
    };
    let (pu, lu) = {
        let s = IoBufMut::as_uninit(&mut *v);
        (s.as_ptr() as usize, s.len())
    };
    if li > lu {
        return Err(("len-exceeds-capacity", format!("buf_len {li} > buf_capacity {lu}")));
    }
    if lu > 0 && (pu < m.rp || pu + lu > m.rp + m.rc) {
        return Err((
            "writable-outside-allocation",
            format!(
                "as_uninit = root+{}..+{} but the allocation has {} bytes",
                pu as isize - m.rp as isize,
                pu as isize - m.rp as isize + lu as isize,
                m.rc
            ),
        ));
    }
    if li > 0 {
        if pi < m.rp || pi + li > m.rp + m.rc {
            return Err(("init-outside-allocation", format!("as_init at root+{} len {li}", pi as isize - m.rp as isize)));
        }
        if pi != pu {
            return Err((
                "init-not-prefix-of-writable",
                format!(
                    "as_init starts at root+{} (len {li}) but as_uninit starts at root+{} (len {lu})",
                    pi - m.rp,
                    pu as isize - m.rp as isize
                ),
            ));
        }
        let abs = pi - m.rp;
        if abs + li > m.len {
            return Err((
                "init-exposes-uninitialized",
                format!("as_init covers root[{abs}..{}] but only {} root bytes are initialized", abs + li, m.len),
            ));
        }
        let got = unsafe { std::slice::from_raw_parts(pi as *const u8, li) };
        if got != &m.content[abs..abs + li] {
            return Err(("init-content", format!("as_init = {got:02x?}, expected {:02x?}", &m.content[abs..abs + li])));
        }
    }
    Ok(())
}

/// Runs fills chosen by `ch` on `v`. Returns (number of fills, final root len) or the failure.
fn run_fills<V: View>(mut v: V, ch: &mut Chooser, max_fills: usize, log: &mut Vec<String>) -> Result<(usize, usize), Fail> {
    let (rp, rl, rc) = v.root_mut().native();
    let mut m = Model {
        rp: rp as usize,
        rc,
        len: rl,
        content: unsafe { std::slice::from_raw_parts(rp, rc) }.to_vec(),
    };
    let fixed = rl == rc && <V::Root as RootBuf>::make(0, rc).is_none() && rc > 0;
    let mut done = 0usize;
    let mut last_rec = "none";
    let fail = |o: (&'static str, String), done: usize, last_rec: &'static str| Fail {
        oracle: o.0,
        detail: o.1,
        fills_done: done,
        last_rec,
    };
    check_static(&mut v, &m).map_err(|e| fail(e, done, last_rec))?;
    while done < max_fills {
        let li = v.as_init().len();
        let (pu, lu) = {
            let s = v.as_uninit();
            (s.as_mut_ptr() as *mut u8, s.len())
        };
        // options: 0 = stop; 1..=lu+1 = advance_to(k=opt-1); then advance(k) for k in 1..=lu-li
        let n_to = lu + 1;
        let n_adv = lu.saturating_sub(li);
        let c = ch.pick(1 + n_to + n_adv);
        if c == 0 {
            break;
        }
        let (rec, k, start) = if c <= n_to {
            ("advance_to", c - 1, 0)
        } else {
            ("advance", c - n_to, li)
        };
        let abs = (pu as usize + start).wrapping_sub(m.rp);
        for j in 0..k {
            let b = 0x10u8 * (done as u8 + 1) + j as u8;
            // the contract check above guarantees pu..pu+lu is inside the root allocation
            unsafe { pu.add(start + j).write(b) };
            m.content[abs + j] = b;
        }
        unsafe {
            if rec == "advance_to" {
                v.advance_to(k);
            } else {
                v.advance(k);
            }
        }
        log.push(format!("{rec}({k})@root+{abs}"));
        done += 1;
        last_rec = rec;
        if k > 0 {
            m.len = m.len.max(abs + k);
        }
        let (rp2, rl2, rc2) = v.root_mut().native();
        if rp2 as usize != m.rp || rc2 != m.rc {
            return Err(fail(("root-moved", format!("root allocation changed: {rp2:p}/{rc2}")), done, last_rec));
        }
        let want = if fixed { rc } else { m.len };
        if rl2 < want {
            return Err(fail(
                ("written-bytes-not-visible", format!("root length is {rl2} after the fill, written data ends at {want}")),
                done,
                last_rec,
            ));
        }
        if rl2 > want {
            return Err(fail(
                ("root-exposes-uninitialized", format!("root length is {rl2} after the fill, only {want} bytes are initialized")),
                done,
                last_rec,
            ));
        }
        check_static(&mut v, &m).map_err(|e| fail(e, done, last_rec))?;
    }
    let mut root = v.unwrap_root();
    let (rp3, rl3, rc3) = root.native();
    let all = unsafe { std::slice::from_raw_parts(rp3, rc3) }.to_vec();
    let init_ok = root.as_init() == &m.content[..rl3.min(m.content.len())];
    root.dispose();
    if rc3 != m.rc {
        return Err(fail(("root-moved", "capacity changed after unwrap".into()), done, last_rec));
    }
    if !init_ok || all != m.content {
        return Err(fail(
            ("root-content", format!("root bytes {all:02x?} (len {rl3}), expected {:02x?}", m.content)),
            done,
            last_rec,
        ));
    }
    Ok((done, rl3))
}

/// The documented use of an `Uninit` view ("the uninitialized tail"): write k bytes at the START of
/// `as_uninit()`, record them with `advance(k)`, and do it again -- every fill has to land right
/// behind the previous one, and the root ends up as its previous content + the chunks in order.
/// (The generic contract checked by `run_fills` writes at `as_uninit()[buf_len..]`; an `Uninit`
/// view that has been filled once does not satisfy that one, see known_findings.json.)
fn run_tail_append<V: View>(mut v: V, ch: &mut Chooser, max_fills: usize, log: &mut Vec<String>) -> Result<(usize, usize), Fail> {
    let (rp, rl, rc) = v.root_mut().native();
    let mut content = unsafe { std::slice::from_raw_parts(rp, rc) }.to_vec();
    let fixed = rl == rc && <V::Root as RootBuf>::make(0, rc).is_none() && rc > 0;
    let mut done = 0usize;
    let fail = |o: &'static str, d: String, done: usize| Fail { oracle: o, detail: d, fills_done: done, last_rec: "advance" };
    let start0 = (v.as_uninit().as_mut_ptr() as usize).wrapping_sub(rp as usize);
    let mut cursor = start0;
    while done < max_fills {
        let (pu, lu) = {
            let s = v.as_uninit();
            (s.as_mut_ptr() as *mut u8, s.len())
        };
        let at = (pu as usize).wrapping_sub(rp as usize);
        if lu > 0 && at != cursor {
            return Err(fail("tail-append-region-did-not-move", format!("after {done} fill(s) the writable region starts at root+{at}, the previous fill ended at root+{cursor}"), done));
        }
        if at + lu > rc {
            return Err(fail("tail-append-region-outside-root", format!("writable region root+{at}..+{lu} exceeds the allocation of {rc}"), done));
        }
        let c = ch.pick(lu + 2);
        if c == 0 {
            break;
        }
        let k = c - 1;
        for j in 0..k {
            let b = 0x10u8 * (done as u8 + 1) + j as u8;
            unsafe { pu.add(j).write(b) };
            content[at + j] = b;
        }
        unsafe { v.advance(k) };
        log.push(format!("write {k} at as_uninit()[0..], advance({k})@root+{at}"));
        cursor = at + k;
        done += 1;
    }
    let mut root = v.unwrap_root();
    let (rp3, rl3, rc3) = root.native();
    let all = unsafe { std::slice::from_raw_parts(rp3, rc3) }.to_vec();
    let want_len = if fixed { rc } else if cursor > start0 { rl.max(cursor) } else { rl };
    root.dispose();
    if rc3 != rc || all != content {
        return Err(fail("tail-append-root-content", format!("root bytes {all:02x?}, expected {content:02x?}"), done));
    }
    if rl3 < rl && cursor == start0 {
        // only zero-length fills were recorded, yet the root lost initialized bytes
        return Err(fail(
            "zero-length-record-truncates-root",
            format!("root length {rl3} (was {rl}) after recording 0 bytes through the view: `advance(0)` = `set_len(buf_len())` is not a no-op when the view ends before the root's initialized length"),
            done,
        ));
    }
    if rl3 != want_len {
        return Err(fail("tail-append-root-length", format!("root length {rl3} after appending up to root+{cursor}, expected {want_len}"), done));
    }
    Ok((done, rl3))
}

// ------------------------------------------------------------------------------------------
// type-level depth recursion over view constructors
// ------------------------------------------------------------------------------------------

pub struct Z;
pub struct S<D>(PhantomData<D>);

pub struct Ctx<'a> {
    rep: &'a Report,
    max_fills: usize,
}

pub trait Explore<D>: View {
    fn explore(mk: &dyn Fn() -> Self, shape: &str, path: &str, cx: &Ctx);
}

fn explore_here<V: View>(mk: &dyn Fn() -> V, shape: &str, path: &str, cx: &Ctx) {
    let root = <V::Root as RootBuf>::name();
    let st = vcore::explore(u32::MAX, u64::MAX, |ch| {
        let v = mk();
        let mut log = Vec::new();
        let r = vcore::catch(|| run_fills(v, ch, cx.max_fills, &mut log));
        cx.rep.add_execution(log.len() as u64 + 1);
        match r {
            Ok(Ok((n, rl))) => {
                cx.rep.outcome(format!("{shape}|fills={n}|rootlen={rl}"));
                if n == cx.max_fills && path.matches(".").count() >= 2 && rl > 0 {
                    cx.rep.sample(6, || json!({"root": root, "view": path, "fills": log, "final_root_len": rl}));
                }
            }
            Ok(Err(f)) => {
                cx.rep.violation(Violation {
                    key: format!("{}:{}:{}:{}:{}", f.oracle, shape, if f.fills_done == 0 { "static" } else { "after-fill" }, f.last_rec, root),
                    what: format!("view {path} after fills {log:?}: {}", f.detail),
                    replay: json!({"engine":"e2pure/C10","root":root,"view":path,"choices":ch.choices(),"fills":log}),
                });
            }
            Err(p) => {
                cx.rep.violation(Violation {
                    key: format!("panic:{shape}:{}:{root}", if log.is_empty() { "static" } else { "after-fill" }),
                    what: format!("view {path} fills {log:?}: panic {p}"),
                    replay: json!({"engine":"e2pure/C10","root":root,"view":path,"choices":ch.choices(),"fills":log}),
                });
            }
        }
        true
    });
    cx.rep.add_states(st.executions);
    if !shape.ends_with(".uninit") {
        return;
    }
    // outermost view is an uninitialized-tail view: its own convention, repeated fills
    let st = vcore::explore(u32::MAX, u64::MAX, |ch| {
        let v = mk();
        let mut log = Vec::new();
        let r = vcore::catch(|| run_tail_append(v, ch, cx.max_fills + 1, &mut log));
        cx.rep.add_execution(log.len() as u64 + 1);
        match r {
            Ok(Ok((n, rl))) => cx.rep.outcome(format!("{shape}|tail-append={n}|rootlen={rl}")),
            Ok(Err(f)) => cx.rep.violation(Violation {
                key: format!("{}:{}:{}:{}", f.oracle, shape, if f.fills_done == 0 { "static" } else { "after-fill" }, root),
                what: format!("view {path}, tail-append fills {log:?}: {}", f.detail),
                replay: json!({"engine":"e2pure/C10","root":root,"view":path,"mode":"tail-append","choices":ch.choices(),"fills":log}),
            }),
            Err(p) => cx.rep.violation(Violation {
                key: format!("panic:{shape}:{}:{root}", if log.is_empty() { "static" } else { "after-fill" }),
                what: format!("view {path}, tail-append fills {log:?}: panic {p}"),
                replay: json!({"engine":"e2pure/C10","root":root,"view":path,"mode":"tail-append","choices":ch.choices(),"fills":log}),
            }),
        }
        true
    });
    cx.rep.add_states(st.executions);
}

impl<V: View> Explore<Z> for V {
    fn explore(mk: &dyn Fn() -> Self, shape: &str, path: &str, cx: &Ctx) {
        explore_here(mk, shape, path, cx);
    }
}

impl<V: View, D> Explore<S<D>> for V
where
    Slice<V>: Explore<D>,
    Uninit<V>: Explore<D>,
{
    fn explore(mk: &dyn Fn() -> Self, shape: &str, path: &str, cx: &Ctx) {
        explore_here(mk, shape, path, cx);
        let (len, cap) = {
            let mut v = mk();
            let r = (v.buf_len(), v.buf_capacity());
            v.unwrap_root().dispose();
            r
        };
        for a in 0..=len {
            // open end
            <Slice<V> as Explore<D>>::explore(&|| mk().slice(a..), &format!("{shape}.slice"), &format!("{path}.slice({a}..)"), cx);
            for e in a..=cap + 1 {
                <Slice<V> as Explore<D>>::explore(
                    &|| mk().slice(a..e),
                    &format!("{shape}.slice_to"),
                    &format!("{path}.slice({a}..{e})"),
                    cx,
                );
            }
        }
        <Uninit<V> as Explore<D>>::explore(&|| mk().uninit(), &format!("{shape}.uninit"), &format!("{path}.uninit()"), cx);
    }
}

fn roots_for<R: RootBuf + View, D>(items: &mut Vec<Box<dyn Fn(&Ctx) + Send + Sync>>, max_cap: usize)
where
    R: Explore<D>,
    D: 'static,
{
    for cap in 0..=max_cap {
        for len in 0..=cap {
            if let Some(r) = R::make(len, cap) {
                r.dispose();
                items.push(Box::new(move |cx: &Ctx| {
                    <R as Explore<D>>::explore(
                        &|| R::make(len, cap).unwrap(),
                        "root",
                        &format!("{}({len}/{cap})", R::name()),
                        cx,
                    );
                }));
            }
        }
    }
}

fn all_roots<D: 'static>(items: &mut Vec<Box<dyn Fn(&Ctx) + Send + Sync>>, max_cap: usize)
where
    Vec<u8>: Explore<D>,
    BytesMut: Explore<D>,
    Box<[u8]>: Explore<D>,
    &'static mut [u8]: Explore<D>,
    SmallVec<[u8; 2]>: Explore<D>,
    SmallVec<[u8; 4]>: Explore<D>,
    [u8; 0]: Explore<D>,
    [u8; 1]: Explore<D>,
    [u8; 2]: Explore<D>,
    [u8; 3]: Explore<D>,
    [u8; 4]: Explore<D>,
    [u8; 5]: Explore<D>,
    ArrayVec<u8, 0>: Explore<D>,
    ArrayVec<u8, 1>: Explore<D>,
    ArrayVec<u8, 2>: Explore<D>,
    ArrayVec<u8, 3>: Explore<D>,
    ArrayVec<u8, 4>: Explore<D>,
    ArrayVec<u8, 5>: Explore<D>,
{
    roots_for::<Vec<u8>, D>(items, max_cap);
    roots_for::<BytesMut, D>(items, max_cap);
    roots_for::<Box<[u8]>, D>(items, max_cap);
    roots_for::<&'static mut [u8], D>(items, max_cap);
    roots_for::<SmallVec<[u8; 2]>, D>(items, max_cap);
    roots_for::<SmallVec<[u8; 4]>, D>(items, max_cap.max(5));
    roots_for::<[u8; 0], D>(items, max_cap);
    roots_for::<[u8; 1], D>(items, max_cap);
    roots_for::<[u8; 2], D>(items, max_cap);
    roots_for::<[u8; 3], D>(items, max_cap);
    roots_for::<[u8; 4], D>(items, max_cap);
    roots_for::<[u8; 5], D>(items, max_cap);
    roots_for::<ArrayVec<u8, 0>, D>(items, max_cap);
    roots_for::<ArrayVec<u8, 1>, D>(items, max_cap);
    roots_for::<ArrayVec<u8, 2>, D>(items, max_cap);
    roots_for::<ArrayVec<u8, 3>, D>(items, max_cap);
    roots_for::<ArrayVec<u8, 4>, D>(items, max_cap);
    roots_for::<ArrayVec<u8, 5>, D>(items, max_cap);
}

// ------------------------------------------------------------------------------------------
// flatten(): Slice<Slice<T>> must denote the same bytes as the flattened slice
// ------------------------------------------------------------------------------------------

fn check_flatten(rep: &Report, max_cap: usize) {
    for cap in 0..=max_cap {
        for len in 0..=cap {
            for a in 0..=len {
                let ends1: Vec<Option<usize>> = std::iter::once(None).chain((a..=cap + 1).map(Some)).collect();
                for e1 in &ends1 {
                    let mk1 = || {
                        let v = Vec::<u8>::make(len, cap).unwrap();
                        match e1 {
                            None => v.slice(a..),
                            Some(e) => v.slice(a..*e),
                        }
                    };
                    let (l1, c1) = {
                        let mut s = mk1();
                        (s.buf_len(), s.buf_capacity())
                    };
                    for b in 0..=l1 {
                        let ends2: Vec<Option<usize>> = std::iter::once(None).chain((b..=c1 + 1).map(Some)).collect();
                        for e2 in &ends2 {
                            let mk2 = || match e2 {
                                None => mk1().slice(b..),
                                Some(e) => mk1().slice(b..*e),
                            };
                            let mut nested = mk2();
                            let mut flat = mk2().flatten();
                            let obs = |i: &[u8], u: &mut [MaybeUninit<u8>], base: usize| {
                                (i.as_ptr() as usize - base, i.len(), u.as_ptr() as usize - base, u.len())
                            };
                            let nb = nested.as_inner_mut().as_inner_mut().as_mut_ptr() as usize;
                            let fb = flat.as_inner_mut().as_mut_ptr() as usize;
                            let ni = nested.as_init().to_vec();
                            let n = {
                                let i = nested.as_init() as *const [u8];
                                obs(unsafe { &*i }, nested.as_uninit(), nb)
                            };
                            let f = {
                                let i = flat.as_init() as *const [u8];
                                obs(unsafe { &*i }, flat.as_uninit(), fb)
                            };
                            rep.add_execution(1);
                            rep.add_states(1);
                            rep.outcome(format!("flatten|{}|{}", n.1, n.3));
                            // pointers of empty slices are not compared
                            let same = n.1 == f.1 && n.3 == f.3 && (n.1 == 0 || n.0 == f.0) && (n.3 == 0 || n.2 == f.2) && ni == flat.as_init();
                            if !same {
                                rep.violation(Violation {
                                    key: "flatten-differs".into(),
                                    what: format!(
                                        "Vec({len}/{cap}).slice({a}..{e1:?}).slice({b}..{e2:?}): nested (init@{},{} uninit@{},{}) vs flatten (init@{},{} uninit@{},{})",
                                        n.0, n.1, n.2, n.3, f.0, f.1, f.2, f.3
                                    ),
                                    replay: json!({"engine":"e2pure/C10","case":"flatten","len":len,"cap":cap,"a":a,"e1":e1,"b":b,"e2":e2}),
                                });
                            }
                        }
                    }
                }
            }
        }
    }
}

pub fn run(args: Args) {
    let rep = Report::new("C10", args.tier);
    let mut items: Vec<Box<dyn Fn(&Ctx) + Send + Sync>> = Vec::new();
    let (depth, max_cap, max_fills) = match args.tier {
        Tier::Quick => (3, 3, 2),
        Tier::Thorough => (4, 6, 3),
    };
    match args.tier {
        Tier::Quick => all_roots::<S<S<S<Z>>>>(&mut items, max_cap),
        Tier::Thorough => all_roots::<S<S<S<S<Z>>>>>(&mut items, max_cap),
    }
    rep.extra("bounds", json!({"view_depth": depth, "max_capacity": max_cap, "max_fills_per_view": max_fills}));
    rep.rule("every (root kind, len<=cap<=max_capacity) x every view tree of slice(a..)/slice(a..e)/uninit() up to view_depth with all in-range parameters x every fill sequence up to max_fills_per_view of advance_to(k)/advance(k) with all admissible k; vectored containers likewise; a state = one execution prefix, distinct outcomes = (view shape, fills, final root length) classes");
    {
        let cx = Ctx { rep: &rep, max_fills };
        vcore::par_for_each(&items, |_, f| f(&cx));
        check_flatten(&rep, max_cap);
        crate::c10v::run(&rep, args.tier);
    }
    rep.assume("root buffer types' own accessors (Vec::len/capacity/as_ptr etc.) are the ground truth");
    rep.finish();
}
