//! C13 — framing and ancillary codecs: round trip and hostile-input safety.
//!
//! (i) round trip: frame lists -> real `Sink` (scripted writer: short writes / Interrupted /
//!     Pending) -> byte stream -> scripted reader cutting it at explorer-chosen fragment
//!     boundaries (all compositions for short streams, <= bound deviations otherwise, plus
//!     Pending-then-wake) -> real `Stream`; oracle: identical list, then `None`.
//! (ii) hostile input: all byte strings over a small "interesting" alphabet up to a length bound,
//!     whole and in 1-byte fragments; oracle: every poll yields an item, an error, or the end
//!     within a step horizon, never a panic (the binary is built with overflow checks; the
//!     `e2pure-wrap` twin build runs the same sweep with wrapping arithmetic).
//! (iii) ancillary builder -> iterator round trip for all short message lists x buffer sizes.
use std::{cell::Cell, rc::Rc};

use bytes::Bytes;
use compio_io::{
    ancillary::{AncillaryBuf, AncillaryIter, CodecError},
    framed::{
        Framed,
        codec::{bytes::BytesCodec, serde_json::SerdeJsonCodec},
        frame::{AnyDelimited, CharDelimited, Framer, LengthDelimited, NoopFramer},
    },
};
use futures_util::{SinkExt, StreamExt};
use vcore::{Args, Chooser, Report, Violation, json};

use crate::env::*;

type Res = Result<String, (String, String)>;

thread_local! { static NOFLUSH: Cell<u64> = const { Cell::new(0) }; }

fn fail<T>(key: impl Into<String>, detail: impl Into<String>) -> Result<T, (String, String)> {
    Err((key.into(), detail.into()))
}

/// encode `frames` through the real Sink into a byte stream
fn encode<F: Framer<Vec<u8>> + Unpin + 'static>(env: &Env, framer: F, frames: &[Vec<u8>]) -> Result<Vec<u8>, (String, String)> {
    let mut w = ScriptWriter::new(env);
    let flushed = Rc::new(Cell::new(0usize));
    w.flushed_upto = Some(flushed.clone());
    let sink_probe: Rc<std::cell::RefCell<Vec<u8>>> = Default::default();
    let mut framed = Framed::symmetric::<Bytes>(BytesCodec::new(), framer).with_writer(Probe { w, copy: sink_probe.clone() });
    for (i, f) in frames.iter().enumerate() {
        match run_polls(framed.send(Bytes::from(f.clone())), 200) {
            Some(Ok(())) => {}
            Some(Err(e)) => return fail("send-error", format!("send #{i}: {e:?}")),
            None => return fail("send-livelock", format!("send #{i} did not complete within 200 polls")),
        }
        // `send` = feed + flush: everything written so far must have been flushed to the transport
        let written = sink_probe.borrow().len();
        if flushed.get() != written {
            // Observation only (not part of C13's statement): `SinkExt::send` = feed + flush does not
            // flush the transport because `poll_flush` in state Writing returns once the write is done.
            NOFLUSH.with(|c| c.set(c.get() + 1));
        }
    }
    match run_polls(framed.close(), 200) {
        Some(Ok(())) => {}
        Some(Err(e)) => return fail("close-error", format!("{e:?}")),
        None => return fail("close-livelock", ""),
    }
    let out = sink_probe.borrow().clone();
    Ok(out)
}

/// writer wrapper that mirrors the sink so it can be observed while `Framed` owns the writer
struct Probe {
    w: ScriptWriter,
    copy: Rc<std::cell::RefCell<Vec<u8>>>,
}

impl compio_io::AsyncWrite for Probe {
    async fn write<T: compio_buf::IoBuf>(&mut self, buf: T) -> compio_buf::BufResult<usize, T> {
        let r = self.w.write(buf).await;
        *self.copy.borrow_mut() = self.w.sink.clone();
        r
    }

    async fn flush(&mut self) -> std::io::Result<()> {
        self.w.flush().await
    }

    async fn shutdown(&mut self) -> std::io::Result<()> {
        self.w.shutdown().await
    }
}

/// decode `stream` through the real Stream; fragmentation decided by the env
fn decode<F: Framer<Vec<u8>> + Unpin + 'static>(env: &Env, framer: F, stream: &[u8], horizon: usize) -> Result<Vec<Result<Vec<u8>, String>>, (String, String)> {
    let r = ScriptReader::new(env, stream);
    let mut framed = Framed::symmetric::<Bytes>(BytesCodec::new(), framer).with_reader(r);
    let mut out = Vec::new();
    for _ in 0..horizon {
        match run_polls(framed.next(), 200) {
            Some(Some(Ok(b))) => out.push(Ok(b.to_vec())),
            Some(Some(Err(e))) => {
                out.push(Err(format!("{:?}", e.kind())));
                if out.len() > horizon {
                    break;
                }
            }
            Some(None) => return Ok(out),
            None => return fail("decode-livelock", "next() did not complete within 200 polls"),
        }
    }
    fail("decode-endless", format!("stream of {} bytes produced more than {horizon} items without ending", stream.len()))
}

fn explore_case(rep: &Report, name: &str, params: &str, bound: u32, cfg: &dyn Fn(&Env), f: &dyn Fn(&Env) -> Res) {
    let st = vcore::explore(bound, 3_000_000, |ch| {
        let c = std::mem::replace(ch, Chooser::new(vec![], 0));
        let env = new_env(c, 400);
        cfg(&env);
        let r = vcore::catch(|| f(&env));
        *ch = take_chooser(&env);
        let e = env.borrow();
        rep.add_execution((e.reads.len() + e.writes.len() + 1) as u64);
        let r = match r {
            Ok(Ok(_)) if e.livelock => Err(("livelock".to_string(), "environment horizon exceeded".to_string())),
            Ok(r) => r,
            Err(p) => Err(("panic".to_string(), p)),
        };
        match r {
            Ok(sig) => {
                rep.outcome(format!("{name}|{sig}"));
                if ch.deviations >= 2 {
                    rep.sample(10, || json!({"case": name, "params": params, "reads": format!("{:?}", e.reads), "writes": format!("{:?}", e.writes)}));
                }
            }
            Err((key, detail)) => rep.violation(Violation {
                key: format!("{name}:{key}"),
                what: format!("{name}({params}) reads={:?} writes={:?}: {detail}", e.reads, e.writes),
                replay: json!({"engine":"e2pure/C13","case":name,"params":params,"choices":ch.choices()}),
            }),
        }
        true
    });
    rep.add_states(st.executions);
    if st.capped {
        rep.cap_hit(&format!("{name}({params}) capped at 3e6 executions"));
    }
}

fn roundtrip<F: Framer<Vec<u8>> + Unpin + Clone + 'static>(rep: &Report, name: &str, framer: F, frames: &[Vec<u8>], bound: u32, all_compositions: bool, class: &str) {
    let params = format!("frames={:?}", frames.iter().map(|f| if f.len() > 12 { format!("<{} bytes>", f.len()) } else { String::from_utf8_lossy(f).to_string() }).collect::<Vec<_>>());
    // 1. encode with a well-behaved writer to learn the byte stream (and the flush behaviour)
    let base_env = new_env(Chooser::new(vec![], 0), 400);
    let stream = match vcore::catch(|| encode(&base_env, framer.clone(), frames)) {
        Ok(Ok(s)) => s,
        Ok(Err((k, d))) => {
            rep.add_execution(1);
            rep.violation(Violation {
                key: format!("roundtrip[{name}]:{k}:{class}"),
                what: format!("{name} {params}: {d}"),
                replay: json!({"engine":"e2pure/C13","case":"encode","framer":name,"params":params}),
            });
            return;
        }
        Err(p) => {
            rep.add_execution(1);
            rep.violation(Violation {
                key: format!("roundtrip[{name}]:encode-panic:{class}"),
                what: format!("{name} {params}: {p}"),
                replay: json!({"engine":"e2pure/C13","case":"encode","framer":name,"params":params}),
            });
            return;
        }
    };
    // 2. the writer misbehaves (short writes, Interrupted, Pending): the stream must be the same
    let fr = framer.clone();
    let expect_stream = stream.clone();
    explore_case(
        rep,
        &format!("encode[{name}]"),
        &params,
        bound,
        &|env| {
            let mut e = env.borrow_mut();
            e.allow_err = false;
            e.allow_zero = false;
            e.allow_pending = true;
        },
        &|env| {
            let s = encode(env, fr.clone(), frames)?;
            if s != expect_stream {
                return fail("stream-differs", format!("{s:02x?} vs {expect_stream:02x?}"));
            }
            Ok(format!("{}", env.borrow().writes.len()))
        },
    );
    // 3. decode under every fragmentation
    let fr = framer.clone();
    let unlimited = all_compositions && stream.len() <= 10;
    explore_case(
        rep,
        &format!("roundtrip[{name}]"),
        &params,
        if unlimited { u32::MAX } else { bound },
        &|env| {
            let mut e = env.borrow_mut();
            e.allow_err = false;
            e.allow_zero = false;
            e.allow_interrupt = false;
            e.allow_pending = !unlimited;
            e.all_sizes = stream.len() <= 64;
        },
        &|env| {
            let got = decode(env, fr.clone(), &stream, frames.len() + 4)?;
            let want: Vec<Result<Vec<u8>, String>> = frames.iter().map(|f| Ok(f.clone())).collect();
            if got != want {
                let show = |v: &Vec<u8>| if v.len() > 12 { format!("[{} bytes]", v.len()) } else { format!("{v:02x?}") };
                let g: Vec<String> = got.iter().map(|r| r.as_ref().map(show).unwrap_or_else(|e| e.clone())).collect();
                return fail(format!("frames-differ:{class}"), format!("decoded {g:?} from a stream of {} bytes starting {:02x?}", stream.len(), &stream[..stream.len().min(12)]));
            }
            Ok(format!("{}|{}", got.len(), env.borrow().reads.len()))
        },
    );
}

fn payloads(alphabet: &[u8], max_len: usize) -> Vec<Vec<u8>> {
    let mut out = vec![vec![]];
    let mut last = vec![vec![]];
    for _ in 0..max_len {
        let mut next = Vec::new();
        for p in &last {
            for &a in alphabet {
                let mut q: Vec<u8> = p.clone();
                q.push(a);
                next.push(q);
            }
        }
        out.extend(next.iter().cloned());
        last = next;
    }
    out
}

fn lists(items: &[Vec<u8>], max_frames: usize) -> Vec<Vec<Vec<u8>>> {
    let mut out = vec![vec![]];
    let mut last: Vec<Vec<Vec<u8>>> = vec![vec![]];
    for _ in 0..max_frames {
        let mut next = Vec::new();
        for l in &last {
            for it in items {
                let mut q = l.clone();
                q.push(it.clone());
                next.push(q);
            }
        }
        out.extend(next.iter().cloned());
        last = next;
    }
    out
}

// --------------------------------------------------------------------------------------------
// hostile input
// --------------------------------------------------------------------------------------------

fn hostile<F: Framer<Vec<u8>> + Unpin + Clone + 'static>(rep: &Report, name: &str, framer: F, input: &[u8], class: &str) {
    for frag in ["whole", "bytewise"] {
        let prefix: Vec<u32> = if frag == "whole" { vec![] } else { vec![u32::MAX] };
        let env = new_env(Chooser::new(vec![], 0), 400);
        let _ = prefix;
        // bytewise: a reader that always hands out one byte
        let r = vcore::catch(|| {
            if frag == "whole" {
                decode(&env, framer.clone(), input, input.len() + 6)
            } else {
                let rd = OneByte { data: input.to_vec(), pos: 0 };
                let mut framed = Framed::symmetric::<Bytes>(BytesCodec::new(), framer.clone()).with_reader(rd);
                let mut out = Vec::new();
                for _ in 0..input.len() + 6 {
                    match run_polls(framed.next(), 50) {
                        Some(Some(Ok(b))) => out.push(Ok(b.to_vec())),
                        Some(Some(Err(e))) => out.push(Err(format!("{:?}", e.kind()))),
                        Some(None) => return Ok(out),
                        None => return fail("decode-livelock", ""),
                    }
                }
                fail("decode-endless", "more items than input bytes + 6")
            }
        });
        rep.add_execution(input.len() as u64 + 1);
        rep.add_states(1);
        let r = match r {
            Ok(r) => r,
            Err(p) => Err(("panic".to_string(), p)),
        };
        match r {
            Ok(items) => {
                // whatever was produced: payload bytes must come from the input, in order
                let total: usize = items.iter().map(|i| i.as_ref().map(|v| v.len()).unwrap_or(0)).sum();
                if total > input.len() {
                    rep.violation(Violation {
                        key: format!("hostile[{name}]:invented-bytes"),
                        what: format!("{name} input {input:02x?} ({frag}): decoded {total} payload bytes"),
                        replay: json!({"engine":"e2pure/C13","case":"hostile","framer":name,"input":input,"frag":frag}),
                    });
                }
                rep.outcome(format!("hostile[{name}]|{}|{}", items.len(), items.iter().filter(|i| i.is_err()).count()));
            }
            Err((k, d)) => rep.violation(Violation {
                key: format!("hostile[{name}]:{k}:{class}"),
                what: format!("{name} input {input:02x?} ({frag}): {d}"),
                replay: json!({"engine":"e2pure/C13","case":"hostile","framer":name,"input":input,"frag":frag}),
            }),
        }
    }
}

struct OneByte {
    data: Vec<u8>,
    pos: usize,
}

impl compio_io::AsyncRead for OneByte {
    async fn read<B: compio_buf::IoBufMut>(&mut self, mut buf: B) -> compio_buf::BufResult<usize, B> {
        use compio_buf::IoBufMutExt;
        let n = 1.min(self.data.len() - self.pos).min(buf.buf_capacity());
        fill_buf(&mut buf, &self.data[self.pos..self.pos + n]);
        self.pos += n;
        compio_buf::BufResult(Ok(n), buf)
    }
}

fn strings(alphabet: &[u8], len: usize, f: &mut dyn FnMut(&[u8])) {
    let mut idx = vec![0usize; len];
    let mut s = vec![alphabet[0]; len];
    loop {
        for i in 0..len {
            s[i] = alphabet[idx[i]];
        }
        f(&s);
        let mut i = 0;
        loop {
            if i == len {
                return;
            }
            idx[i] += 1;
            if idx[i] < alphabet.len() {
                break;
            }
            idx[i] = 0;
            i += 1;
        }
    }
}

// --------------------------------------------------------------------------------------------
// ancillary
// --------------------------------------------------------------------------------------------

#[derive(Clone, Copy, Debug, PartialEq)]
enum Msg {
    Unit,
    U8(u8),
    U32(u32),
    B16([u8; 16]),
    B20([u8; 20]),
}

impl Msg {
    fn size(&self) -> usize {
        match self {
            Msg::Unit => 0,
            Msg::U8(_) => 1,
            Msg::U32(_) => 4,
            Msg::B16(_) => 16,
            Msg::B20(_) => 20,
        }
    }
}

fn anc_case<const N: usize>(rep: &Report, list: &[Msg]) {
    let r: Result<Res, String> = vcore::catch(|| {
        let mut buf = AncillaryBuf::<N>::new();
        let mut pushed = 0usize;
        let mut space = 0usize;
        {
            let mut b = buf.builder();
            for (i, m) in list.iter().enumerate() {
                let lvl = 10 + i as i32;
                let ty = 20 + i as i32;
                let r = match m {
                    Msg::Unit => b.push(lvl, ty, &()),
                    Msg::U8(v) => b.push(lvl, ty, v),
                    Msg::U32(v) => b.push(lvl, ty, v),
                    Msg::B16(v) => b.push(lvl, ty, v),
                    Msg::B20(v) => b.push(lvl, ty, v),
                };
                let need = unsafe { libc::CMSG_SPACE(m.size() as u32) } as usize;
                match r {
                    Ok(()) => {
                        if space + need > N {
                            return fail("accepted-beyond-buffer", format!("message {i} ({m:?}) accepted although {space}+{need} > {N}"));
                        }
                        space += need;
                        pushed += 1;
                    }
                    Err(CodecError::BufferTooSmall) => {
                        if space + need <= N {
                            return fail("rejected-although-fits", format!("message {i} ({m:?}) rejected although {space}+{need} <= {N}"));
                        }
                        break;
                    }
                    Err(e) => return fail("push-error", format!("{e:?}")),
                }
            }
        }
        use compio_buf::IoBufExt;
        if buf.buf_len() != space {
            return fail("builder-length", format!("buffer length {} after pushing {space} bytes of messages", buf.buf_len()));
        }
        if pushed > 0 {
            let it = unsafe { AncillaryIter::new(&buf) };
            let mut n = 0;
            for (i, c) in it.enumerate() {
                if i >= pushed {
                    return fail("extra-message", format!("iterator yields more than the {pushed} pushed messages"));
                }
                let m = list[i];
                let ok = c.level() == 10 + i as i32
                    && c.ty() == 20 + i as i32
                    && match m {
                        Msg::Unit => c.data::<()>().is_ok(),
                        Msg::U8(v) => c.data::<u8>().ok() == Some(v),
                        Msg::U32(v) => c.data::<u32>().ok() == Some(v),
                        Msg::B16(v) => c.data::<[u8; 16]>().ok() == Some(v),
                        Msg::B20(v) => c.data::<[u8; 20]>().ok() == Some(v),
                    };
                if !ok {
                    return fail("message-differs", format!("message {i}: level {} type {} len {}", c.level(), c.ty(), c.len()));
                }
                // a typed read that needs more bytes than the message carries must be refused: the
                // bytes behind the payload belong to padding, to the next message, or lie outside
                // the buffer
                let sz = m.size();
                let too_big = [
                    (1usize, c.data::<u8>().is_ok()),
                    (4, c.data::<u32>().is_ok()),
                    (16, c.data::<[u8; 16]>().is_ok()),
                    (20, c.data::<[u8; 20]>().is_ok()),
                    (64, c.data::<[u8; 64]>().is_ok()),
                ];
                for (want, ok) in too_big {
                    if want > sz && ok {
                        let pos = if i + 1 == pushed { "last-message" } else { "inner-message" };
                        return fail(format!("read-beyond-payload:{pos}"), format!("message {i} carries {sz} bytes of data, yet data::<{want}-byte type>() returned Ok (it read {} bytes behind the payload)", want - sz));
                    }
                }
                n += 1;
            }
            if n != pushed {
                return fail("missing-message", format!("iterator yields {n} of {pushed} messages"));
            }
        }
        Ok(format!("{pushed}/{}", list.len()))
    });
    rep.add_execution(list.len() as u64 + 1);
    rep.add_states(1);
    let r = match r {
        Ok(r) => r,
        Err(p) => Err(("panic".into(), p)),
    };
    match r {
        Ok(sig) => rep.outcome(format!("ancillary|{N}|{sig}")),
        Err((k, d)) => rep.violation(Violation {
            key: format!("ancillary:{k}"),
            what: format!("AncillaryBuf<{N}> list {list:?}: {d}"),
            replay: json!({"engine":"e2pure/C13","case":"ancillary","N":N,"list":format!("{list:?}")}),
        }),
    }
}

fn ancillary(rep: &Report) {
    let kinds = [Msg::Unit, Msg::U8(0xA5), Msg::U32(0xDEADBEEF), Msg::B16([7; 16]), Msg::B20([9; 20])];
    let mut lists: Vec<Vec<Msg>> = vec![vec![]];
    let mut last: Vec<Vec<Msg>> = vec![vec![]];
    for _ in 0..3 {
        let mut next = Vec::new();
        for l in &last {
            for k in kinds {
                let mut q = l.clone();
                q.push(k);
                next.push(q);
            }
        }
        lists.extend(next.iter().cloned());
        last = next;
    }
    for l in &lists {
        anc_case::<16>(rep, l);
        anc_case::<17>(rep, l);
        anc_case::<23>(rep, l);
        anc_case::<24>(rep, l);
        anc_case::<31>(rep, l);
        anc_case::<32>(rep, l);
        anc_case::<40>(rep, l);
        anc_case::<47>(rep, l);
        anc_case::<48>(rep, l);
        anc_case::<56>(rep, l);
        anc_case::<63>(rep, l);
        anc_case::<64>(rep, l);
        anc_case::<72>(rep, l);
        anc_case::<80>(rep, l);
        anc_case::<88>(rep, l);
        anc_case::<96>(rep, l);
        anc_case::<104>(rep, l);
        anc_case::<120>(rep, l);
        anc_case::<128>(rep, l);
    }
}

// --------------------------------------------------------------------------------------------

#[derive(serde::Serialize, serde::Deserialize, Debug, PartialEq, Clone)]
struct Doc {
    s: String,
    n: u32,
}

fn json_roundtrip(rep: &Report, bound: u32) {
    // serde_json codec through LengthDelimited and LineDelimited, short lists, bounded fragmentation
    let docs = [Doc { s: "".into(), n: 0 }, Doc { s: "a b".into(), n: 7 }, Doc { s: "x".into(), n: u32::MAX }];
    for n in 0..=2usize {
        let list: Vec<Doc> = docs.iter().take(n + 1).cloned().collect();
        let l2 = list.clone();
        explore_case(
            rep,
            "json[LengthDelimited]",
            &format!("{n}"),
            bound,
            &|env| {
                let mut e = env.borrow_mut();
                e.allow_err = false;
                e.allow_zero = false;
                e.allow_interrupt = false;
                e.allow_pending = true;
            },
            &move |env| {
                let w = ScriptWriter::new(&new_env(Chooser::new(vec![], 0), 400));
                let copy: Rc<std::cell::RefCell<Vec<u8>>> = Default::default();
                let mut fw = Framed::symmetric::<Doc>(SerdeJsonCodec::new(), LengthDelimited::new()).with_writer(Probe { w, copy: copy.clone() });
                for d in &l2 {
                    if !matches!(run_polls(fw.send(d.clone()), 100), Some(Ok(()))) {
                        return fail("send", "");
                    }
                }
                let stream = copy.borrow().clone();
                let r = ScriptReader::new(env, &stream);
                let mut fr = Framed::symmetric::<Doc>(SerdeJsonCodec::new(), LengthDelimited::new()).with_reader(r);
                let mut got = Vec::new();
                loop {
                    match run_polls(fr.next(), 100) {
                        Some(Some(Ok(d))) => got.push(d),
                        Some(Some(Err(e))) => return fail("decode-error", format!("{e:?}")),
                        Some(None) => break,
                        None => return fail("livelock", ""),
                    }
                    if got.len() > 5 {
                        return fail("endless", "");
                    }
                }
                if got != l2 {
                    return fail("frames-differ", format!("{got:?}"));
                }
                Ok(format!("{}", got.len()))
            },
        );
    }
}

/// Well-framed payloads that the codec rejects ("frames or errors, never a panic; nothing
/// dropped"): every frame yields exactly one item -- the document or a decode error -- in order,
/// and the frames behind an undecodable one are still delivered.
fn json_undecodable(rep: &Report, bound: u32) {
    let good = [Doc { s: "a".into(), n: 1 }, Doc { s: "".into(), n: 2 }];
    let raw: Vec<(Vec<u8>, Option<Doc>)> = vec![
        (serde_json::to_vec(&good[0]).unwrap(), Some(good[0].clone())),
        (serde_json::to_vec(&good[1]).unwrap(), Some(good[1].clone())),
        (b"{".to_vec(), None),
        (b"".to_vec(), None),
        (b"[1]".to_vec(), None),
    ];
    let mut lists: Vec<Vec<usize>> = Vec::new();
    for a in 0..raw.len() {
        lists.push(vec![a]);
        for b in 0..raw.len() {
            lists.push(vec![a, b]);
            for c in 0..2 {
                lists.push(vec![a, b, c]);
            }
        }
    }
    for l in lists.into_iter().filter(|l| l.iter().any(|i| raw[*i].1.is_none())) {
        for line in [false, true] {
            let frames: Vec<Vec<u8>> = l.iter().map(|i| raw[*i].0.clone()).collect();
            let want: Vec<Option<Doc>> = l.iter().map(|i| raw[*i].1.clone()).collect();
            let name = if line { "json-undecodable[CharDelimited]" } else { "json-undecodable[LengthDelimited]" };
            explore_case(
                rep,
                name,
                &format!("{l:?}"),
                bound.min(2),
                &|env| {
                    let mut e = env.borrow_mut();
                    e.allow_err = false;
                    e.allow_zero = false;
                    e.allow_interrupt = false;
                    e.allow_pending = true;
                },
                &|env| {
                    let quiet = new_env(Chooser::new(vec![], 0), 400);
                    let stream = if line { encode(&quiet, CharDelimited::<'\n'>::new(), &frames)? } else { encode(&quiet, LengthDelimited::new(), &frames)? };
                    let r = ScriptReader::new(env, &stream);
                    let mut got: Vec<Option<Doc>> = Vec::new();
                    macro_rules! drain {
                        ($fr:expr) => {{
                            let mut fr = $fr;
                            loop {
                                match run_polls(fr.next(), 100) {
                                    Some(Some(Ok(d))) => got.push(Some(d)),
                                    Some(Some(Err(_))) => got.push(None),
                                    Some(None) => break,
                                    None => return fail("livelock", ""),
                                }
                                if got.len() > want.len() + 2 {
                                    return fail("endless", format!("{got:?}"));
                                }
                            }
                        }};
                    }
                    if line {
                        drain!(Framed::symmetric::<Doc>(SerdeJsonCodec::new(), CharDelimited::<'\n'>::new()).with_reader(r));
                    } else {
                        drain!(Framed::symmetric::<Doc>(SerdeJsonCodec::new(), LengthDelimited::new()).with_reader(r));
                    }
                    if got != want {
                        let show = |v: &Vec<Option<Doc>>| v.iter().map(|d| if d.is_some() { "doc" } else { "error" }).collect::<Vec<_>>().join(",");
                        return fail("items-differ:after-undecodable-frame", format!("got [{}], one item per frame expected: [{}]", show(&got), show(&want)));
                    }
                    Ok(format!("{}", got.iter().filter(|d| d.is_none()).count()))
                },
            );
        }
    }
}

pub fn run(args: Args) {
    let rep = Report::new("C13", args.tier);
    let t = args.tier;
    let bound: u32 = t.pick(2, 3);
    let mut items: Vec<Box<dyn Fn(&Report) + Send + Sync>> = Vec::new();

    // (i) round trips
    let full = lists(&payloads(b"ab", t.pick(2, 3)), t.pick(2, 3));
    let lens_only = lists(&payloads(b"a", 3), 3);
    macro_rules! framer_items {
        ($name:expr, $mk:expr) => {{
            for l in full.iter().cloned() {
                items.push(Box::new(move |rep: &Report| roundtrip(rep, $name, $mk, &l, bound, false, "small-payloads")));
            }
            for l in lens_only.iter().cloned() {
                items.push(Box::new(move |rep: &Report| roundtrip(rep, $name, $mk, &l, bound, true, "small-payloads")));
            }
        }};
    }
    for lfl in 1..=8usize {
        for be in [true, false] {
            let name: &'static str = Box::leak(format!("LengthDelimited(lfl={lfl},{})", if be { "be" } else { "le" }).into_boxed_str());
            framer_items!(name, LengthDelimited::new().set_length_field_len(lfl).set_length_field_is_big_endian(be));
        }
    }
    framer_items!("CharDelimited<\\n>", CharDelimited::<'\n'>::new());
    framer_items!("AnyDelimited(|)", AnyDelimited::new(b"|"));
    // multi-byte delimiters: the payload alphabet contains the delimiter's own bytes (false
    // candidates); payloads in which the delimiter would match early are excluded (inherent
    // ambiguity of delimiter framing, not a defect)
    macro_rules! delim_items {
        ($name:expr, $mk:expr, $d:expr) => {{
            let d: &'static [u8] = $d;
            let mut alpha = vec![b'a'];
            alpha.extend_from_slice(d);
            alpha.dedup();
            let ok = |p: &Vec<u8>| {
                let mut s = p.clone();
                s.extend_from_slice(d);
                s.windows(d.len()).position(|w| w == d) == Some(p.len())
            };
            let pl: Vec<Vec<u8>> = payloads(&alpha, t.pick(3, 4)).into_iter().filter(ok).collect();
            for l in lists(&pl, 2) {
                items.push(Box::new(move |rep: &Report| roundtrip(rep, $name, $mk, &l, bound.min(2), false, "delimiter-bytes-in-payload")));
            }
            for l in lens_only.iter().cloned() {
                items.push(Box::new(move |rep: &Report| roundtrip(rep, $name, $mk, &l, bound, true, "small-payloads")));
            }
        }};
    }
    delim_items!("CharDelimited<ℝ>", CharDelimited::<'ℝ'>::new(), "ℝ".as_bytes());
    delim_items!("AnyDelimited(\\r\\n)", AnyDelimited::new(b"\r\n"), b"\r\n");
    delim_items!("AnyDelimited(xyz)", AnyDelimited::new(b"xyz"), b"xyz");
    // payload whose length does not fit the length field
    for (lfl, n) in [(1usize, 255usize), (1, 256), (1, 257), (2, 65535), (2, 65536)] {
        items.push(Box::new(move |rep: &Report| {
            let class = if n >= 1 << (8 * lfl) { "payload-length-exceeds-length-field" } else { "payload-length-fits" };
            roundtrip(rep, "LengthDelimited(large)", LengthDelimited::new().set_length_field_len(lfl), &[vec![b'x'; n], b"y".to_vec()], 1, false, class);
        }));
    }
    // NoopFramer: not message-preserving by design (documented): only stream concatenation is checked
    items.push(Box::new(move |rep: &Report| {
        for l in lists(&payloads(b"ab", 2), 2) {
            let want: Vec<u8> = l.iter().flatten().copied().collect();
            let l2 = l.clone();
            explore_case(
                rep,
                "noop-concat",
                &format!("{l:?}"),
                bound,
                &|env| {
                    let mut e = env.borrow_mut();
                    e.allow_err = false;
                    e.allow_zero = false;
                    e.allow_interrupt = false;
                    e.allow_pending = true;
                    e.all_sizes = true;
                },
                &|env| {
                    let stream = encode(&new_env(Chooser::new(vec![], 0), 400), NoopFramer::new(), &l2.iter().filter(|f| !f.is_empty()).cloned().collect::<Vec<_>>())?;
                    let got = decode(env, NoopFramer::new(), &stream, stream.len() + 4)?;
                    let flat: Vec<u8> = got.iter().flat_map(|r| r.clone().unwrap_or_default()).collect();
                    if flat != want {
                        return fail("bytes-differ", format!("{flat:02x?}"));
                    }
                    Ok(format!("{}", got.len()))
                },
            );
        }
    }));
    items.push(Box::new(move |rep: &Report| json_roundtrip(rep, bound)));
    items.push(Box::new(move |rep: &Report| json_undecodable(rep, bound)));

    // (ii) hostile input
    let alpha6: &'static [u8] = &[0x00, 0x01, 0x7f, 0x80, 0xff, b'\n'];
    let alpha4: &'static [u8] = &[0x00, 0x01, 0x80, 0xff];
    for lfl in 1..=8usize {
        for be in [true, false] {
            items.push(Box::new(move |rep: &Report| {
                let name = format!("LengthDelimited(lfl={lfl},{})", if be { "be" } else { "le" });
                let fr = LengthDelimited::new().set_length_field_len(lfl).set_length_field_is_big_endian(be);
                let class = if lfl == 8 { "8-byte-length-field" } else { "short-length-field" };
                if lfl <= 3 {
                    for len in 0..=lfl + 2 {
                        strings(alpha6, len, &mut |s| hostile(rep, &name, fr, s, class));
                    }
                } else {
                    for len in [lfl - 1, lfl, lfl + 1] {
                        if len <= 7 || t == vcore::Tier::Thorough || len == lfl {
                            strings(alpha4, len, &mut |s| hostile(rep, &name, fr, s, class));
                        }
                    }
                }
            }));
        }
    }
    items.push(Box::new(move |rep: &Report| {
        for len in 0..=t.pick(4, 5) {
            strings(alpha6, len, &mut |s| {
                hostile(rep, "CharDelimited<\\n>", CharDelimited::<'\n'>::new(), s, "");
                hostile(rep, "AnyDelimited(\\xff\\n)", AnyDelimited::new(b"\xff\n"), s, "");
                hostile(rep, "NoopFramer", NoopFramer::new(), s, "");
            });
        }
    }));
    // (iii) ancillary
    items.push(Box::new(ancillary));

    vcore::par_for_each(&items, |_, f| {
        f(&rep);
        rep.count("observation_send_returned_before_transport_flush", NOFLUSH.with(|c| c.replace(0)));
    });
    rep.extra(
        "bounds",
        json!({"max_deviations": bound, "frames_per_list": t.pick(2, 3), "payload_len_max": t.pick(2, 3), "all_compositions_for_streams_up_to": 10,
               "hostile_alphabet": format!("{alpha6:02x?} (len<=lfl+2) / {alpha4:02x?} (lfl>=4)"), "ancillary_lists_up_to": 3}),
    );
    rep.rule("round trip: every frame list x framer config through the real Sink and Stream, fragment boundaries chosen exhaustively (all compositions for streams <= 10 bytes, else <= max_deviations deviations incl. Pending-then-wake); hostile: every string over the alphabet up to the length bound, whole and bytewise; ancillary: every list of <= 3 messages x 19 buffer sizes");
    rep.assume("AncillaryIter is only fed buffers produced by the builder (its constructor is unsafe and requires valid control data)");
    rep.finish();
}
