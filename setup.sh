#!/bin/bash
# builds every engine from files on disk (offline)
set -eu
cd "$(dirname "$0")"
export CARGO_NET_OFFLINE=true
mkdir -p logs evidence replays
CARGO_TARGET_DIR=.target/plain cargo build --release --offline -p e2pure -p e_c08 -p e_c09 -p e_c20 -p e_c06 -p e_c05 -p e_c17 -p e_c18 -p e_c07 -p e_c14 -p e_c15 -p e_c16
RUSTC_BOOTSTRAP=1 CARGO_TARGET_DIR=.target/pidfd cargo build --release --offline -p e_c20 --features pidfd || true
CARGO_TARGET_DIR=.target/loom RUSTFLAGS="--cfg loom" cargo build --release --offline -p e3loom
CARGO_TARGET_DIR=.target/hooks RUSTFLAGS="--cfg compio_verif" cargo build --release --offline -p e_c03 -p e_c01
