//! Executes one step sequence on a fresh real compio runtime + real kernel objects and judges it.
//!
//! Ownership of nondeterminism: every peer end is a raw non-blocking descriptor operated by the
//! harness thread itself; completions are reaped only with zero-timeout polls; futures are polled
//! by hand with a flag waker.  The only real-time steps are the 3 ms sleep of the timeout route and
//! the grace sleep before the final verdict.

use std::{
    cell::{Cell, RefCell},
    future::Future,
    io,
    mem::MaybeUninit,
    os::fd::{AsFd, AsRawFd, BorrowedFd, FromRawFd, OwnedFd, RawFd},
    pin::Pin,
    rc::Rc,
    sync::{
        Arc,
        atomic::{AtomicBool, AtomicU64, Ordering},
    },
    task::{Context, Poll, Wake, Waker},
    time::Duration,
};

use compio_buf::{BufResult, IntoInner, IoBuf, IoBufMut, SetLen};
use compio_driver::{
    BufferRef, DriverType, ErrorExt, OpCode, ProactorBuilder,
    op::{Accept, Connect, Interest, PollOnce, Read, Recv, RecvFlags, RecvMulti},
};
use compio_runtime::{CancelToken, FutureExt, Runtime, RuntimeBuilder, StreamExt as CompioStreamExt, Submit, SubmitMultiStream};
use futures_util::{Stream, StreamExt as _};

use crate::model::{FdKind, Nest, OpKind, Scenario, Step};

pub const CAP: usize = 2;
pub const BURST: usize = 3;
const CANARY: u8 = 0;
const MAX_ROUNDS: usize = 64;
/// consecutive harvest rounds without any observable change that count as quiescence; the
/// polling driver is synchronous to the harness thread (a cancel's entry is in its completion
/// channel before `cancel` returns), io_uring may post a cancelled request's CQE one enter later
fn quiet_rounds(d: DriverType) -> usize {
    if d == DriverType::Poll { 2 } else { 3 }
}

// ---------------------------------------------------------------------------------------------
// instrumented resources
// ---------------------------------------------------------------------------------------------

#[derive(Default)]
pub struct Probe {
    fd_live: Cell<bool>,
    buf_live: Cell<bool>,
    /// whole buffer as it was when compio dropped it without handing it back
    swallowed: RefCell<Option<Vec<u8>>>,
}

impl Probe {
    fn released(&self) -> bool {
        !self.fd_live.get() && !self.buf_live.get()
    }
}

thread_local! {
    /// buffers dropped inside compio: (the block itself, kept alive; its bytes at drop time)
    static QUARANTINE: RefCell<Vec<(Vec<u8>, Vec<u8>)>> = const { RefCell::new(Vec::new()) };
}

/// Heap block with a canary in every byte; logs its release and is quarantined instead of freed
/// when it is dropped anywhere but in the harness.
pub struct TrackedBuf {
    v: Vec<u8>,
    probe: Rc<Probe>,
    returned: bool,
}

impl TrackedBuf {
    fn new(cap: usize, probe: Rc<Probe>) -> Self {
        let mut v = vec![CANARY; cap];
        v.truncate(0);
        assert_eq!(v.capacity(), cap);
        probe.buf_live.set(true);
        Self { v, probe, returned: false }
    }

    fn snapshot(&self) -> Vec<u8> {
        // SAFETY: every byte of the capacity was initialised by `new`
        unsafe { std::slice::from_raw_parts(self.v.as_ptr(), self.v.capacity()) }.to_vec()
    }

    /// the harness takes the buffer back (normal result path)
    fn into_snapshot(mut self) -> Vec<u8> {
        self.returned = true;
        self.snapshot()
    }
}

impl Drop for TrackedBuf {
    fn drop(&mut self) {
        self.probe.buf_live.set(false);
        if !self.returned {
            let snap = self.snapshot();
            *self.probe.swallowed.borrow_mut() = Some(snap.clone());
            let block = std::mem::take(&mut self.v);
            QUARANTINE.with(|q| q.borrow_mut().push((block, snap)));
        }
    }
}

impl IoBuf for TrackedBuf {
    fn as_init(&self) -> &[u8] {
        &self.v
    }
}

impl SetLen for TrackedBuf {
    unsafe fn set_len(&mut self, len: usize) {
        unsafe { self.v.set_len(len) }
    }
}

impl IoBufMut for TrackedBuf {
    fn as_uninit(&mut self) -> &mut [MaybeUninit<u8>] {
        let cap = self.v.capacity();
        // SAFETY: the block is valid for `capacity` bytes
        unsafe { std::slice::from_raw_parts_mut(self.v.as_mut_ptr() as *mut MaybeUninit<u8>, cap) }
    }
}

/// Descriptor handle given to an operation; logs when the operation's storage lets go of it.
pub struct OpFd {
    fd: Rc<OwnedFd>,
    probe: Rc<Probe>,
}

impl OpFd {
    fn new(fd: &Rc<OwnedFd>, probe: &Rc<Probe>) -> Self {
        probe.fd_live.set(true);
        Self { fd: fd.clone(), probe: probe.clone() }
    }
}

impl Drop for OpFd {
    fn drop(&mut self) {
        self.probe.fd_live.set(false);
    }
}

impl AsFd for OpFd {
    fn as_fd(&self) -> BorrowedFd<'_> {
        self.fd.as_fd()
    }
}

pub struct Flag(pub AtomicBool);

impl Wake for Flag {
    fn wake(self: Arc<Self>) {
        self.0.store(true, Ordering::SeqCst);
    }

    fn wake_by_ref(self: &Arc<Self>) {
        self.0.store(true, Ordering::SeqCst);
    }
}

// ---------------------------------------------------------------------------------------------
// raw descriptor helpers (harness side)
// ---------------------------------------------------------------------------------------------

fn machinery(msg: String) -> ! {
    vcore::machinery_error(&msg)
}

fn cvt(r: libc::c_int, what: &str) -> libc::c_int {
    if r < 0 {
        machinery(format!("harness syscall {what} failed: {}", io::Error::last_os_error()));
    }
    r
}

fn socketpair() -> (OwnedFd, OwnedFd) {
    let mut fds = [0; 2];
    cvt(
        unsafe {
            libc::socketpair(
                libc::AF_UNIX,
                libc::SOCK_STREAM | libc::SOCK_NONBLOCK | libc::SOCK_CLOEXEC,
                0,
                fds.as_mut_ptr(),
            )
        },
        "socketpair",
    );
    unsafe { (OwnedFd::from_raw_fd(fds[0]), OwnedFd::from_raw_fd(fds[1])) }
}

fn pipe() -> (OwnedFd, OwnedFd) {
    let mut fds = [0; 2];
    cvt(unsafe { libc::pipe2(fds.as_mut_ptr(), libc::O_NONBLOCK | libc::O_CLOEXEC) }, "pipe2");
    unsafe { (OwnedFd::from_raw_fd(fds[0]), OwnedFd::from_raw_fd(fds[1])) }
}

static UNIQ: AtomicU64 = AtomicU64::new(0);

fn abstract_addr() -> (libc::sockaddr_un, libc::socklen_t) {
    let name = format!("c05-{}-{}", std::process::id(), UNIQ.fetch_add(1, Ordering::Relaxed));
    let mut a: libc::sockaddr_un = unsafe { std::mem::zeroed() };
    a.sun_family = libc::AF_UNIX as _;
    for (i, b) in name.bytes().enumerate() {
        a.sun_path[i + 1] = b as _;
    }
    let len = std::mem::offset_of!(libc::sockaddr_un, sun_path) + 1 + name.len();
    (a, len as _)
}

fn unix_listener() -> (OwnedFd, libc::sockaddr_un, libc::socklen_t) {
    let fd = cvt(
        unsafe { libc::socket(libc::AF_UNIX, libc::SOCK_STREAM | libc::SOCK_NONBLOCK | libc::SOCK_CLOEXEC, 0) },
        "socket",
    );
    let fd = unsafe { OwnedFd::from_raw_fd(fd) };
    let (a, len) = abstract_addr();
    cvt(unsafe { libc::bind(fd.as_raw_fd(), &a as *const _ as *const libc::sockaddr, len) }, "bind");
    cvt(unsafe { libc::listen(fd.as_raw_fd(), 16) }, "listen");
    (fd, a, len)
}

fn unix_client(a: &libc::sockaddr_un, len: libc::socklen_t, tag: u8) -> OwnedFd {
    let fd = cvt(
        unsafe { libc::socket(libc::AF_UNIX, libc::SOCK_STREAM | libc::SOCK_NONBLOCK | libc::SOCK_CLOEXEC, 0) },
        "socket",
    );
    let fd = unsafe { OwnedFd::from_raw_fd(fd) };
    cvt(unsafe { libc::connect(fd.as_raw_fd(), a as *const _ as *const libc::sockaddr, len) }, "connect(client)");
    write_all(fd.as_raw_fd(), &[tag]);
    fd
}

fn write_all(fd: RawFd, data: &[u8]) {
    let n = unsafe { libc::write(fd, data.as_ptr() as *const _, data.len()) };
    if n != data.len() as isize {
        machinery(format!("harness write returned {n} ({})", io::Error::last_os_error()));
    }
}

/// non-blocking read of everything that is available right now
fn drain(fd: RawFd) -> Vec<u8> {
    let mut out = Vec::new();
    loop {
        let mut b = [0u8; 64];
        let n = unsafe { libc::recv(fd, b.as_mut_ptr() as *mut _, b.len(), libc::MSG_DONTWAIT) };
        if n > 0 {
            out.extend_from_slice(&b[..n as usize]);
            continue;
        }
        if n < 0 && io::Error::last_os_error().raw_os_error() == Some(libc::ENOTSOCK) {
            let n = unsafe { libc::read(fd, b.as_mut_ptr() as *mut _, b.len()) };
            if n > 0 {
                out.extend_from_slice(&b[..n as usize]);
                continue;
            }
        }
        return out;
    }
}

/// bytes waiting in the descriptor (non-destructive)
fn inq(fd: RawFd) -> usize {
    let mut n: libc::c_int = 0;
    cvt(unsafe { libc::ioctl(fd, libc::FIONREAD, &mut n) }, "ioctl(FIONREAD)");
    n as usize
}

fn readable(fd: RawFd) -> bool {
    let mut p = libc::pollfd { fd, events: libc::POLLIN, revents: 0 };
    let n = unsafe { libc::poll(&mut p, 1, 0) };
    n > 0 && (p.revents & libc::POLLIN) != 0
}

thread_local! {
    /// loopback listener with backlog 0 whose accept queue is kept full by one never-accepted
    /// connection: every further SYN is dropped, a connect to it stays in progress
    static BLACKHOLE: (socket2::Socket, socket2::Socket, socket2::SockAddr) = {
        use socket2::{Domain, Socket, Type};
        let l = Socket::new(Domain::IPV4, Type::STREAM, None).unwrap_or_else(|e| machinery(format!("tcp socket: {e}")));
        l.bind(&"127.0.0.1:0".parse::<std::net::SocketAddr>().unwrap().into())
            .unwrap_or_else(|e| machinery(format!("tcp bind: {e}")));
        l.listen(0).unwrap_or_else(|e| machinery(format!("tcp listen: {e}")));
        let addr = l.local_addr().unwrap();
        let filler = Socket::new(Domain::IPV4, Type::STREAM, None).unwrap();
        filler.set_nonblocking(true).unwrap();
        let _ = filler.connect(&addr);
        // loopback: the handshake of the filler completes inside connect(); make sure
        let mut p = libc::pollfd { fd: filler.as_raw_fd(), events: libc::POLLOUT, revents: 0 };
        let n = unsafe { libc::poll(&mut p, 1, 1000) };
        if n != 1 || filler.take_error().ok().flatten().is_some() {
            machinery("blackhole filler connection did not establish".into());
        }
        (l, filler, addr)
    };
}

fn blackhole_socket() -> (OwnedFd, socket2::SockAddr) {
    use socket2::{Domain, Socket, Type};
    let addr = BLACKHOLE.with(|b| b.2.clone());
    let s = Socket::new(Domain::IPV4, Type::STREAM, None).unwrap_or_else(|e| machinery(format!("tcp socket: {e}")));
    s.set_nonblocking(true).unwrap();
    (OwnedFd::from(s), addr)
}

// ---------------------------------------------------------------------------------------------
// execution state
// ---------------------------------------------------------------------------------------------

pub enum OpOut {
    /// (result, buffer snapshot)
    Data(io::Result<usize>, Vec<u8>),
    Accepted(io::Result<usize>, Option<OwnedFd>),
    Unit(io::Result<usize>),
    /// the stream returned `None`; its items were logged on the way
    StreamEnd,
}

pub enum Fin {
    Out(OpOut),
    Elapsed,
    /// `with_cancel(t).fail_fast()` answered `Err(Cancelled)`
    FailFast,
    /// the `JoinHandle` of the task the operation lives in returned an error
    TaskGone(String),
}

/// what a stream handed to its consumer
pub enum SItem {
    Data(Vec<u8>),
    Err(io::Error),
}

type ItemStream = Pin<Box<dyn Stream<Item = io::Result<BufferRef>>>>;

type OpFut = Pin<Box<dyn Future<Output = Fin>>>;

enum FdEnv {
    Stream {
        mine: Rc<OwnedFd>,
        peer: OwnedFd,
        written: Vec<u8>,
        /// stream lengths after each harness write
        boundaries: Vec<usize>,
    },
    Listener {
        mine: Rc<OwnedFd>,
        addr: libc::sockaddr_un,
        len: libc::socklen_t,
        clients: Vec<OwnedFd>,
        claimed: Vec<bool>,
    },
    Blackhole {
        mine: Rc<OwnedFd>,
        addr: socket2::SockAddr,
    },
}

impl FdEnv {
    fn mine(&self) -> &Rc<OwnedFd> {
        match self {
            FdEnv::Stream { mine, .. } | FdEnv::Listener { mine, .. } | FdEnv::Blackhole { mine, .. } => mine,
        }
    }
}

struct OpRun {
    probe: Rc<Probe>,
    flag: Arc<Flag>,
    waker: Waker,
    fut: Option<OpFut>,
    submitted: bool,
    /// short result class once the future returned
    result: Option<String>,
    /// cancellation routes applied while no result was known (model: op is "cancelled")
    routes: Vec<&'static str>,
    timeout_wrapped: bool,
    readable_at_submit: bool,
    ready_after_submit: u32,
    dropped_unfinished: bool,
    /// streams: items the consumer loop received and the oracle has not looked at yet
    slog: Rc<RefCell<Vec<SItem>>>,
    /// streams: bytes / error items delivered so far
    sbytes: usize,
    serrs: usize,
}

pub struct Vio {
    pub key: String,
    pub what: String,
}

pub struct Config {
    pub driver: DriverType,
    pub grace: Duration,
    pub verbose: bool,
    /// the token canary failed in this build: tag token-route violations
    pub token_invisible: bool,
}

pub struct ExecResult {
    /// the scheduler disturbed the only real-time step (see `World::timeout`): repeat
    pub disturbed: bool,
    pub vios: Vec<Vio>,
    pub outcome: String,
    pub transitions: u64,
    pub reached: Vec<&'static str>,
}

pub fn driver_name(d: DriverType) -> &'static str {
    match d {
        DriverType::Poll => "poll",
        DriverType::IoUring => "iour",
        _ => "other",
    }
}

struct Chunk {
    op: usize,
    start: usize,
    len: usize,
    cap_filled: bool,
    how: &'static str,
}

struct World<'a> {
    sc: &'a Scenario,
    cfg: &'a Config,
    rt: &'a Runtime,
    fds: Vec<FdEnv>,
    ops: Vec<OpRun>,
    tokens: Vec<CancelToken>,
    fired: Vec<bool>,
    next: usize,
    chunks: Vec<Vec<Chunk>>,
    vios: Vec<Vio>,
    reached: Vec<&'static str>,
    transitions: u64,
    history: Vec<String>,
    disturbed: bool,
}

fn errclass(e: &io::Error) -> String {
    match e.raw_os_error() {
        Some(libc::ECANCELED) => "ECANCELED".into(),
        Some(n) => format!("errno{n}"),
        None => format!("{:?}", e.kind()),
    }
}

impl<'a> World<'a> {
    fn vio(&mut self, oracle: &str, op: Option<usize>, detail: String) {
        let (kind, routes) = match op {
            Some(i) => (
                self.sc.ops[i].key_name(),
                if self.ops[i].routes.is_empty() { "none".to_string() } else { self.ops[i].routes.join("+") },
            ),
            None => ("-".to_string(), "-".to_string()),
        };
        let mut key = format!("{}:{}:{}:{}:{}", driver_name(self.cfg.driver), self.sc.name, oracle, kind, routes);
        if self.cfg.token_invisible && (routes.contains("token") || routes.contains("latereg")) {
            key.push_str(":token-invisible");
        }
        let what = format!(
            "{oracle}: {detail}; driver={} scenario={} ops={:?} history={:?}",
            driver_name(self.cfg.driver),
            self.sc.name,
            self.sc.ops.iter().map(|o| o.describe()).collect::<Vec<_>>(),
            self.history
        );
        if self.cfg.verbose {
            println!("  !! VIOLATION {key}: {detail}");
        }
        self.vios.push(Vio { key, what });
    }

    fn trace(&self, s: impl FnOnce() -> String) {
        if self.cfg.verbose {
            println!("  {}", s());
        }
    }

    fn cancelled(&self, i: usize) -> bool {
        !self.ops[i].routes.is_empty()
    }

    // ---------------------------------------------------------------------------------------
    // steps
    // ---------------------------------------------------------------------------------------

    fn submit(&mut self) {
        let i = self.next;
        self.next += 1;
        let spec = self.sc.ops[i];
        let probe = self.ops[i].probe.clone();
        let mine = self.fds[spec.fd].mine().clone();
        let tok = spec.tok.map(|k| self.tokens[k].clone());
        OUTER.with(|o| *o.borrow_mut() = spec.outer.map(|k| self.tokens[k].clone()));
        let rt = self.rt;
        self.ops[i].readable_at_submit = readable(mine.as_raw_fd());
        let nest = spec.nest;
        let extra = matches!(nest, Nest::Extra | Nest::ExtraPers) && tok.is_some();
        let fut: OpFut = match spec.kind {
            OpKind::Recv => {
                let fdh = OpFd::new(&mine, &probe);
                let sub = run_sub(rt.submit(Recv::new(fdh, TrackedBuf::new(CAP, probe.clone()), RecvFlags::empty())), extra);
                wrap(
                    async move {
                        let BufResult(r, op) = sub.await;
                        Fin::Out(OpOut::Data(r, op.into_inner().into_snapshot()))
                    },
                    tok,
                    nest,
                )
            }
            OpKind::Read => {
                let fdh = OpFd::new(&mine, &probe);
                let sub = run_sub(rt.submit(Read::new(fdh, TrackedBuf::new(CAP, probe.clone()))), extra);
                wrap(
                    async move {
                        let BufResult(r, op) = sub.await;
                        Fin::Out(OpOut::Data(r, op.into_inner().into_snapshot()))
                    },
                    tok,
                    nest,
                )
            }
            OpKind::Accept => {
                let fdh = OpFd::new(&mine, &probe);
                let sub = run_sub(rt.submit(Accept::new(fdh)), extra);
                wrap(
                    async move {
                        let BufResult(r, op) = sub.await;
                        let sock = if r.is_ok() { Some(OwnedFd::from(op.into_inner().0)) } else { None };
                        Fin::Out(OpOut::Accepted(r, sock))
                    },
                    tok,
                    nest,
                )
            }
            OpKind::Connect => {
                let fdh = OpFd::new(&mine, &probe);
                let FdEnv::Blackhole { addr, .. } = &self.fds[spec.fd] else { unreachable!() };
                let sub = run_sub(rt.submit(Connect::new(fdh, addr.clone())), extra);
                wrap(
                    async move {
                        let BufResult(r, _op) = sub.await;
                        Fin::Out(OpOut::Unit(r))
                    },
                    tok,
                    nest,
                )
            }
            OpKind::PollR | OpKind::PollW => {
                let fdh = OpFd::new(&mine, &probe);
                let interest = if spec.kind == OpKind::PollR { Interest::Readable } else { Interest::Writable };
                let sub = run_sub(rt.submit(PollOnce::new(fdh, interest)), extra);
                wrap(
                    async move {
                        let BufResult(r, _op) = sub.await;
                        Fin::Out(OpOut::Unit(r))
                    },
                    tok,
                    nest,
                )
            }
            OpKind::RecvMulti => {
                // exactly what compio-net's `recv_multi` / `read_multi` build: a `SubmitMultiStream`
                // whose factory submits one managed multishot receive on the runtime's buffer pool
                // (io_uring: RECV_MULTISHOT with provided buffers; polling: one managed receive
                // per item), with an instrumented descriptor handle
                let (rt2, mine2, probe2) = (rt.clone(), mine.clone(), probe.clone());
                let stream = SubmitMultiStream::new(move || {
                    let pool = rt2.buffer_pool()?;
                    let op = RecvMulti::new(OpFd::new(&mine2, &probe2), &pool, 0, RecvFlags::empty())?;
                    Ok(rt2.submit_multi(op).into_managed(pool))
                });
                let s: ItemStream = match (tok.clone(), nest) {
                    (None, _) | (Some(_), Nest::FutScope) => Box::pin(stream),
                    (Some(t), Nest::PersCancel | Nest::ExtraPers) => Box::pin(stream.with_personality(0).with_cancel(t)),
                    (Some(t), Nest::CancelPers) => Box::pin(stream.with_cancel(t).with_personality(0)),
                    (Some(t), Nest::PersCancelPers) => Box::pin(stream.with_personality(0).with_cancel(t).with_personality(0)),
                    (Some(t), Nest::Cancel | Nest::Extra | Nest::FailFast) => Box::pin(stream.with_cancel(t)),
                };
                let log = self.ops[i].slog.clone();
                let consumer = async move {
                    let mut s = s;
                    while let Some(item) = s.next().await {
                        log.borrow_mut().push(match item {
                            Ok(b) => SItem::Data(b.to_vec()),
                            Err(e) => SItem::Err(e),
                        });
                    }
                    Fin::Out(OpOut::StreamEnd)
                };
                // the stream carries its token itself; only `FutScope` puts the scope around the consumer
                wrap(consumer, if nest == Nest::FutScope { tok } else { None }, Nest::Cancel)
            }
        };
        let fut: OpFut = if spec.task {
            // the operation lives in a task of the runtime's executor; the harness holds the handle
            let jh = rt.spawn(fut);
            Box::pin(async move {
                match jh.await {
                    Ok(fin) => fin,
                    Err(e) => Fin::TaskGone(format!("{e}")),
                }
            })
        } else {
            fut
        };
        self.ops[i].fut = Some(fut);
        self.ops[i].submitted = true;
        if spec.tok.is_some_and(|k| self.fired[k]) {
            self.ops[i].routes.push("latereg");
            self.reached.push("register_after_fire");
            self.note_nesting(i, true);
        }
        if spec.task {
            // first poll of the task: the executor's, not the harness's
            self.transitions += 1;
            self.rt.run();
        }
        self.poll_op(i);
        self.drain_logs();
    }

    /// must-reach bookkeeping of the route dimension "which combinator nesting carried the token"
    fn note_nesting(&mut self, i: usize, late: bool) {
        let n = self.sc.ops[i].nest;
        if n.through_personality() {
            self.reached.push(if late { "latereg_through_personality_nesting" } else { "token_through_personality_nesting" });
        }
        if matches!(n, Nest::Extra | Nest::ExtraPers) {
            self.reached.push(if late { "latereg_through_extra_nesting" } else { "token_through_extra_nesting" });
        }
        if n == Nest::FailFast {
            self.reached.push(if late { "latereg_through_failfast" } else { "token_through_failfast" });
        }
        if n == Nest::FutScope {
            self.reached.push("token_scope_around_stream_consumer");
        }
    }

    /// bytes that left the descriptor `f` and that no operation has reported (yet)
    fn unreported(&self, f: usize) -> usize {
        let FdEnv::Stream { mine, written, .. } = &self.fds[f] else { return 0 };
        let reported: usize = self.chunks[f].iter().map(|c| c.len).sum();
        written.len().saturating_sub(inq(mine.as_raw_fd())).saturating_sub(reported)
    }

    /// is stream op `i` the only operation that can have taken bytes nobody reported yet?
    fn sole_reader(&self, i: usize) -> bool {
        let f = self.sc.ops[i].fd;
        (0..self.ops.len()).all(|j| j == i || self.sc.ops[j].fd != f || !self.ops[j].submitted || self.ops[j].result.is_some())
    }

    /// must-reach bookkeeping: how many chunks had the driver taken from the socket for this stream
    /// that the consumer had not been given when the cancellation was issued?
    fn note_untaken(&mut self, i: usize, route: &'static str) {
        if !self.sc.ops[i].kind.is_stream() || !self.sole_reader(i) {
            return;
        }
        let n = (self.unreported(self.sc.ops[i].fd) / BURST).min(2);
        let name = match (route, n) {
            ("token", 0) => "multishot_token_untaken_0",
            ("token", 1) => "multishot_token_untaken_1",
            ("token", _) => "multishot_token_untaken_2",
            ("taskcancel", 0) => "multishot_taskcancel_untaken_0",
            ("taskcancel", 1) => "multishot_taskcancel_untaken_1",
            ("taskcancel", _) => "multishot_taskcancel_untaken_2",
            ("timeout", 0) => "multishot_timeout_untaken_0",
            ("timeout", _) => "multishot_timeout_untaken_1plus",
            (_, 0) => "multishot_drop_untaken_0",
            (_, 1) => "multishot_drop_untaken_1",
            (..) => "multishot_drop_untaken_2",
        };
        self.reached.push(name);
        if n > 0 {
            self.reached.push("multishot_cancelled_with_untaken_chunks");
        }
        self.trace(|| format!("op{i}: {name}"));
    }

    /// look at what the stream consumers received since the last look
    fn drain_logs(&mut self) {
        for i in 0..self.ops.len() {
            if !self.sc.ops[i].kind.is_stream() {
                continue;
            }
            let items = std::mem::take(&mut *self.ops[i].slog.borrow_mut());
            for it in items {
                match it {
                    SItem::Data(bytes) => {
                        if self.ops[i].serrs > 0 {
                            self.reached.push("stream_data_after_error_item");
                        }
                        self.ops[i].sbytes += bytes.len();
                        self.trace(|| format!("op{i} stream item {bytes:?}"));
                        self.claim_bytes(i, bytes.len(), &bytes, "stream item");
                        if self.cancelled(i) {
                            self.reached.push("cancelled_stream_delivered_reaped_chunk");
                        }
                    }
                    SItem::Err(e) => {
                        self.ops[i].serrs += 1;
                        self.trace(|| format!("op{i} stream error item {e:?}"));
                        if e.is_cancelled() && self.cancelled(i) {
                            self.reached.push("stream_reported_cancel_error");
                        }
                        self.judge_error(i, &e);
                    }
                }
            }
        }
    }

    fn poll_op(&mut self, i: usize) {
        if self.ops[i].result.is_some() {
            return;
        }
        let Some(mut fut) = self.ops[i].fut.take() else { return };
        self.ops[i].flag.0.store(false, Ordering::SeqCst);
        let waker = self.ops[i].waker.clone();
        let mut cx = Context::from_waker(&waker);
        self.transitions += 1;
        let r = fut.as_mut().poll(&mut cx);
        self.ops[i].fut = Some(fut);
        self.drain_logs();
        if let Poll::Ready(fin) = r {
            let failfast = matches!(fin, Fin::FailFast);
            self.on_result(i, fin);
            if failfast {
                // "complete with an error without further polling the inner future": what is left
                // of the operation can only be dropped - from here on this is the drop route
                self.ops[i].fut = None;
            }
        }
    }

    fn ready(&mut self, f: usize) {
        for (i, o) in self.sc.ops.iter().enumerate() {
            if o.fd == f && self.ops[i].submitted {
                self.ops[i].ready_after_submit += 1;
            }
        }
        match &mut self.fds[f] {
            FdEnv::Stream { peer, written, boundaries, .. } => {
                let base = written.len();
                let data: Vec<u8> = (0..BURST).map(|j| (base + j + 1) as u8).collect();
                write_all(peer.as_raw_fd(), &data);
                written.extend_from_slice(&data);
                boundaries.push(written.len());
            }
            FdEnv::Listener { addr, len, clients, claimed, .. } => {
                let tag = clients.len() as u8 + 1;
                clients.push(unix_client(addr, *len, tag));
                claimed.push(false);
            }
            FdEnv::Blackhole { .. } => machinery("Ready step on a blackhole descriptor".into()),
        }
    }

    fn reap_once(&mut self) {
        self.transitions += 1;
        self.rt.poll_with(Some(Duration::ZERO));
        self.rt.run();
        // operations living in tasks were polled by the executor just now
        self.drain_logs();
    }

    fn progress_stamp(&self) -> (usize, usize) {
        (
            self.ops.iter().filter(|o| o.result.is_some()).count(),
            self.ops.iter().filter(|o| o.submitted && o.probe.released()).count(),
        )
    }

    /// reap + poll woken futures until nothing observable changes
    fn settle(&mut self) {
        let mut quiet = 0;
        let mut rounds = 0;
        while quiet < quiet_rounds(self.cfg.driver) {
            rounds += 1;
            if rounds > MAX_ROUNDS {
                self.vio("settle:no-quiescence", None, format!("still changing after {MAX_ROUNDS} harvest rounds"));
                return;
            }
            let before = self.progress_stamp();
            self.reap_once();
            let mut progressed = false;
            for i in 0..self.ops.len() {
                if self.ops[i].fut.is_some()
                    && self.ops[i].result.is_none()
                    && self.ops[i].flag.0.swap(false, Ordering::SeqCst)
                {
                    self.poll_op(i);
                    progressed = true;
                }
            }
            if progressed || self.progress_stamp() != before {
                quiet = 0;
            } else {
                quiet += 1;
            }
        }
    }

    fn fire(&mut self, k: usize) {
        let again = self.fired[k];
        self.fired[k] = true;
        for (i, o) in self.sc.ops.iter().enumerate() {
            if o.tok == Some(k) && self.ops[i].submitted && self.ops[i].result.is_none() && !again {
                self.ops[i].routes.push("token");
                self.reached.push("cancel_token");
                self.note_nesting(i, false);
                self.note_untaken(i, "token");
            }
        }
        if again {
            self.reached.push("cancel_again_token");
        }
        self.transitions += 1;
        self.tokens[k].clone().cancel();
    }

    fn drop_future(&mut self, i: usize) {
        if self.ops[i].result.is_none() {
            if self.cancelled(i) {
                self.reached.push("cancel_again_drop");
            }
            let task = self.sc.ops[i].task;
            self.note_untaken(i, if task { "taskcancel" } else { "drop" });
            // an operation living in a task: dropping the handle cancels the task, the executor
            // drops the future at its next tick
            self.ops[i].routes.push(if task { "taskcancel" } else { "drop" });
            self.ops[i].dropped_unfinished = true;
            self.reached.push(if task { "cancel_task" } else { "cancel_drop" });
        } else if self.history.last().map(|s| s.as_str()) != Some("teardown-drop-all") {
            self.reached.push("drop_after_completion");
        }
        self.transitions += 1;
        self.ops[i].fut = None;
    }

    fn timeout(&mut self, i: usize) {
        if self.ops[i].result.is_none() && !self.ops[i].timeout_wrapped {
            let old = self.ops[i].fut.take().expect("held future");
            let wrapped: OpFut = Box::pin(async move {
                match compio_runtime::time::timeout(Duration::from_millis(1), old).await {
                    Ok(fin) => fin,
                    Err(_) => Fin::Elapsed,
                }
            });
            self.ops[i].fut = Some(wrapped);
            self.ops[i].timeout_wrapped = true;
            self.poll_op(i);
            if self.ops[i].result.as_deref() == Some("Elapsed") {
                // the harness thread lost the CPU for more than the 1 ms deadline between creating
                // the timeout and polling it for the first time: the timer fired before the
                // explicit sleep step. Not an observation of compio - the execution is repeated.
                self.disturbed = true;
            }
            if self.ops[i].result.is_none() {
                if self.cancelled(i) {
                    self.reached.push("cancel_again_timeout");
                }
                self.note_untaken(i, "timeout");
                self.ops[i].routes.push("timeout");
                self.reached.push("cancel_timeout");
            }
        }
        std::thread::sleep(Duration::from_millis(3));
    }

    // ---------------------------------------------------------------------------------------
    // oracle
    // ---------------------------------------------------------------------------------------

    fn on_result(&mut self, i: usize, fin: Fin) {
        let spec = self.sc.ops[i];
        let cancelled = self.cancelled(i);
        let class;
        match fin {
            Fin::Elapsed => {
                class = "Elapsed".to_string();
                if !self.ops[i].timeout_wrapped {
                    self.vio("honest:elapsed-without-timeout", Some(i), "Elapsed from an op that was never put under a timeout".into());
                }
                // the wrapper dropped the inner future: from here on this is the drop route
                self.ops[i].dropped_unfinished = true;
                self.reached.push("timeout_elapsed");
            }
            Fin::FailFast => {
                class = "Err(Cancelled-failfast)".to_string();
                if self.sc.ops[i].nest != Nest::FailFast {
                    self.vio("honest:failfast-without-failfast", Some(i), "Err(Cancelled) from an op that is not under fail_fast()".into());
                }
                let k = spec.tok.unwrap_or(0);
                if !self.fired.get(k).copied().unwrap_or(false) {
                    self.vio(
                        "local:uncancelled-op-got-cancel-error",
                        Some(i),
                        format!("op{i}'s fail-fast scope answered Err(Cancelled) although its token tok{k} never fired"),
                    );
                } else {
                    self.reached.push("failfast_answered_cancelled");
                }
                self.ops[i].dropped_unfinished = true;
            }
            Fin::TaskGone(e) => {
                class = "TaskJoinError".to_string();
                self.vio("honest:task-join-error", Some(i), format!("the task op{i} lives in was never cancelled but its JoinHandle returned `{e}`"));
            }
            Fin::Out(OpOut::StreamEnd) => {
                let (nbytes, nerr) = (self.ops[i].sbytes, self.ops[i].serrs);
                class = format!("End(chunks={},{})", nbytes.div_ceil(BURST).min(3), if nerr > 0 { "after-error-item" } else { "clean" });
                if !cancelled {
                    self.vio(
                        "local:uncancelled-stream-ended",
                        Some(i),
                        format!("the stream op{i} was never cancelled and its peer is open, but it ended ({nbytes} bytes, {nerr} error items delivered)"),
                    );
                } else {
                    self.reached.push("cancelled_stream_ended");
                    // never a clean end that hides loss: everything the stream took from the socket
                    // must have been handed out before it ends
                    let lost = if self.sole_reader(i) { self.unreported(spec.fd) } else { 0 };
                    if lost > 0 {
                        self.vio(
                            "honest:stream-end-hides-loss",
                            Some(i),
                            format!(
                                "the cancelled stream op{i} ended ({}) after delivering {nbytes} bytes, but {lost} more bytes had been taken from the socket for it and were never delivered",
                                if nerr > 0 { "after an error item" } else { "cleanly: no cancellation error, looks like end of stream" }
                            ),
                        );
                    }
                }
            }
            Fin::Out(OpOut::Data(res, snap)) => match res {
                Ok(n) => {
                    class = if cancelled { "Ok(data)-though-cancelled".into() } else { "Ok(data)".to_string() };
                    self.claim_bytes(i, n, &snap, "result");
                    if cancelled {
                        self.reached.push("cancelled_op_genuine_result");
                    }
                }
                Err(e) => {
                    class = format!("Err({})", errclass(&e));
                    self.judge_error(i, &e);
                    if snap.iter().any(|b| *b != CANARY) {
                        self.vio(
                            "honest:error-but-buffer-written",
                            Some(i),
                            format!("result {e:?} but the buffer holds {snap:?} (bytes taken from the stream and not reported)"),
                        );
                    }
                }
            },
            Fin::Out(OpOut::Accepted(res, sock)) => match res {
                Ok(_) => {
                    class = if cancelled { "Ok(conn)-though-cancelled".into() } else { "Ok(conn)".to_string() };
                    self.claim_client(i, sock);
                }
                Err(e) => {
                    class = format!("Err({})", errclass(&e));
                    self.judge_error(i, &e);
                }
            },
            Fin::Out(OpOut::Unit(res)) => match res {
                Ok(n) => {
                    class = "Ok".to_string();
                    match spec.kind {
                        OpKind::PollR => {
                            if !(self.ops[i].readable_at_submit || self.ops[i].ready_after_submit > 0) {
                                self.vio(
                                    "honest:fabricated-readiness",
                                    Some(i),
                                    format!("PollOnce(Readable) returned Ok({n}) although the descriptor was never readable since its submission"),
                                );
                            }
                        }
                        _ => {
                            self.vio(
                                "honest:fabricated-success",
                                Some(i),
                                format!("{} returned Ok({n}) although its event can never happen (accept queue of the target is full)", spec.kind.name()),
                            );
                        }
                    }
                }
                Err(e) => {
                    class = format!("Err({})", errclass(&e));
                    self.judge_error(i, &e);
                }
            },
        }
        self.trace(|| format!("op{i} ({}) -> {class}", spec.kind.name()));
        self.ops[i].result = Some(class);
    }

    fn judge_error(&mut self, i: usize, e: &io::Error) {
        let cancelled = self.cancelled(i);
        if e.is_cancelled() {
            if cancelled {
                self.reached.push("cancelled_op_cancel_error");
            } else {
                self.vio(
                    "local:uncancelled-op-got-cancel-error",
                    Some(i),
                    format!("op{i} was never cancelled (its future is alive, its token did not fire) but completed with {e:?}"),
                );
            }
        } else if cancelled {
            self.vio("honest:foreign-error", Some(i), format!("cancelled op{i} completed with {e:?}: neither a cancellation error nor a genuine result"));
        } else {
            self.vio("local:uncancelled-op-failed", Some(i), format!("op{i} was not cancelled and nothing is wrong with its descriptor, but it completed with {e:?}"));
        }
    }

    /// bytes a reader claims to have received (or swallowed): must be a run of what the peer wrote
    fn claim_bytes(&mut self, i: usize, n: usize, snap: &[u8], how: &'static str) {
        let f = self.sc.ops[i].fd;
        let FdEnv::Stream { written, .. } = &self.fds[f] else { unreachable!() };
        let written = written.clone();
        if n == 0 {
            self.vio("honest:fabricated-eof", Some(i), format!("{how}: Ok(0) (end of stream) although the peer is open and the buffer has room"));
            return;
        }
        if n > snap.len() {
            self.vio("honest:fabricated-bytes", Some(i), format!("{how}: Ok({n}) exceeds the buffer capacity {}", snap.len()));
            return;
        }
        let bytes = &snap[..n];
        let start = bytes[0] as usize;
        let genuine = start >= 1 && start - 1 + n <= written.len() && written[start - 1..start - 1 + n] == *bytes;
        if !genuine {
            self.vio(
                "honest:fabricated-bytes",
                Some(i),
                format!("{how}: Ok({n}) with bytes {bytes:?}, which are not a run of what the peer wrote ({written:?})"),
            );
            return;
        }
        if snap[n..].iter().any(|b| *b != CANARY) {
            self.vio("honest:wrote-beyond-count", Some(i), format!("{how}: Ok({n}) but the buffer is {snap:?}"));
        }
        self.chunks[f].push(Chunk { op: i, start: start - 1, len: n, cap_filled: n == snap.len(), how });
    }

    fn claim_client(&mut self, i: usize, sock: Option<OwnedFd>) {
        let f = self.sc.ops[i].fd;
        let Some(sock) = sock else {
            self.vio("honest:fabricated-accept", Some(i), "Ok without an accepted socket".into());
            return;
        };
        let tag = drain(sock.as_raw_fd());
        let FdEnv::Listener { claimed, .. } = &mut self.fds[f] else { unreachable!() };
        let ok = tag.len() == 1 && (tag[0] as usize) >= 1 && (tag[0] as usize) <= claimed.len() && !claimed[tag[0] as usize - 1];
        if ok {
            claimed[tag[0] as usize - 1] = true;
        } else {
            self.vio("honest:fabricated-accept", Some(i), format!("accepted socket does not belong to an unclaimed harness client (tag bytes {tag:?})"));
        }
    }

    /// evaluated after every settle
    fn judge(&mut self, at: &str) {
        for i in 0..self.ops.len() {
            if !self.ops[i].submitted {
                continue;
            }
            let released = self.ops[i].probe.released();
            if self.cancelled(i) && self.ops[i].result.is_none() {
                if self.ops[i].fut.is_some() {
                    self.vio(
                        "prompt:still-pending",
                        Some(i),
                        format!("at {at}: op{i} was cancelled ({}) and the driver was harvested to quiescence, but its future is still Pending", self.ops[i].routes.join("+")),
                    );
                } else if !released {
                    self.vio(
                        "prompt:storage-not-released",
                        Some(i),
                        format!("at {at}: op{i}'s future was dropped and the driver was harvested to quiescence, but the operation still holds its descriptor/buffer"),
                    );
                }
            }
            if self.ops[i].result.is_some() && !released {
                self.vio("prompt:storage-not-released", Some(i), format!("at {at}: op{i} returned ({:?}) but its descriptor/buffer were not handed back", self.ops[i].result));
            }
        }
        // locality / liveness: nobody who is entitled to an available event may be left waiting
        for f in 0..self.fds.len() {
            if matches!(self.fds[f], FdEnv::Blackhole { .. }) {
                continue;
            }
            if !readable(self.fds[f].mine().as_raw_fd()) {
                continue;
            }
            for i in 0..self.ops.len() {
                let o = self.sc.ops[i];
                if o.fd == f
                    && o.kind.wants_readable()
                    && self.ops[i].submitted
                    && !self.cancelled(i)
                    && self.ops[i].fut.is_some()
                    && self.ops[i].result.is_none()
                {
                    self.vio(
                        "local:starved",
                        Some(i),
                        format!("at {at}: descriptor fd{f} is readable (data / connection pending) and the driver was harvested to quiescence, but the uncancelled op{i} waiting for exactly that is still Pending"),
                    );
                }
            }
        }
    }

    /// "later completes with its model result once its descriptor is made ready"
    fn epilogue(&mut self) {
        for f in 0..self.fds.len() {
            if matches!(self.fds[f], FdEnv::Blackhole { .. }) {
                continue;
            }
            let pending = |w: &Self, streams: bool| {
                (0..w.ops.len())
                    .filter(|&i| {
                        w.sc.ops[i].fd == f
                            && w.sc.ops[i].kind.is_stream() == streams
                            && w.ops[i].submitted
                            && !w.cancelled(i)
                            && w.ops[i].fut.is_some()
                            && w.ops[i].result.is_none()
                    })
                    .collect::<Vec<usize>>()
            };
            let waiting = |w: &Self| pending(w, false).len();
            let mut budget = waiting(self) + 1;
            while waiting(self) > 0 && budget > 0 {
                budget -= 1;
                self.history.push(format!("epilogue:Ready({f})"));
                self.ready(f);
                self.settle();
                self.judge("epilogue");
                self.reached.push("epilogue_ready");
            }
            // an uncancelled stream on the same descriptor re-arms itself forever and may win every
            // race for the data (kernel order): single-shot neighbours may then wait legitimately -
            // `judge` has checked that the data did not stay in the descriptor
            if waiting(self) > 0 && pending(self, true).is_empty() {
                self.vio("local:never-completes", None, format!("fd{f}: uncancelled operations are still pending after the descriptor was made ready repeatedly"));
            }
            // an uncancelled stream keeps delivering
            let live = pending(self, true);
            if !live.is_empty() && waiting(self) == 0 {
                let before: usize = live.iter().map(|&i| self.ops[i].sbytes).sum();
                self.history.push(format!("epilogue:Ready({f})/stream"));
                self.ready(f);
                self.settle();
                self.judge("epilogue");
                let after: usize = live.iter().map(|&i| self.ops[i].sbytes).sum();
                if after == before + BURST {
                    self.reached.push("epilogue_stream_delivers");
                } else {
                    self.vio(
                        "local:stream-stalled",
                        Some(live[0]),
                        format!("fd{f}: {BURST} fresh bytes were written for the uncancelled pending stream(s) {live:?}, harvested to quiescence, but they delivered {} bytes", after - before),
                    );
                }
            }
            self.probe_burst(f, "epilogue");
        }
        // whoever is uncancelled and still pending now must be waiting on a blackhole
        for i in 0..self.ops.len() {
            if self.ops[i].submitted && !self.cancelled(i) && self.ops[i].result.is_none() && self.ops[i].fut.is_some() {
                self.reached.push("uncancelled_stays_pending");
            }
        }
    }

    /// promptness / locality for streams: once every reader of the descriptor is finished or
    /// cancelled (and the driver was harvested to quiescence), nothing takes data from it any more -
    /// in particular not a multishot receive whose stream was cancelled, dropped or has ended
    fn probe_burst(&mut self, f: usize, at: &str) {
        let n = self.ops.len();
        let has_stream = (0..n).any(|i| self.sc.ops[i].fd == f && self.sc.ops[i].kind.is_stream() && self.ops[i].submitted);
        let reader_left = (0..n).any(|i| {
            self.sc.ops[i].fd == f && self.ops[i].submitted && self.ops[i].result.is_none() && !self.cancelled(i)
        });
        if !has_stream || reader_left {
            return;
        }
        let FdEnv::Stream { mine, .. } = &self.fds[f] else { return };
        let mine = mine.clone();
        let before = inq(mine.as_raw_fd());
        self.history.push(format!("{at}:probe-burst({f})"));
        self.ready(f);
        self.settle();
        let after = inq(mine.as_raw_fd());
        if after == before + BURST {
            self.reached.push("cancelled_stream_stopped_consuming");
        } else {
            let i = (0..n).find(|&i| self.sc.ops[i].fd == f && self.sc.ops[i].kind.is_stream());
            self.vio(
                "prompt:cancelled-stream-still-consuming",
                i,
                format!("at {at}: every reader of fd{f} is finished or cancelled and the driver was harvested to quiescence, yet of {BURST} bytes written afterwards only {} stayed in the descriptor", after.saturating_sub(before)),
            );
        }
        self.drain_logs();
    }

    fn conservation(&mut self) {
        for f in 0..self.fds.len() {
            match &self.fds[f] {
                FdEnv::Stream { mine, written, boundaries, .. } => {
                    let written = written.clone();
                    let boundaries = boundaries.clone();
                    let leftover = drain(mine.as_raw_fd());
                    // swallowed by dropped operations
                    for i in 0..self.ops.len() {
                        if self.sc.ops[i].fd != f {
                            continue;
                        }
                        let sw = self.ops[i].probe.swallowed.borrow().clone();
                        if let Some(snap) = sw {
                            let n = snap.iter().take_while(|b| **b != CANARY).count();
                            if snap[n..].iter().any(|b| *b != CANARY) {
                                self.vio("honest:fabricated-bytes", Some(i), format!("dropped op's buffer holds {snap:?}"));
                            } else if n > 0 {
                                if !self.ops[i].dropped_unfinished {
                                    self.vio("honest:bytes-lost", Some(i), format!("op{i} was never dropped unfinished but its buffer {snap:?} was discarded inside compio"));
                                }
                                self.claim_bytes(i, n, &snap, "swallowed");
                                self.reached.push("dropped_op_swallowed_bytes");
                            }
                        }
                    }
                    // a stream dropped unfinished (drop / task cancel / elapsed timeout) may take the
                    // chunks it had not handed out yet with it - pool buffers, nobody can see them
                    let n_ops = self.ops.len();
                    let stream_any = (0..n_ops).find(|&i| self.sc.ops[i].fd == f && self.sc.ops[i].kind.is_stream() && self.ops[i].submitted);
                    let stream_dropped = (0..n_ops)
                        .any(|i| self.sc.ops[i].fd == f && self.sc.ops[i].kind.is_stream() && self.ops[i].dropped_unfinished);
                    let mut chunks: Vec<(usize, usize, Option<usize>, bool)> =
                        self.chunks[f].iter().map(|c| (c.start, c.len, Some(c.op), c.cap_filled)).collect();
                    chunks.sort();
                    let mut pos = 0usize;
                    let mut desc = Vec::new();
                    for c in &self.chunks[f] {
                        desc.push(format!("op{}:{}..{}({})", c.op, c.start, c.start + c.len, c.how));
                    }
                    for (start, len, op, cap_filled) in chunks {
                        if start < pos {
                            self.vio("honest:bytes-duplicated", op, format!("stream fd{f}: bytes {start}..{} delivered twice; deliveries {desc:?}", pos.min(start + len)));
                        } else if start > pos && stream_dropped {
                            self.reached.push("dropped_stream_swallowed_bytes");
                        } else if start > pos {
                            self.vio("honest:bytes-lost", stream_any.or(op), format!("stream fd{f}: bytes {pos}..{start} were taken from the stream but reported by nobody; deliveries {desc:?} written {written:?}"));
                        }
                        pos = pos.max(start + len);
                        if !cap_filled && !boundaries.contains(&(start + len)) {
                            self.vio("local:short-read", op, format!("stream fd{f}: read {start}..{} stops short of the buffer capacity although more bytes were available", start + len));
                        }
                    }
                    let is_tail = leftover.len() <= written.len() - pos.min(written.len())
                        && written[written.len() - leftover.len()..] == leftover[..];
                    if written[pos.min(written.len())..] != leftover[..] && is_tail && stream_dropped {
                        self.reached.push("dropped_stream_swallowed_bytes");
                    } else if written[pos.min(written.len())..] != leftover[..] {
                        self.vio(
                            "honest:bytes-lost",
                            stream_any,
                            format!("stream fd{f}: peer wrote {written:?}, operations account for the first {pos} bytes, but the descriptor still holds {leftover:?}; deliveries {desc:?}"),
                        );
                    }
                }
                FdEnv::Listener { mine, clients, claimed, .. } => {
                    let mut state = claimed.clone();
                    let n = clients.len();
                    let mine = mine.clone();
                    // connections still waiting in the accept queue
                    loop {
                        let fd = unsafe { libc::accept4(mine.as_raw_fd(), std::ptr::null_mut(), std::ptr::null_mut(), libc::SOCK_NONBLOCK | libc::SOCK_CLOEXEC) };
                        if fd < 0 {
                            break;
                        }
                        let s = unsafe { OwnedFd::from_raw_fd(fd) };
                        let tag = drain(s.as_raw_fd());
                        if tag.len() == 1 && (tag[0] as usize) >= 1 && (tag[0] as usize) <= n && !state[tag[0] as usize - 1] {
                            state[tag[0] as usize - 1] = true;
                        } else {
                            self.vio("honest:connection-duplicated", None, format!("listener fd{f}: queued connection with tag {tag:?} is unknown or already delivered"));
                        }
                    }
                    let vanished = state.iter().filter(|s| !**s).count();
                    let may_swallow = (0..self.ops.len())
                        .filter(|&i| self.sc.ops[i].fd == f && self.ops[i].dropped_unfinished)
                        .count();
                    if vanished > 0 {
                        self.reached.push("dropped_op_swallowed_connection");
                    }
                    if vanished > may_swallow {
                        self.vio(
                            "honest:connection-lost",
                            None,
                            format!("listener fd{f}: {vanished} of {n} harness connections were taken from the accept queue and reported by nobody, only {may_swallow} accept futures were dropped unfinished"),
                        );
                    }
                }
                FdEnv::Blackhole { .. } => {}
            }
        }
    }

    fn outcome(&self) -> String {
        let mut parts: Vec<String> = (0..self.ops.len())
            .map(|i| {
                let o = &self.ops[i];
                format!(
                    "{}[{}]={}",
                    self.sc.ops[i].kind.name(),
                    if o.routes.is_empty() { "-".into() } else { o.routes.join("+") },
                    if !o.submitted {
                        "unsubmitted".to_string()
                    } else {
                        o.result.clone().unwrap_or_else(|| if o.fut.is_some() { "Pending".into() } else { "Dropped".into() })
                    }
                )
            })
            .collect();
        parts.sort();
        format!("{} {}", driver_name(self.cfg.driver), parts.join(" "))
    }
}

thread_local! { static OUTER: std::cell::RefCell<Option<CancelToken>> = const { std::cell::RefCell::new(None) }; }

/// `rt.submit(op)` as it is (`Submit<T>`) or converted with `.with_extra()` (`Submit<T, Extra>`,
/// a separate `Future` impl with its own token registration)
fn run_sub<T: OpCode + 'static>(sub: Submit<T>, extra: bool) -> impl Future<Output = BufResult<usize, T>> {
    async move { if extra { sub.with_extra().await.0 } else { sub.await } }
}

/// attach the token through the scenario's combinator nesting (and the optional outer scope)
fn wrap(f: impl Future<Output = Fin> + 'static, tok: Option<CancelToken>, nest: Nest) -> OpFut {
    let outer = OUTER.with(|o| o.borrow_mut().take());
    let Some(t) = tok else { return Box::pin(f) };
    let inner: OpFut = match nest {
        Nest::Cancel | Nest::Extra | Nest::FutScope => match outer {
            // (the original shape of `nested-scopes`, kept literally)
            Some(o) => return Box::pin(f.with_cancel(t).with_cancel(o)),
            None => Box::pin(f.with_cancel(t)),
        },
        Nest::PersCancel | Nest::ExtraPers => Box::pin(f.with_personality(0).with_cancel(t)),
        Nest::CancelPers => Box::pin(f.with_cancel(t).with_personality(0)),
        Nest::PersCancelPers => Box::pin(f.with_personality(0).with_cancel(t).with_personality(0)),
        Nest::FailFast => Box::pin(async move {
            match f.with_cancel(t).fail_fast().await {
                Ok(fin) => fin,
                Err(_) => Fin::FailFast,
            }
        }),
    };
    match outer {
        Some(o) => Box::pin(inner.with_cancel(o)),
        None => inner,
    }
}

fn build_runtime(driver: DriverType) -> Runtime {
    let mut pb = ProactorBuilder::new();
    pb.driver_type(driver);
    pb.capacity(16);
    RuntimeBuilder::new()
        .with_proactor(pb)
        .build()
        .unwrap_or_else(|e| machinery(format!("cannot build runtime on {driver:?}: {e}")))
}

pub fn execute(sc: &Scenario, seq: &[Step], cfg: &Config) -> ExecResult {
    QUARANTINE.with(|q| q.borrow_mut().clear());
    let fds: Vec<FdEnv> = sc
        .fds
        .iter()
        .map(|k| match k {
            FdKind::Sock => {
                let (a, b) = socketpair();
                FdEnv::Stream { mine: Rc::new(a), peer: b, written: vec![], boundaries: vec![] }
            }
            FdKind::Pipe => {
                let (r, w) = pipe();
                FdEnv::Stream { mine: Rc::new(r), peer: w, written: vec![], boundaries: vec![] }
            }
            FdKind::Listener => {
                let (l, addr, len) = unix_listener();
                FdEnv::Listener { mine: Rc::new(l), addr, len, clients: vec![], claimed: vec![] }
            }
            FdKind::Blackhole => {
                let (s, addr) = blackhole_socket();
                FdEnv::Blackhole { mine: Rc::new(s), addr }
            }
        })
        .collect();
    let rt = build_runtime(cfg.driver);
    let ntok = crate::model::ntok(sc);
    let (mut vios, outcome, transitions, reached, history, fds, disturbed) = rt.enter(|| {
        let ops = sc
            .ops
            .iter()
            .map(|_| {
                let flag = Arc::new(Flag(AtomicBool::new(false)));
                OpRun {
                    probe: Rc::new(Probe::default()),
                    waker: Waker::from(flag.clone()),
                    flag,
                    fut: None,
                    submitted: false,
                    result: None,
                    routes: vec![],
                    timeout_wrapped: false,
                    readable_at_submit: false,
                    ready_after_submit: 0,
                    dropped_unfinished: false,
                    slog: Rc::new(RefCell::new(Vec::new())),
                    sbytes: 0,
                    serrs: 0,
                }
            })
            .collect();
        let mut w = World {
            sc,
            cfg,
            rt: &rt,
            chunks: (0..fds.len()).map(|_| Vec::new()).collect(),
            fds,
            ops,
            tokens: (0..ntok).map(|_| CancelToken::new()).collect(),
            fired: vec![false; ntok],
            next: 0,
            vios: vec![],
            reached: vec![],
            transitions: 0,
            history: vec![],
            disturbed: false,
        };
        for s in seq {
            w.history.push(s.name());
            w.trace(|| format!("step {}", s.name()));
            match *s {
                Step::Submit => w.submit(),
                Step::Drop(i) => w.drop_future(i as usize),
                Step::Tok(k) => w.fire(k as usize),
                Step::Timeout(i) => w.timeout(i as usize),
                Step::Ready(f) => {
                    w.transitions += 1;
                    w.ready(f as usize)
                }
                Step::Harvest => {
                    w.settle();
                    w.judge("Harvest");
                }
                Step::Reap => w.reap_once(),
            }
        }
        // final verdict: settle, then a grace period during which nothing else may happen
        w.history.push("final-settle".into());
        w.settle();
        w.judge("final settle");
        if !cfg.grace.is_zero() {
            std::thread::sleep(cfg.grace);
        }
        w.settle();
        w.judge("after grace");
        w.epilogue();
        let outcome = w.outcome();
        // teardown: dropping what is left is the drop route for every remaining operation
        w.history.push("teardown-drop-all".into());
        for i in 0..w.ops.len() {
            if w.ops[i].fut.is_some() && w.ops[i].submitted {
                w.drop_future(i);
            }
        }
        w.settle();
        w.judge("teardown");
        for f in 0..w.fds.len() {
            w.probe_burst(f, "teardown");
        }
        w.tokens.clear();
        w.conservation();
        let fds = std::mem::take(&mut w.fds);
        (w.vios, outcome, w.transitions, w.reached, w.history, fds, w.disturbed)
    });
    drop(rt);
    // after the runtime is gone: nobody may have written into a buffer after compio released it
    let q = QUARANTINE.with(|q| std::mem::take(&mut *q.borrow_mut()));
    for (block, snap) in q {
        // SAFETY: the block was fully initialised and is kept alive by the quarantine
        let now = unsafe { std::slice::from_raw_parts(block.as_ptr(), block.capacity()) };
        if now != &snap[..] {
            vios.push(Vio {
                key: format!("{}:{}:release:write-after-release", driver_name(cfg.driver), sc.name),
                what: format!(
                    "a buffer released by compio holding {snap:?} was written afterwards (now {now:?}); driver={} scenario={} history={history:?}",
                    driver_name(cfg.driver),
                    sc.name
                ),
            });
        }
    }
    drop(fds);
    ExecResult { disturbed, vios, outcome, transitions, reached }
}

/// Is the token attached by `with_cancel` visible to the code it wraps?  Returns a description of
/// the failure.  (The combinator passes the token through a wrapper waker that is recognised by
/// comparing waker vtables; see known finding `token-invisible`.)
pub fn token_canary(driver: DriverType) -> Option<String> {
    let rt = build_runtime(driver);
    let r = rt.enter(|| {
        let mut seen = Vec::new();
        for root in ["harness waker", "runtime waker"] {
            let flag = Arc::new(Flag(AtomicBool::new(false)));
            let waker = if root == "harness waker" { Waker::from(flag.clone()) } else { rt.waker() };
            let mut cx = Context::from_waker(&waker);
            let tok = CancelToken::new();
            let mut fut: Pin<Box<dyn Future<Output = bool>>> =
                Box::pin(async { CancelToken::current().await.is_some() }.with_cancel(tok));
            match fut.as_mut().poll(&mut cx) {
                Poll::Ready(true) => {}
                Poll::Ready(false) => seen.push(root),
                Poll::Pending => machinery("token canary future is pending".into()),
            }
        }
        seen
    });
    if r.is_empty() {
        None
    } else {
        Some(format!(
            "`async {{ CancelToken::current().await }}.with_cancel(token)` polled once under the {} sees NO token on the {} driver: \
             operations submitted inside `with_cancel` are never registered with the token, `token.cancel()` cancels nothing",
            r.join(" and the "),
            driver_name(driver)
        ))
    }
}
