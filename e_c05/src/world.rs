//! Executes one step sequence on a fresh real compio runtime + real kernel objects and judges it.
//!
//! Ownership of nondeterminism: every peer end is a raw non-blocking descriptor operated by the
//! harness thread itself; completions are reaped only with zero-timeout polls; futures are polled
//! by hand with a flag waker.  The only real-time steps are the 3 ms sleep of the timeout route and
//! the grace sleep before the final verdict.

use std::{
    cell::{Cell, RefCell},
    future::Future,
    io,
    mem::MaybeUninit,
    os::fd::{AsFd, AsRawFd, BorrowedFd, FromRawFd, OwnedFd, RawFd},
    pin::Pin,
    rc::Rc,
    sync::{
        Arc,
        atomic::{AtomicBool, AtomicU64, Ordering},
    },
    task::{Context, Poll, Wake, Waker},
    time::Duration,
};

use compio_buf::{BufResult, IntoInner, IoBuf, IoBufMut, SetLen};
use compio_driver::{
    DriverType, ErrorExt, ProactorBuilder,
    op::{Accept, Connect, Interest, PollOnce, Read, Recv, RecvFlags},
};
use compio_runtime::{CancelToken, FutureExt, Runtime, RuntimeBuilder};

use crate::model::{FdKind, OpKind, Scenario, Step};

pub const CAP: usize = 2;
pub const BURST: usize = 3;
const CANARY: u8 = 0;
const MAX_ROUNDS: usize = 64;
/// consecutive harvest rounds without any observable change that count as quiescence; the
/// polling driver is synchronous to the harness thread (a cancel's entry is in its completion
/// channel before `cancel` returns), io_uring may post a cancelled request's CQE one enter later
fn quiet_rounds(d: DriverType) -> usize {
    if d == DriverType::Poll { 2 } else { 3 }
}

// ---------------------------------------------------------------------------------------------
// instrumented resources
// ---------------------------------------------------------------------------------------------

#[derive(Default)]
pub struct Probe {
    fd_live: Cell<bool>,
    buf_live: Cell<bool>,
    /// whole buffer as it was when compio dropped it without handing it back
    swallowed: RefCell<Option<Vec<u8>>>,
}

impl Probe {
    fn released(&self) -> bool {
        !self.fd_live.get() && !self.buf_live.get()
    }
}

thread_local! {
    /// buffers dropped inside compio: (the block itself, kept alive; its bytes at drop time)
    static QUARANTINE: RefCell<Vec<(Vec<u8>, Vec<u8>)>> = const { RefCell::new(Vec::new()) };
}

/// Heap block with a canary in every byte; logs its release and is quarantined instead of freed
/// when it is dropped anywhere but in the harness.
pub struct TrackedBuf {
    v: Vec<u8>,
    probe: Rc<Probe>,
    returned: bool,
}

impl TrackedBuf {
    fn new(cap: usize, probe: Rc<Probe>) -> Self {
        let mut v = vec![CANARY; cap];
        v.truncate(0);
        assert_eq!(v.capacity(), cap);
        probe.buf_live.set(true);
        Self { v, probe, returned: false }
    }

    fn snapshot(&self) -> Vec<u8> {
        // SAFETY: every byte of the capacity was initialised by `new`
        unsafe { std::slice::from_raw_parts(self.v.as_ptr(), self.v.capacity()) }.to_vec()
    }

    /// the harness takes the buffer back (normal result path)
    fn into_snapshot(mut self) -> Vec<u8> {
        self.returned = true;
        self.snapshot()
    }
}

impl Drop for TrackedBuf {
    fn drop(&mut self) {
        self.probe.buf_live.set(false);
        if !self.returned {
            let snap = self.snapshot();
            *self.probe.swallowed.borrow_mut() = Some(snap.clone());
            let block = std::mem::take(&mut self.v);
            QUARANTINE.with(|q| q.borrow_mut().push((block, snap)));
        }
    }
}

impl IoBuf for TrackedBuf {
    fn as_init(&self) -> &[u8] {
        &self.v
    }
}

impl SetLen for TrackedBuf {
    unsafe fn set_len(&mut self, len: usize) {
        unsafe { self.v.set_len(len) }
    }
}

impl IoBufMut for TrackedBuf {
    fn as_uninit(&mut self) -> &mut [MaybeUninit<u8>] {
        let cap = self.v.capacity();
        // SAFETY: the block is valid for `capacity` bytes
        unsafe { std::slice::from_raw_parts_mut(self.v.as_mut_ptr() as *mut MaybeUninit<u8>, cap) }
    }
}

/// Descriptor handle given to an operation; logs when the operation's storage lets go of it.
pub struct OpFd {
    fd: Rc<OwnedFd>,
    probe: Rc<Probe>,
}

impl OpFd {
    fn new(fd: &Rc<OwnedFd>, probe: &Rc<Probe>) -> Self {
        probe.fd_live.set(true);
        Self { fd: fd.clone(), probe: probe.clone() }
    }
}

impl Drop for OpFd {
    fn drop(&mut self) {
        self.probe.fd_live.set(false);
    }
}

impl AsFd for OpFd {
    fn as_fd(&self) -> BorrowedFd<'_> {
        self.fd.as_fd()
    }
}

pub struct Flag(pub AtomicBool);

impl Wake for Flag {
    fn wake(self: Arc<Self>) {
        self.0.store(true, Ordering::SeqCst);
    }

    fn wake_by_ref(self: &Arc<Self>) {
        self.0.store(true, Ordering::SeqCst);
    }
}

// ---------------------------------------------------------------------------------------------
// raw descriptor helpers (harness side)
// ---------------------------------------------------------------------------------------------

fn machinery(msg: String) -> ! {
    vcore::machinery_error(&msg)
}

fn cvt(r: libc::c_int, what: &str) -> libc::c_int {
    if r < 0 {
        machinery(format!("harness syscall {what} failed: {}", io::Error::last_os_error()));
    }
    r
}

fn socketpair() -> (OwnedFd, OwnedFd) {
    let mut fds = [0; 2];
    cvt(
        unsafe {
            libc::socketpair(
                libc::AF_UNIX,
                libc::SOCK_STREAM | libc::SOCK_NONBLOCK | libc::SOCK_CLOEXEC,
                0,
                fds.as_mut_ptr(),
            )
        },
        "socketpair",
    );
    unsafe { (OwnedFd::from_raw_fd(fds[0]), OwnedFd::from_raw_fd(fds[1])) }
}

fn pipe() -> (OwnedFd, OwnedFd) {
    let mut fds = [0; 2];
    cvt(unsafe { libc::pipe2(fds.as_mut_ptr(), libc::O_NONBLOCK | libc::O_CLOEXEC) }, "pipe2");
    unsafe { (OwnedFd::from_raw_fd(fds[0]), OwnedFd::from_raw_fd(fds[1])) }
}

static UNIQ: AtomicU64 = AtomicU64::new(0);

fn abstract_addr() -> (libc::sockaddr_un, libc::socklen_t) {
    let name = format!("c05-{}-{}", std::process::id(), UNIQ.fetch_add(1, Ordering::Relaxed));
    let mut a: libc::sockaddr_un = unsafe { std::mem::zeroed() };
    a.sun_family = libc::AF_UNIX as _;
    for (i, b) in name.bytes().enumerate() {
        a.sun_path[i + 1] = b as _;
    }
    let len = std::mem::offset_of!(libc::sockaddr_un, sun_path) + 1 + name.len();
    (a, len as _)
}

fn unix_listener() -> (OwnedFd, libc::sockaddr_un, libc::socklen_t) {
    let fd = cvt(
        unsafe { libc::socket(libc::AF_UNIX, libc::SOCK_STREAM | libc::SOCK_NONBLOCK | libc::SOCK_CLOEXEC, 0) },
        "socket",
    );
    let fd = unsafe { OwnedFd::from_raw_fd(fd) };
    let (a, len) = abstract_addr();
    cvt(unsafe { libc::bind(fd.as_raw_fd(), &a as *const _ as *const libc::sockaddr, len) }, "bind");
    cvt(unsafe { libc::listen(fd.as_raw_fd(), 16) }, "listen");
    (fd, a, len)
}

fn unix_client(a: &libc::sockaddr_un, len: libc::socklen_t, tag: u8) -> OwnedFd {
    let fd = cvt(
        unsafe { libc::socket(libc::AF_UNIX, libc::SOCK_STREAM | libc::SOCK_NONBLOCK | libc::SOCK_CLOEXEC, 0) },
        "socket",
    );
    let fd = unsafe { OwnedFd::from_raw_fd(fd) };
    cvt(unsafe { libc::connect(fd.as_raw_fd(), a as *const _ as *const libc::sockaddr, len) }, "connect(client)");
    write_all(fd.as_raw_fd(), &[tag]);
    fd
}

fn write_all(fd: RawFd, data: &[u8]) {
    let n = unsafe { libc::write(fd, data.as_ptr() as *const _, data.len()) };
    if n != data.len() as isize {
        machinery(format!("harness write returned {n} ({})", io::Error::last_os_error()));
    }
}

/// non-blocking read of everything that is available right now
fn drain(fd: RawFd) -> Vec<u8> {
    let mut out = Vec::new();
    loop {
        let mut b = [0u8; 64];
        let n = unsafe { libc::recv(fd, b.as_mut_ptr() as *mut _, b.len(), libc::MSG_DONTWAIT) };
        if n > 0 {
            out.extend_from_slice(&b[..n as usize]);
            continue;
        }
        if n < 0 && io::Error::last_os_error().raw_os_error() == Some(libc::ENOTSOCK) {
            let n = unsafe { libc::read(fd, b.as_mut_ptr() as *mut _, b.len()) };
            if n > 0 {
                out.extend_from_slice(&b[..n as usize]);
                continue;
            }
        }
        return out;
    }
}

fn readable(fd: RawFd) -> bool {
    let mut p = libc::pollfd { fd, events: libc::POLLIN, revents: 0 };
    let n = unsafe { libc::poll(&mut p, 1, 0) };
    n > 0 && (p.revents & libc::POLLIN) != 0
}

thread_local! {
    /// loopback listener with backlog 0 whose accept queue is kept full by one never-accepted
    /// connection: every further SYN is dropped, a connect to it stays in progress
    static BLACKHOLE: (socket2::Socket, socket2::Socket, socket2::SockAddr) = {
        use socket2::{Domain, Socket, Type};
        let l = Socket::new(Domain::IPV4, Type::STREAM, None).unwrap_or_else(|e| machinery(format!("tcp socket: {e}")));
        l.bind(&"127.0.0.1:0".parse::<std::net::SocketAddr>().unwrap().into())
            .unwrap_or_else(|e| machinery(format!("tcp bind: {e}")));
        l.listen(0).unwrap_or_else(|e| machinery(format!("tcp listen: {e}")));
        let addr = l.local_addr().unwrap();
        let filler = Socket::new(Domain::IPV4, Type::STREAM, None).unwrap();
        filler.set_nonblocking(true).unwrap();
        let _ = filler.connect(&addr);
        // loopback: the handshake of the filler completes inside connect(); make sure
        let mut p = libc::pollfd { fd: filler.as_raw_fd(), events: libc::POLLOUT, revents: 0 };
        let n = unsafe { libc::poll(&mut p, 1, 1000) };
        if n != 1 || filler.take_error().ok().flatten().is_some() {
            machinery("blackhole filler connection did not establish".into());
        }
        (l, filler, addr)
    };
}

fn blackhole_socket() -> (OwnedFd, socket2::SockAddr) {
    use socket2::{Domain, Socket, Type};
    let addr = BLACKHOLE.with(|b| b.2.clone());
    let s = Socket::new(Domain::IPV4, Type::STREAM, None).unwrap_or_else(|e| machinery(format!("tcp socket: {e}")));
    s.set_nonblocking(true).unwrap();
    (OwnedFd::from(s), addr)
}

// ---------------------------------------------------------------------------------------------
// execution state
// ---------------------------------------------------------------------------------------------

pub enum OpOut {
    /// (result, buffer snapshot)
    Data(io::Result<usize>, Vec<u8>),
    Accepted(io::Result<usize>, Option<OwnedFd>),
    Unit(io::Result<usize>),
}

pub enum Fin {
    Out(OpOut),
    Elapsed,
}

type OpFut = Pin<Box<dyn Future<Output = Fin>>>;

enum FdEnv {
    Stream {
        mine: Rc<OwnedFd>,
        peer: OwnedFd,
        written: Vec<u8>,
        /// stream lengths after each harness write
        boundaries: Vec<usize>,
    },
    Listener {
        mine: Rc<OwnedFd>,
        addr: libc::sockaddr_un,
        len: libc::socklen_t,
        clients: Vec<OwnedFd>,
        claimed: Vec<bool>,
    },
    Blackhole {
        mine: Rc<OwnedFd>,
        addr: socket2::SockAddr,
    },
}

impl FdEnv {
    fn mine(&self) -> &Rc<OwnedFd> {
        match self {
            FdEnv::Stream { mine, .. } | FdEnv::Listener { mine, .. } | FdEnv::Blackhole { mine, .. } => mine,
        }
    }
}

struct OpRun {
    probe: Rc<Probe>,
    flag: Arc<Flag>,
    waker: Waker,
    fut: Option<OpFut>,
    submitted: bool,
    /// short result class once the future returned
    result: Option<String>,
    /// cancellation routes applied while no result was known (model: op is "cancelled")
    routes: Vec<&'static str>,
    timeout_wrapped: bool,
    readable_at_submit: bool,
    ready_after_submit: u32,
    dropped_unfinished: bool,
}

pub struct Vio {
    pub key: String,
    pub what: String,
}

pub struct Config {
    pub driver: DriverType,
    pub grace: Duration,
    pub verbose: bool,
    /// the token canary failed in this build: tag token-route violations
    pub token_invisible: bool,
}

pub struct ExecResult {
    /// the scheduler disturbed the only real-time step (see `World::timeout`): repeat
    pub disturbed: bool,
    pub vios: Vec<Vio>,
    pub outcome: String,
    pub transitions: u64,
    pub reached: Vec<&'static str>,
}

pub fn driver_name(d: DriverType) -> &'static str {
    match d {
        DriverType::Poll => "poll",
        DriverType::IoUring => "iour",
        _ => "other",
    }
}

struct Chunk {
    op: usize,
    start: usize,
    len: usize,
    cap_filled: bool,
    how: &'static str,
}

struct World<'a> {
    sc: &'a Scenario,
    cfg: &'a Config,
    rt: &'a Runtime,
    fds: Vec<FdEnv>,
    ops: Vec<OpRun>,
    tokens: Vec<CancelToken>,
    fired: Vec<bool>,
    next: usize,
    chunks: Vec<Vec<Chunk>>,
    vios: Vec<Vio>,
    reached: Vec<&'static str>,
    transitions: u64,
    history: Vec<String>,
    disturbed: bool,
}

fn errclass(e: &io::Error) -> String {
    match e.raw_os_error() {
        Some(libc::ECANCELED) => "ECANCELED".into(),
        Some(n) => format!("errno{n}"),
        None => format!("{:?}", e.kind()),
    }
}

impl<'a> World<'a> {
    fn vio(&mut self, oracle: &str, op: Option<usize>, detail: String) {
        let (kind, routes) = match op {
            Some(i) => (
                self.sc.ops[i].kind.name(),
                if self.ops[i].routes.is_empty() { "none".to_string() } else { self.ops[i].routes.join("+") },
            ),
            None => ("-", "-".to_string()),
        };
        let mut key = format!("{}:{}:{}:{}:{}", driver_name(self.cfg.driver), self.sc.name, oracle, kind, routes);
        if self.cfg.token_invisible && (routes.contains("token") || routes.contains("latereg")) {
            key.push_str(":token-invisible");
        }
        let what = format!(
            "{oracle}: {detail}; driver={} scenario={} ops={:?} history={:?}",
            driver_name(self.cfg.driver),
            self.sc.name,
            self.sc.ops.iter().map(|o| format!("{}@fd{}/{}", o.kind.name(), o.fd, o.tok_name())).collect::<Vec<_>>(),
            self.history
        );
        if self.cfg.verbose {
            println!("  !! VIOLATION {key}: {detail}");
        }
        self.vios.push(Vio { key, what });
    }

    fn trace(&self, s: impl FnOnce() -> String) {
        if self.cfg.verbose {
            println!("  {}", s());
        }
    }

    fn cancelled(&self, i: usize) -> bool {
        !self.ops[i].routes.is_empty()
    }

    // ---------------------------------------------------------------------------------------
    // steps
    // ---------------------------------------------------------------------------------------

    fn submit(&mut self) {
        let i = self.next;
        self.next += 1;
        let spec = self.sc.ops[i];
        let probe = self.ops[i].probe.clone();
        let mine = self.fds[spec.fd].mine().clone();
        let fdh = OpFd::new(&mine, &probe);
        let tok = spec.tok.map(|k| self.tokens[k].clone());
        OUTER.with(|o| *o.borrow_mut() = spec.outer.map(|k| self.tokens[k].clone()));
        let rt = self.rt;
        self.ops[i].readable_at_submit = readable(mine.as_raw_fd());
        let fut: OpFut = match spec.kind {
            OpKind::Recv => {
                let sub = rt.submit(Recv::new(fdh, TrackedBuf::new(CAP, probe.clone()), RecvFlags::empty()));
                wrap(
                    async move {
                        let BufResult(r, op) = sub.await;
                        Fin::Out(OpOut::Data(r, op.into_inner().into_snapshot()))
                    }
                    ,
                    tok,
                )
            }
            OpKind::Read => {
                let sub = rt.submit(Read::new(fdh, TrackedBuf::new(CAP, probe.clone())));
                wrap(
                    async move {
                        let BufResult(r, op) = sub.await;
                        Fin::Out(OpOut::Data(r, op.into_inner().into_snapshot()))
                    }
                    ,
                    tok,
                )
            }
            OpKind::Accept => {
                let sub = rt.submit(Accept::new(fdh));
                wrap(
                    async move {
                        let BufResult(r, op) = sub.await;
                        let sock = if r.is_ok() { Some(OwnedFd::from(op.into_inner().0)) } else { None };
                        Fin::Out(OpOut::Accepted(r, sock))
                    }
                    ,
                    tok,
                )
            }
            OpKind::Connect => {
                let FdEnv::Blackhole { addr, .. } = &self.fds[spec.fd] else { unreachable!() };
                let sub = rt.submit(Connect::new(fdh, addr.clone()));
                wrap(
                    async move {
                        let BufResult(r, _op) = sub.await;
                        Fin::Out(OpOut::Unit(r))
                    }
                    ,
                    tok,
                )
            }
            OpKind::PollR | OpKind::PollW => {
                let interest = if spec.kind == OpKind::PollR { Interest::Readable } else { Interest::Writable };
                let sub = rt.submit(PollOnce::new(fdh, interest));
                wrap(
                    async move {
                        let BufResult(r, _op) = sub.await;
                        Fin::Out(OpOut::Unit(r))
                    }
                    ,
                    tok,
                )
            }
        };
        self.ops[i].fut = Some(fut);
        self.ops[i].submitted = true;
        if spec.tok.is_some_and(|k| self.fired[k]) {
            self.ops[i].routes.push("latereg");
            self.reached.push("register_after_fire");
        }
        self.poll_op(i);
    }

    fn poll_op(&mut self, i: usize) {
        if self.ops[i].result.is_some() {
            return;
        }
        let Some(mut fut) = self.ops[i].fut.take() else { return };
        self.ops[i].flag.0.store(false, Ordering::SeqCst);
        let waker = self.ops[i].waker.clone();
        let mut cx = Context::from_waker(&waker);
        self.transitions += 1;
        let r = fut.as_mut().poll(&mut cx);
        self.ops[i].fut = Some(fut);
        if let Poll::Ready(fin) = r {
            self.on_result(i, fin);
        }
    }

    fn ready(&mut self, f: usize) {
        for (i, o) in self.sc.ops.iter().enumerate() {
            if o.fd == f && self.ops[i].submitted {
                self.ops[i].ready_after_submit += 1;
            }
        }
        match &mut self.fds[f] {
            FdEnv::Stream { peer, written, boundaries, .. } => {
                let base = written.len();
                let data: Vec<u8> = (0..BURST).map(|j| (base + j + 1) as u8).collect();
                write_all(peer.as_raw_fd(), &data);
                written.extend_from_slice(&data);
                boundaries.push(written.len());
            }
            FdEnv::Listener { addr, len, clients, claimed, .. } => {
                let tag = clients.len() as u8 + 1;
                clients.push(unix_client(addr, *len, tag));
                claimed.push(false);
            }
            FdEnv::Blackhole { .. } => machinery("Ready step on a blackhole descriptor".into()),
        }
    }

    fn reap_once(&mut self) {
        self.transitions += 1;
        self.rt.poll_with(Some(Duration::ZERO));
        self.rt.run();
    }

    fn progress_stamp(&self) -> (usize, usize) {
        (
            self.ops.iter().filter(|o| o.result.is_some()).count(),
            self.ops.iter().filter(|o| o.submitted && o.probe.released()).count(),
        )
    }

    /// reap + poll woken futures until nothing observable changes
    fn settle(&mut self) {
        let mut quiet = 0;
        let mut rounds = 0;
        while quiet < quiet_rounds(self.cfg.driver) {
            rounds += 1;
            if rounds > MAX_ROUNDS {
                self.vio("settle:no-quiescence", None, format!("still changing after {MAX_ROUNDS} harvest rounds"));
                return;
            }
            let before = self.progress_stamp();
            self.reap_once();
            let mut progressed = false;
            for i in 0..self.ops.len() {
                if self.ops[i].fut.is_some()
                    && self.ops[i].result.is_none()
                    && self.ops[i].flag.0.swap(false, Ordering::SeqCst)
                {
                    self.poll_op(i);
                    progressed = true;
                }
            }
            if progressed || self.progress_stamp() != before {
                quiet = 0;
            } else {
                quiet += 1;
            }
        }
    }

    fn fire(&mut self, k: usize) {
        let again = self.fired[k];
        self.fired[k] = true;
        for (i, o) in self.sc.ops.iter().enumerate() {
            if o.tok == Some(k) && self.ops[i].submitted && self.ops[i].result.is_none() && !again {
                self.ops[i].routes.push("token");
                self.reached.push("cancel_token");
            }
        }
        if again {
            self.reached.push("cancel_again_token");
        }
        self.transitions += 1;
        self.tokens[k].clone().cancel();
    }

    fn drop_future(&mut self, i: usize) {
        if self.ops[i].result.is_none() {
            if self.cancelled(i) {
                self.reached.push("cancel_again_drop");
            }
            self.ops[i].routes.push("drop");
            self.ops[i].dropped_unfinished = true;
            self.reached.push("cancel_drop");
        } else if self.history.last().map(|s| s.as_str()) != Some("teardown-drop-all") {
            self.reached.push("drop_after_completion");
        }
        self.transitions += 1;
        self.ops[i].fut = None;
    }

    fn timeout(&mut self, i: usize) {
        if self.ops[i].result.is_none() && !self.ops[i].timeout_wrapped {
            let old = self.ops[i].fut.take().expect("held future");
            let wrapped: OpFut = Box::pin(async move {
                match compio_runtime::time::timeout(Duration::from_millis(1), old).await {
                    Ok(fin) => fin,
                    Err(_) => Fin::Elapsed,
                }
            });
            self.ops[i].fut = Some(wrapped);
            self.ops[i].timeout_wrapped = true;
            self.poll_op(i);
            if self.ops[i].result.as_deref() == Some("Elapsed") {
                // the harness thread lost the CPU for more than the 1 ms deadline between creating
                // the timeout and polling it for the first time: the timer fired before the
                // explicit sleep step. Not an observation of compio - the execution is repeated.
                self.disturbed = true;
            }
            if self.ops[i].result.is_none() {
                if self.cancelled(i) {
                    self.reached.push("cancel_again_timeout");
                }
                self.ops[i].routes.push("timeout");
                self.reached.push("cancel_timeout");
            }
        }
        std::thread::sleep(Duration::from_millis(3));
    }

    // ---------------------------------------------------------------------------------------
    // oracle
    // ---------------------------------------------------------------------------------------

    fn on_result(&mut self, i: usize, fin: Fin) {
        let spec = self.sc.ops[i];
        let cancelled = self.cancelled(i);
        let class;
        match fin {
            Fin::Elapsed => {
                class = "Elapsed".to_string();
                if !self.ops[i].timeout_wrapped {
                    self.vio("honest:elapsed-without-timeout", Some(i), "Elapsed from an op that was never put under a timeout".into());
                }
                // the wrapper dropped the inner future: from here on this is the drop route
                self.ops[i].dropped_unfinished = true;
                self.reached.push("timeout_elapsed");
            }
            Fin::Out(OpOut::Data(res, snap)) => match res {
                Ok(n) => {
                    class = if cancelled { "Ok(data)-though-cancelled".into() } else { "Ok(data)".to_string() };
                    self.claim_bytes(i, n, &snap, "result");
                    if cancelled {
                        self.reached.push("cancelled_op_genuine_result");
                    }
                }
                Err(e) => {
                    class = format!("Err({})", errclass(&e));
                    self.judge_error(i, &e);
                    if snap.iter().any(|b| *b != CANARY) {
                        self.vio(
                            "honest:error-but-buffer-written",
                            Some(i),
                            format!("result {e:?} but the buffer holds {snap:?} (bytes taken from the stream and not reported)"),
                        );
                    }
                }
            },
            Fin::Out(OpOut::Accepted(res, sock)) => match res {
                Ok(_) => {
                    class = if cancelled { "Ok(conn)-though-cancelled".into() } else { "Ok(conn)".to_string() };
                    self.claim_client(i, sock);
                }
                Err(e) => {
                    class = format!("Err({})", errclass(&e));
                    self.judge_error(i, &e);
                }
            },
            Fin::Out(OpOut::Unit(res)) => match res {
                Ok(n) => {
                    class = "Ok".to_string();
                    match spec.kind {
                        OpKind::PollR => {
                            if !(self.ops[i].readable_at_submit || self.ops[i].ready_after_submit > 0) {
                                self.vio(
                                    "honest:fabricated-readiness",
                                    Some(i),
                                    format!("PollOnce(Readable) returned Ok({n}) although the descriptor was never readable since its submission"),
                                );
                            }
                        }
                        _ => {
                            self.vio(
                                "honest:fabricated-success",
                                Some(i),
                                format!("{} returned Ok({n}) although its event can never happen (accept queue of the target is full)", spec.kind.name()),
                            );
                        }
                    }
                }
                Err(e) => {
                    class = format!("Err({})", errclass(&e));
                    self.judge_error(i, &e);
                }
            },
        }
        self.trace(|| format!("op{i} ({}) -> {class}", spec.kind.name()));
        self.ops[i].result = Some(class);
    }

    fn judge_error(&mut self, i: usize, e: &io::Error) {
        let cancelled = self.cancelled(i);
        if e.is_cancelled() {
            if cancelled {
                self.reached.push("cancelled_op_cancel_error");
            } else {
                self.vio(
                    "local:uncancelled-op-got-cancel-error",
                    Some(i),
                    format!("op{i} was never cancelled (its future is alive, its token did not fire) but completed with {e:?}"),
                );
            }
        } else if cancelled {
            self.vio("honest:foreign-error", Some(i), format!("cancelled op{i} completed with {e:?}: neither a cancellation error nor a genuine result"));
        } else {
            self.vio("local:uncancelled-op-failed", Some(i), format!("op{i} was not cancelled and nothing is wrong with its descriptor, but it completed with {e:?}"));
        }
    }

    /// bytes a reader claims to have received (or swallowed): must be a run of what the peer wrote
    fn claim_bytes(&mut self, i: usize, n: usize, snap: &[u8], how: &'static str) {
        let f = self.sc.ops[i].fd;
        let FdEnv::Stream { written, .. } = &self.fds[f] else { unreachable!() };
        let written = written.clone();
        if n == 0 {
            self.vio("honest:fabricated-eof", Some(i), format!("{how}: Ok(0) (end of stream) although the peer is open and the buffer has room"));
            return;
        }
        if n > snap.len() {
            self.vio("honest:fabricated-bytes", Some(i), format!("{how}: Ok({n}) exceeds the buffer capacity {}", snap.len()));
            return;
        }
        let bytes = &snap[..n];
        let start = bytes[0] as usize;
        let genuine = start >= 1 && start - 1 + n <= written.len() && written[start - 1..start - 1 + n] == *bytes;
        if !genuine {
            self.vio(
                "honest:fabricated-bytes",
                Some(i),
                format!("{how}: Ok({n}) with bytes {bytes:?}, which are not a run of what the peer wrote ({written:?})"),
            );
            return;
        }
        if snap[n..].iter().any(|b| *b != CANARY) {
            self.vio("honest:wrote-beyond-count", Some(i), format!("{how}: Ok({n}) but the buffer is {snap:?}"));
        }
        self.chunks[f].push(Chunk { op: i, start: start - 1, len: n, cap_filled: n == snap.len(), how });
    }

    fn claim_client(&mut self, i: usize, sock: Option<OwnedFd>) {
        let f = self.sc.ops[i].fd;
        let Some(sock) = sock else {
            self.vio("honest:fabricated-accept", Some(i), "Ok without an accepted socket".into());
            return;
        };
        let tag = drain(sock.as_raw_fd());
        let FdEnv::Listener { claimed, .. } = &mut self.fds[f] else { unreachable!() };
        let ok = tag.len() == 1 && (tag[0] as usize) >= 1 && (tag[0] as usize) <= claimed.len() && !claimed[tag[0] as usize - 1];
        if ok {
            claimed[tag[0] as usize - 1] = true;
        } else {
            self.vio("honest:fabricated-accept", Some(i), format!("accepted socket does not belong to an unclaimed harness client (tag bytes {tag:?})"));
        }
    }

    /// evaluated after every settle
    fn judge(&mut self, at: &str) {
        for i in 0..self.ops.len() {
            if !self.ops[i].submitted {
                continue;
            }
            let released = self.ops[i].probe.released();
            if self.cancelled(i) && self.ops[i].result.is_none() {
                if self.ops[i].fut.is_some() {
                    self.vio(
                        "prompt:still-pending",
                        Some(i),
                        format!("at {at}: op{i} was cancelled ({}) and the driver was harvested to quiescence, but its future is still Pending", self.ops[i].routes.join("+")),
                    );
                } else if !released {
                    self.vio(
                        "prompt:storage-not-released",
                        Some(i),
                        format!("at {at}: op{i}'s future was dropped and the driver was harvested to quiescence, but the operation still holds its descriptor/buffer"),
                    );
                }
            }
            if self.ops[i].result.is_some() && !released {
                self.vio("prompt:storage-not-released", Some(i), format!("at {at}: op{i} returned ({:?}) but its descriptor/buffer were not handed back", self.ops[i].result));
            }
        }
        // locality / liveness: nobody who is entitled to an available event may be left waiting
        for f in 0..self.fds.len() {
            if matches!(self.fds[f], FdEnv::Blackhole { .. }) {
                continue;
            }
            if !readable(self.fds[f].mine().as_raw_fd()) {
                continue;
            }
            for i in 0..self.ops.len() {
                let o = self.sc.ops[i];
                if o.fd == f
                    && o.kind.wants_readable()
                    && self.ops[i].submitted
                    && !self.cancelled(i)
                    && self.ops[i].fut.is_some()
                    && self.ops[i].result.is_none()
                {
                    self.vio(
                        "local:starved",
                        Some(i),
                        format!("at {at}: descriptor fd{f} is readable (data / connection pending) and the driver was harvested to quiescence, but the uncancelled op{i} waiting for exactly that is still Pending"),
                    );
                }
            }
        }
    }

    /// "later completes with its model result once its descriptor is made ready"
    fn epilogue(&mut self) {
        for f in 0..self.fds.len() {
            if matches!(self.fds[f], FdEnv::Blackhole { .. }) {
                continue;
            }
            let waiting = |w: &Self| {
                (0..w.ops.len())
                    .filter(|&i| {
                        w.sc.ops[i].fd == f
                            && w.ops[i].submitted
                            && !w.cancelled(i)
                            && w.ops[i].fut.is_some()
                            && w.ops[i].result.is_none()
                    })
                    .count()
            };
            let mut budget = waiting(self) + 1;
            while waiting(self) > 0 && budget > 0 {
                budget -= 1;
                self.history.push(format!("epilogue:Ready({f})"));
                self.ready(f);
                self.settle();
                self.judge("epilogue");
                self.reached.push("epilogue_ready");
            }
            if waiting(self) > 0 {
                self.vio("local:never-completes", None, format!("fd{f}: uncancelled operations are still pending after the descriptor was made ready repeatedly"));
            }
        }
        // whoever is uncancelled and still pending now must be waiting on a blackhole
        for i in 0..self.ops.len() {
            if self.ops[i].submitted && !self.cancelled(i) && self.ops[i].result.is_none() && self.ops[i].fut.is_some() {
                self.reached.push("uncancelled_stays_pending");
            }
        }
    }

    fn conservation(&mut self) {
        for f in 0..self.fds.len() {
            match &self.fds[f] {
                FdEnv::Stream { mine, written, boundaries, .. } => {
                    let written = written.clone();
                    let boundaries = boundaries.clone();
                    let leftover = drain(mine.as_raw_fd());
                    // swallowed by dropped operations
                    for i in 0..self.ops.len() {
                        if self.sc.ops[i].fd != f {
                            continue;
                        }
                        let sw = self.ops[i].probe.swallowed.borrow().clone();
                        if let Some(snap) = sw {
                            let n = snap.iter().take_while(|b| **b != CANARY).count();
                            if snap[n..].iter().any(|b| *b != CANARY) {
                                self.vio("honest:fabricated-bytes", Some(i), format!("dropped op's buffer holds {snap:?}"));
                            } else if n > 0 {
                                if !self.ops[i].dropped_unfinished {
                                    self.vio("honest:bytes-lost", Some(i), format!("op{i} was never dropped unfinished but its buffer {snap:?} was discarded inside compio"));
                                }
                                self.claim_bytes(i, n, &snap, "swallowed");
                                self.reached.push("dropped_op_swallowed_bytes");
                            }
                        }
                    }
                    let mut chunks: Vec<(usize, usize, Option<usize>, bool)> =
                        self.chunks[f].iter().map(|c| (c.start, c.len, Some(c.op), c.cap_filled)).collect();
                    chunks.sort();
                    let mut pos = 0usize;
                    let mut desc = Vec::new();
                    for c in &self.chunks[f] {
                        desc.push(format!("op{}:{}..{}({})", c.op, c.start, c.start + c.len, c.how));
                    }
                    for (start, len, op, cap_filled) in chunks {
                        if start < pos {
                            self.vio("honest:bytes-duplicated", op, format!("stream fd{f}: bytes {start}..{} delivered twice; deliveries {desc:?}", pos.min(start + len)));
                        } else if start > pos {
                            self.vio("honest:bytes-lost", op, format!("stream fd{f}: bytes {pos}..{start} were taken from the stream but reported by nobody; deliveries {desc:?} written {written:?}"));
                        }
                        pos = pos.max(start + len);
                        if !cap_filled && !boundaries.contains(&(start + len)) {
                            self.vio("local:short-read", op, format!("stream fd{f}: read {start}..{} stops short of the buffer capacity although more bytes were available", start + len));
                        }
                    }
                    if written[pos.min(written.len())..] != leftover[..] {
                        self.vio(
                            "honest:bytes-lost",
                            None,
                            format!("stream fd{f}: peer wrote {written:?}, operations account for the first {pos} bytes, but the descriptor still holds {leftover:?}; deliveries {desc:?}"),
                        );
                    }
                }
                FdEnv::Listener { mine, clients, claimed, .. } => {
                    let mut state = claimed.clone();
                    let n = clients.len();
                    let mine = mine.clone();
                    // connections still waiting in the accept queue
                    loop {
                        let fd = unsafe { libc::accept4(mine.as_raw_fd(), std::ptr::null_mut(), std::ptr::null_mut(), libc::SOCK_NONBLOCK | libc::SOCK_CLOEXEC) };
                        if fd < 0 {
                            break;
                        }
                        let s = unsafe { OwnedFd::from_raw_fd(fd) };
                        let tag = drain(s.as_raw_fd());
                        if tag.len() == 1 && (tag[0] as usize) >= 1 && (tag[0] as usize) <= n && !state[tag[0] as usize - 1] {
                            state[tag[0] as usize - 1] = true;
                        } else {
                            self.vio("honest:connection-duplicated", None, format!("listener fd{f}: queued connection with tag {tag:?} is unknown or already delivered"));
                        }
                    }
                    let vanished = state.iter().filter(|s| !**s).count();
                    let may_swallow = (0..self.ops.len())
                        .filter(|&i| self.sc.ops[i].fd == f && self.ops[i].dropped_unfinished)
                        .count();
                    if vanished > 0 {
                        self.reached.push("dropped_op_swallowed_connection");
                    }
                    if vanished > may_swallow {
                        self.vio(
                            "honest:connection-lost",
                            None,
                            format!("listener fd{f}: {vanished} of {n} harness connections were taken from the accept queue and reported by nobody, only {may_swallow} accept futures were dropped unfinished"),
                        );
                    }
                }
                FdEnv::Blackhole { .. } => {}
            }
        }
    }

    fn outcome(&self) -> String {
        let mut parts: Vec<String> = (0..self.ops.len())
            .map(|i| {
                let o = &self.ops[i];
                format!(
                    "{}[{}]={}",
                    self.sc.ops[i].kind.name(),
                    if o.routes.is_empty() { "-".into() } else { o.routes.join("+") },
                    if !o.submitted {
                        "unsubmitted".to_string()
                    } else {
                        o.result.clone().unwrap_or_else(|| if o.fut.is_some() { "Pending".into() } else { "Dropped".into() })
                    }
                )
            })
            .collect();
        parts.sort();
        format!("{} {}", driver_name(self.cfg.driver), parts.join(" "))
    }
}

thread_local! { static OUTER: std::cell::RefCell<Option<CancelToken>> = const { std::cell::RefCell::new(None) }; }

fn wrap(f: impl Future<Output = Fin> + 'static, tok: Option<CancelToken>) -> OpFut {
    let outer = OUTER.with(|o| o.borrow_mut().take());
    match (tok, outer) {
        (Some(t), Some(o)) => Box::pin(f.with_cancel(t).with_cancel(o)),
        (Some(t), None) => Box::pin(f.with_cancel(t)),
        (None, _) => Box::pin(f),
    }
}

fn build_runtime(driver: DriverType) -> Runtime {
    let mut pb = ProactorBuilder::new();
    pb.driver_type(driver);
    pb.capacity(16);
    RuntimeBuilder::new()
        .with_proactor(pb)
        .build()
        .unwrap_or_else(|e| machinery(format!("cannot build runtime on {driver:?}: {e}")))
}

pub fn execute(sc: &Scenario, seq: &[Step], cfg: &Config) -> ExecResult {
    QUARANTINE.with(|q| q.borrow_mut().clear());
    let fds: Vec<FdEnv> = sc
        .fds
        .iter()
        .map(|k| match k {
            FdKind::Sock => {
                let (a, b) = socketpair();
                FdEnv::Stream { mine: Rc::new(a), peer: b, written: vec![], boundaries: vec![] }
            }
            FdKind::Pipe => {
                let (r, w) = pipe();
                FdEnv::Stream { mine: Rc::new(r), peer: w, written: vec![], boundaries: vec![] }
            }
            FdKind::Listener => {
                let (l, addr, len) = unix_listener();
                FdEnv::Listener { mine: Rc::new(l), addr, len, clients: vec![], claimed: vec![] }
            }
            FdKind::Blackhole => {
                let (s, addr) = blackhole_socket();
                FdEnv::Blackhole { mine: Rc::new(s), addr }
            }
        })
        .collect();
    let rt = build_runtime(cfg.driver);
    let ntok = crate::model::ntok(sc);
    let (mut vios, outcome, transitions, reached, history, fds, disturbed) = rt.enter(|| {
        let ops = sc
            .ops
            .iter()
            .map(|_| {
                let flag = Arc::new(Flag(AtomicBool::new(false)));
                OpRun {
                    probe: Rc::new(Probe::default()),
                    waker: Waker::from(flag.clone()),
                    flag,
                    fut: None,
                    submitted: false,
                    result: None,
                    routes: vec![],
                    timeout_wrapped: false,
                    readable_at_submit: false,
                    ready_after_submit: 0,
                    dropped_unfinished: false,
                }
            })
            .collect();
        let mut w = World {
            sc,
            cfg,
            rt: &rt,
            chunks: (0..fds.len()).map(|_| Vec::new()).collect(),
            fds,
            ops,
            tokens: (0..ntok).map(|_| CancelToken::new()).collect(),
            fired: vec![false; ntok],
            next: 0,
            vios: vec![],
            reached: vec![],
            transitions: 0,
            history: vec![],
            disturbed: false,
        };
        for s in seq {
            w.history.push(s.name());
            w.trace(|| format!("step {}", s.name()));
            match *s {
                Step::Submit => w.submit(),
                Step::Drop(i) => w.drop_future(i as usize),
                Step::Tok(k) => w.fire(k as usize),
                Step::Timeout(i) => w.timeout(i as usize),
                Step::Ready(f) => {
                    w.transitions += 1;
                    w.ready(f as usize)
                }
                Step::Harvest => {
                    w.settle();
                    w.judge("Harvest");
                }
                Step::Reap => w.reap_once(),
            }
        }
        // final verdict: settle, then a grace period during which nothing else may happen
        w.history.push("final-settle".into());
        w.settle();
        w.judge("final settle");
        if !cfg.grace.is_zero() {
            std::thread::sleep(cfg.grace);
        }
        w.settle();
        w.judge("after grace");
        w.epilogue();
        let outcome = w.outcome();
        // teardown: dropping what is left is the drop route for every remaining operation
        w.history.push("teardown-drop-all".into());
        for i in 0..w.ops.len() {
            if w.ops[i].fut.is_some() && w.ops[i].submitted {
                w.drop_future(i);
            }
        }
        w.settle();
        w.judge("teardown");
        w.tokens.clear();
        w.conservation();
        let fds = std::mem::take(&mut w.fds);
        (w.vios, outcome, w.transitions, w.reached, w.history, fds, w.disturbed)
    });
    drop(rt);
    // after the runtime is gone: nobody may have written into a buffer after compio released it
    let q = QUARANTINE.with(|q| std::mem::take(&mut *q.borrow_mut()));
    for (block, snap) in q {
        // SAFETY: the block was fully initialised and is kept alive by the quarantine
        let now = unsafe { std::slice::from_raw_parts(block.as_ptr(), block.capacity()) };
        if now != &snap[..] {
            vios.push(Vio {
                key: format!("{}:{}:release:write-after-release", driver_name(cfg.driver), sc.name),
                what: format!(
                    "a buffer released by compio holding {snap:?} was written afterwards (now {now:?}); driver={} scenario={} history={history:?}",
                    driver_name(cfg.driver),
                    sc.name
                ),
            });
        }
    }
    drop(fds);
    ExecResult { disturbed, vios, outcome, transitions, reached }
}

/// Is the token attached by `with_cancel` visible to the code it wraps?  Returns a description of
/// the failure.  (The combinator passes the token through a wrapper waker that is recognised by
/// comparing waker vtables; see known finding `token-invisible`.)
pub fn token_canary(driver: DriverType) -> Option<String> {
    let rt = build_runtime(driver);
    let r = rt.enter(|| {
        let mut seen = Vec::new();
        for root in ["harness waker", "runtime waker"] {
            let flag = Arc::new(Flag(AtomicBool::new(false)));
            let waker = if root == "harness waker" { Waker::from(flag.clone()) } else { rt.waker() };
            let mut cx = Context::from_waker(&waker);
            let tok = CancelToken::new();
            let mut fut: Pin<Box<dyn Future<Output = bool>>> =
                Box::pin(async { CancelToken::current().await.is_some() }.with_cancel(tok));
            match fut.as_mut().poll(&mut cx) {
                Poll::Ready(true) => {}
                Poll::Ready(false) => seen.push(root),
                Poll::Pending => machinery("token canary future is pending".into()),
            }
        }
        seen
    });
    if r.is_empty() {
        None
    } else {
        Some(format!(
            "`async {{ CancelToken::current().await }}.with_cancel(token)` polled once under the {} sees NO token on the {} driver: \
             operations submitted inside `with_cancel` are never registered with the token, `token.cancel()` cancels nothing",
            r.join(" and the "),
            driver_name(driver)
        ))
    }
}
