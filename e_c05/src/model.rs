//! Scenarios (which operations on which descriptors under which token), the harness step
//! alphabet, enabledness and the exhaustive enumeration of step sequences.
//!
//! Enabledness depends only on harness-level facts (what was submitted / dropped / fired), never
//! on anything compio or the kernel answered, so the set of sequences is a pure function of
//! (scenario, bounds) and is enumerated up front with `vcore::explore`.

use vcore::Chooser;

#[derive(Clone, Copy, Debug, PartialEq, Eq)]
pub enum FdKind {
    /// AF_UNIX stream socketpair; compio gets one end, the harness keeps the peer
    Sock,
    /// anonymous pipe; compio gets the read end
    Pipe,
    /// AF_UNIX stream listener on an abstract address; the harness connects clients
    Listener,
    /// fresh TCP socket whose only use is a connect to a loopback listener with a full accept
    /// queue (the SYN is dropped: the connect stays in progress until cancelled)
    Blackhole,
}

#[derive(Clone, Copy, Debug, PartialEq, Eq)]
pub enum OpKind {
    Recv,
    Read,
    Accept,
    Connect,
    /// `PollOnce(Readable)`
    PollR,
    /// `PollOnce(Writable)`
    PollW,
    /// multishot receive STREAM (`SubmitMultiStream` over `RecvMulti` with the runtime's buffer
    /// pool - what `read_multi` / `recv_multi` of compio-net are made of) drained by a consumer
    /// loop; the "operation" finishes when the stream ends
    RecvMulti,
}

impl OpKind {
    pub fn name(self) -> &'static str {
        match self {
            OpKind::Recv => "recv",
            OpKind::Read => "read",
            OpKind::Accept => "accept",
            OpKind::Connect => "connect",
            OpKind::PollR => "pollonce_r",
            OpKind::PollW => "pollonce_w",
            OpKind::RecvMulti => "recv_multi",
        }
    }

    /// completes when its descriptor becomes readable (data / pending connection)
    pub fn wants_readable(self) -> bool {
        matches!(self, OpKind::Recv | OpKind::Read | OpKind::Accept | OpKind::PollR | OpKind::RecvMulti)
    }

    pub fn is_stream(self) -> bool {
        self == OpKind::RecvMulti
    }
}

/// How the token reaches the operation: the order / nesting of the public combinators between the
/// operation's future (or stream) and the harness's `poll` (part of the cancellation-route dimension).
/// Personality 0 ("no personality") is valid on io_uring and ignored by the polling driver.
#[derive(Clone, Copy, Debug, PartialEq, Eq)]
pub enum Nest {
    /// `f.with_cancel(t)`
    Cancel,
    /// `f.with_personality(0).with_cancel(t)` - the token is the OUTER combinator
    PersCancel,
    /// `f.with_cancel(t).with_personality(0)`
    CancelPers,
    /// `f.with_personality(0).with_cancel(t).with_personality(0)`
    PersCancelPers,
    /// `rt.submit(op).with_extra()` (the `Submit<T, Extra>` future) inside `with_cancel(t)`
    Extra,
    /// `rt.submit(op).with_extra()` inside `.with_personality(0).with_cancel(t)`
    ExtraPers,
    /// `f.with_cancel(t).fail_fast()`: the wrapper itself answers `Err(Cancelled)` when the token fires
    FailFast,
    /// streams only: the STREAM is bare, the token scope is a `with_cancel(t)` around the consumer
    /// future (`async { while let Some(x) = s.next().await {..} }.with_cancel(t)`)
    FutScope,
}

impl Nest {
    pub fn name(self) -> &'static str {
        match self {
            Nest::Cancel => "cancel",
            Nest::PersCancel => "pers.cancel",
            Nest::CancelPers => "cancel.pers",
            Nest::PersCancelPers => "pers.cancel.pers",
            Nest::Extra => "extra.cancel",
            Nest::ExtraPers => "extra.pers.cancel",
            Nest::FailFast => "cancel.failfast",
            Nest::FutScope => "futscope",
        }
    }

    pub fn through_personality(self) -> bool {
        matches!(self, Nest::PersCancel | Nest::CancelPers | Nest::PersCancelPers | Nest::ExtraPers)
    }
}

#[derive(Clone, Copy, Debug)]
pub struct OpSpec {
    pub kind: OpKind,
    pub fd: usize,
    /// token the future is wrapped with (`with_cancel`); `None` = plain future, no token (then
    /// nothing but the driver and the future keep the operation's storage alive)
    pub tok: Option<usize>,
    /// an OUTER cancel scope wrapped around the inner one (`f.with_cancel(tok).with_cancel(outer)`):
    /// the innermost scope owns the operation, the outer token must not affect it
    pub outer: Option<usize>,
    /// combinator nesting that carries `tok` (ignored for token-less operations)
    pub nest: Nest,
    /// the future lives in a task spawned on the runtime and is polled by the EXECUTOR (inside every
    /// reap); the harness holds the `JoinHandle`: `Drop(i)` is then "cancel the task"
    pub task: bool,
}

impl OpSpec {
    /// name used in violation keys: the plain kind for the plain shape (keys of the original
    /// scenarios are unchanged), kind@nesting / kind@task otherwise
    pub fn key_name(&self) -> String {
        let mut s = self.kind.name().to_string();
        if self.tok.is_some() && self.nest != Nest::Cancel {
            s.push('@');
            s.push_str(self.nest.name());
        }
        if self.task {
            s.push_str("@task");
        }
        s
    }

    pub fn describe(&self) -> String {
        format!("{}@fd{}/{}", self.key_name(), self.fd, self.tok_name())
    }

    pub fn tok_name(&self) -> String {
        match self.tok {
            Some(k) => format!("tok{k}"),
            None => "plain".into(),
        }
    }
}

pub fn ntok(sc: &Scenario) -> usize {
    sc.ops.iter().flat_map(|o| [o.tok, o.outer]).flatten().map(|k| k + 1).max().unwrap_or(0)
}

#[derive(Clone, Debug)]
pub struct Scenario {
    pub name: &'static str,
    /// quick tier: explored one step deeper on the polling driver (the two shapes the property
    /// names explicitly: two recvs on one socket, recv + PollOnce on one descriptor)
    pub deeper: bool,
    pub fds: Vec<FdKind>,
    pub ops: Vec<OpSpec>,
    /// additional `Ready` steps per descriptor / `Reap` steps per sequence on top of the tier's
    /// bounds (stream scenarios: 0, 1, 2 chunks reaped but not yet taken need two of each)
    pub more_ready: u8,
    pub more_reap: u8,
    /// explored this many steps deeper on io_uring (single-operation scenarios are cheap)
    pub iour_bonus: usize,
}

impl Scenario {
    pub fn extra_depth(&self, b: &Bounds) -> usize {
        (self.deeper as usize * b.deeper_bonus).max(self.iour_bonus)
    }
}

fn sc(name: &'static str, deeper: bool, fds: Vec<FdKind>, ops: Vec<OpSpec>) -> Scenario {
    Scenario { name, deeper, fds, ops, more_ready: 0, more_reap: 0, iour_bonus: 0 }
}

fn op(kind: OpKind, fd: usize, tok: usize) -> OpSpec {
    OpSpec { kind, fd, tok: Some(tok), outer: None, nest: Nest::Cancel, task: false }
}

fn plain(kind: OpKind, fd: usize) -> OpSpec {
    OpSpec { kind, fd, tok: None, outer: None, nest: Nest::Cancel, task: false }
}

fn nest(kind: OpKind, fd: usize, tok: usize, nest: Nest) -> OpSpec {
    OpSpec { nest, ..op(kind, fd, tok) }
}

pub fn scenarios() -> Vec<Scenario> {
    use FdKind::*;
    use OpKind::*;
    vec![
        sc("recv2", true, vec![Sock], vec![op(Recv, 0, 0), op(Recv, 0, 1)]),
        // nested cancel scopes: op 0 sits in scope tok0 inside scope tok1; op 1 in scope tok1 only
        sc("nested-scopes", false, vec![Sock], vec![OpSpec { outer: Some(1), ..op(Recv, 0, 0) }, op(Recv, 0, 1)]),
        sc("recv2-one-token", false, vec![Sock], vec![op(Recv, 0, 0), op(Recv, 0, 0)]),
        sc("recv+pollonce", true, vec![Sock], vec![op(Recv, 0, 0), op(PollR, 0, 1)]),
        sc("pollonce+recv", false, vec![Sock], vec![plain(PollR, 0), op(Recv, 0, 0)]),
        sc("accept2", false, vec![Listener], vec![op(Accept, 0, 0), plain(Accept, 0)]),
        sc("piperead2", false, vec![Pipe], vec![plain(Read, 0), op(Read, 0, 0)]),
        sc("connect+pollonce", false, vec![Blackhole], vec![op(Connect, 0, 0), op(PollW, 0, 1)]),
        sc("recv2+piperead", false, vec![Sock, Pipe], vec![op(Recv, 0, 0), plain(Recv, 0), op(Read, 1, 0)]),
        sc("recv+pollonce+accept", false, vec![Sock, Listener], vec![op(Recv, 0, 0), op(PollR, 0, 1), op(Accept, 1, 1)]),
        sc("connect+recv2", false, vec![Blackhole, Sock], vec![op(Connect, 0, 0), op(Recv, 1, 0), op(Recv, 1, 1)]),
        // ---- the combinator nesting that carries the token, as part of the route dimension
        sc("nest-pers-cancel", false, vec![Sock], vec![nest(Recv, 0, 0, Nest::PersCancel), nest(Recv, 0, 1, Nest::CancelPers)]),
        sc("nest-extra", false, vec![Pipe], vec![nest(Read, 0, 0, Nest::Extra), nest(Read, 0, 1, Nest::PersCancelPers)]),
        sc("nest-accept", false, vec![Listener], vec![nest(Accept, 0, 0, Nest::PersCancel), nest(Accept, 0, 1, Nest::ExtraPers)]),
        // personality nesting inside an outer cancel scope; fail-fast scope
        sc(
            "nest-scopes-failfast",
            false,
            vec![Sock],
            vec![OpSpec { outer: Some(1), ..nest(Recv, 0, 0, Nest::PersCancel) }, nest(Recv, 0, 1, Nest::FailFast)],
        ),
        // ---- multishot receive streams as cancellable subjects
        Scenario { more_ready: 1, more_reap: 1, iour_bonus: 1, ..sc("recvmulti", true, vec![Sock], vec![op(RecvMulti, 0, 0)]) },
        sc("recvmulti+recv", false, vec![Sock], vec![op(RecvMulti, 0, 0), op(Recv, 0, 1)]),
        Scenario {
            more_ready: 1,
            ..sc("recvmulti-task", true, vec![Sock], vec![OpSpec { task: true, ..op(RecvMulti, 0, 0) }])
        },
        // the token reaching the stream through a personality nesting (`StreamExt` combinators) and
        // through a scope around the consumer future
        sc("recvmulti-pers", false, vec![Sock], vec![nest(RecvMulti, 0, 0, Nest::PersCancel)]),
        sc("recvmulti-futscope", false, vec![Sock], vec![nest(RecvMulti, 0, 0, Nest::FutScope)]),
    ]
}

#[derive(Clone, Copy, Debug, PartialEq, Eq)]
pub enum Step {
    /// create operation `next` (canonical order 0,1,2) under its token and poll it once;
    /// after its token fired this is the "register after fire" step
    Submit,
    /// cancellation route 1: drop the future (also: drop after completion)
    Drop(u8),
    /// cancellation route 2: `CancelToken::cancel` on token k (a second time: cancel again)
    Tok(u8),
    /// cancellation route 3: wrap the pending future into `timeout(1 ms, fut)`, poll it once and
    /// sleep 3 ms (the only real-time step)
    Timeout(u8),
    /// peer writes 3 fresh bytes / a new client connects
    Ready(u8),
    /// reap completions and poll every woken future until quiescence; the oracle is evaluated
    Harvest,
    /// reap completions once WITHOUT polling the futures (results sit in the driver: the
    /// "cancel after completion" window)
    Reap,
}

impl Step {
    pub fn name(&self) -> String {
        match self {
            Step::Submit => "Submit".into(),
            Step::Drop(i) => format!("Drop({i})"),
            Step::Tok(k) => format!("Tok({k})"),
            Step::Timeout(i) => format!("Timeout({i})"),
            Step::Ready(f) => format!("Ready({f})"),
            Step::Harvest => "Harvest".into(),
            Step::Reap => "Reap".into(),
        }
    }

    pub fn parse(s: &str) -> Option<Step> {
        let arg = |p: &str| -> Option<u8> { s.strip_prefix(p)?.strip_suffix(')')?.parse().ok() };
        Some(match s {
            "Submit" => Step::Submit,
            "Harvest" => Step::Harvest,
            "Reap" => Step::Reap,
            _ => {
                if let Some(i) = arg("Drop(") {
                    Step::Drop(i)
                } else if let Some(i) = arg("Tok(") {
                    Step::Tok(i)
                } else if let Some(i) = arg("Timeout(") {
                    Step::Timeout(i)
                } else if let Some(i) = arg("Ready(") {
                    Step::Ready(i)
                } else {
                    return None;
                }
            }
        })
    }
}

#[derive(Clone, Copy, Debug)]
pub struct Bounds {
    pub depth: usize,
    /// extra depth for scenarios marked `deeper`
    pub deeper_bonus: usize,
    /// MakeReady steps per descriptor inside the enumerated part (the epilogue adds more)
    pub max_ready: u8,
    /// Timeout steps per sequence (each costs 3 ms of real time)
    pub max_timeout: u8,
    /// Reap steps per sequence
    pub max_reap: u8,
    /// second `cancel()` calls on an already fired token per sequence
    pub max_again: u8,
}

/// harness-level state used for enabledness only
struct Abs {
    next: usize,
    submitted: Vec<bool>,
    held: Vec<bool>,
    fired: Vec<u8>,
    ready: Vec<u8>,
    timeouts: u8,
    reaps: u8,
    agains: u8,
    last: Option<Step>,
}

fn enabled(sc: &Scenario, b: &Bounds, a: &Abs) -> Vec<Step> {
    let mut v = Vec::new();
    if a.next < sc.ops.len() {
        v.push(Step::Submit);
    }
    for i in 0..sc.ops.len() {
        if a.submitted[i] && a.held[i] {
            v.push(Step::Drop(i as u8));
        }
    }
    for k in 0..ntok(sc) {
        if a.fired[k] == 0 || (a.fired[k] == 1 && a.agains < b.max_again) {
            v.push(Step::Tok(k as u8));
        }
    }
    if a.timeouts < b.max_timeout {
        for i in 0..sc.ops.len() {
            if a.submitted[i] && a.held[i] {
                v.push(Step::Timeout(i as u8));
            }
        }
    }
    for (f, k) in sc.fds.iter().enumerate() {
        if *k != FdKind::Blackhole && a.ready[f] < b.max_ready + sc.more_ready {
            v.push(Step::Ready(f as u8));
        }
    }
    let any_submitted = a.submitted.iter().any(|s| *s);
    if any_submitted && a.last != Some(Step::Harvest) {
        v.push(Step::Harvest);
    }
    if any_submitted && a.reaps < b.max_reap + sc.more_reap && !matches!(a.last, Some(Step::Harvest) | Some(Step::Reap)) {
        v.push(Step::Reap);
    }
    v
}

fn apply(sc: &Scenario, a: &mut Abs, s: Step) {
    match s {
        Step::Submit => {
            a.submitted[a.next] = true;
            a.held[a.next] = true;
            a.next += 1;
        }
        Step::Drop(i) => a.held[i as usize] = false,
        Step::Tok(k) => {
            if a.fired[k as usize] > 0 {
                a.agains += 1;
            }
            a.fired[k as usize] += 1;
        }
        Step::Timeout(_) => a.timeouts += 1,
        Step::Ready(f) => a.ready[f as usize] += 1,
        Step::Harvest => {}
        Step::Reap => a.reaps += 1,
    }
    let _ = sc;
    a.last = Some(s);
}

/// One run of the enumeration closure: draws a sequence (choice 0 at every point = stop here).
pub fn draw(sc: &Scenario, b: &Bounds, ch: &mut Chooser) -> Vec<Step> {
    let n = sc.ops.len();
    let ntok = ntok(sc);
    let mut a = Abs {
        next: 0,
        submitted: vec![false; n],
        held: vec![false; n],
        fired: vec![0; ntok],
        ready: vec![0; sc.fds.len()],
        timeouts: 0,
        reaps: 0,
        agains: 0,
        last: None,
    };
    let mut seq = Vec::new();
    while seq.len() < b.depth {
        let en = enabled(sc, b, &a);
        let c = ch.pick(en.len() + 1);
        if c == 0 {
            break;
        }
        let s = en[c - 1];
        apply(sc, &mut a, s);
        seq.push(s);
    }
    seq
}

/// All sequences of a scenario within the bounds, each with the choice list that produced it.
pub fn enumerate(sc: &Scenario, b: &Bounds) -> Vec<(Vec<Step>, Vec<u32>)> {
    let b = &Bounds { depth: b.depth + sc.extra_depth(b), ..*b };
    let mut out = Vec::new();
    vcore::explore(0, u64::MAX, |ch| {
        let seq = draw(sc, b, ch);
        // a sequence that never submits anything exercises nothing of compio; a trailing Harvest is
        // exactly what the final verdict does anyway (same execution as the sequence without it)
        if seq.iter().any(|s| *s == Step::Submit) && seq.last() != Some(&Step::Harvest) {
            out.push((seq, ch.choices()));
        }
        true
    });
    out
}
