//! e_c05 — C05 "Cancellation is prompt, honest and local".
//!
//! Real-kernel operation-sequence explorer (engine E1): every enabled sequence of harness steps
//! {Submit, Drop(i), Tok(k), Timeout(i), Ready(fd), Harvest, Reap} up to a depth bound, for every
//! scenario (2-3 pending interruptible operations, at least two of them on ONE descriptor) and
//! both drivers, each on a fresh `Runtime`, judged by the oracle in `world.rs`.

mod model;
mod world;

/// Every freed heap block is overwritten with 0xDD and parked in a per-thread FIFO quarantine
/// (the last 1024 small blocks) before it really goes back to the system allocator: a
/// use-after-free in the code under test then reads deterministic garbage (wild pointers,
/// impossible enum tags) instead of the stale but intact - or already recycled - object, in the
/// exploration and in the isolated re-execution alike.
struct PoisonAlloc;

static NOQUAR: AtomicBool = AtomicBool::new(false);
const QN: usize = 1024;
const QMAX: usize = 4096;

struct Quarantine {
    slots: [(*mut u8, usize, usize); QN],
    next: usize,
}

thread_local! {
    static FREED: std::cell::UnsafeCell<Quarantine> =
        const { std::cell::UnsafeCell::new(Quarantine { slots: [(std::ptr::null_mut(), 0, 0); QN], next: 0 }) };
}

unsafe impl std::alloc::GlobalAlloc for PoisonAlloc {
    unsafe fn alloc(&self, l: std::alloc::Layout) -> *mut u8 {
        unsafe { std::alloc::System.alloc(l) }
    }

    unsafe fn alloc_zeroed(&self, l: std::alloc::Layout) -> *mut u8 {
        unsafe { std::alloc::System.alloc_zeroed(l) }
    }

    unsafe fn realloc(&self, p: *mut u8, l: std::alloc::Layout, n: usize) -> *mut u8 {
        unsafe { std::alloc::System.realloc(p, l, n) }
    }

    unsafe fn dealloc(&self, p: *mut u8, l: std::alloc::Layout) {
        unsafe {
            std::ptr::write_bytes(p, 0xDD, l.size());
            if l.size() > QMAX || NOQUAR.load(Ordering::Relaxed) {
                return std::alloc::System.dealloc(p, l);
            }
            // the slot array lives in static TLS: no allocation, no destructor
            let evicted = FREED.try_with(|q| {
                let q = &mut *q.get();
                let old = q.slots[q.next];
                q.slots[q.next] = (p, l.size(), l.align());
                q.next = (q.next + 1) % QN;
                old
            });
            match evicted {
                Ok((op, size, align)) => {
                    if !op.is_null() {
                        std::alloc::System.dealloc(op, std::alloc::Layout::from_size_align_unchecked(size, align));
                    }
                }
                Err(_) => std::alloc::System.dealloc(p, l),
            }
        }
    }
}

#[global_allocator]
static ALLOC: PoisonAlloc = PoisonAlloc;

use std::{
    sync::atomic::{AtomicBool, AtomicU64, Ordering},
    time::{Duration, Instant},
};

use compio_driver::DriverType;
use model::{Bounds, Scenario, Step};
use vcore::{Report, Tier, Violation, json};
use world::{Config, ExecResult, driver_name, execute};

const MUST_REACH: &[&str] = &[
    "cancel_drop",
    "cancel_token",
    "cancel_timeout",
    "register_after_fire",
    "cancel_again_token",
    "cancel_again_drop",
    "drop_after_completion",
    "timeout_elapsed",
    "cancelled_op_cancel_error",
    "cancelled_op_genuine_result",
    "epilogue_ready",
    "uncancelled_stays_pending",
    "dropped_op_swallowed_bytes",
    // the combinator nesting that carries the token (route dimension)
    "token_through_personality_nesting",
    "latereg_through_personality_nesting",
    "token_through_extra_nesting",
    "latereg_through_extra_nesting",
    "token_through_failfast",
    "failfast_answered_cancelled",
    "token_scope_around_stream_consumer",
    // multishot receive streams as cancellable subjects
    "cancel_task",
    "multishot_cancelled_with_untaken_chunks",
    "multishot_token_untaken_0",
    "multishot_token_untaken_1",
    "multishot_token_untaken_2",
    "multishot_drop_untaken_0",
    "multishot_drop_untaken_1",
    "multishot_drop_untaken_2",
    "multishot_taskcancel_untaken_0",
    "multishot_taskcancel_untaken_1",
    "multishot_timeout_untaken_0",
    "multishot_timeout_untaken_1plus",
    "cancelled_stream_delivered_reaped_chunk",
    "stream_reported_cancel_error",
    "cancelled_stream_ended",
    "cancelled_stream_stopped_consuming",
    "dropped_stream_swallowed_bytes",
    "epilogue_stream_delivers",
];

fn drivers() -> Vec<DriverType> {
    match std::env::var("C05_DRIVER").ok().as_deref() {
        Some("poll") => vec![DriverType::Poll],
        Some("iour") => vec![DriverType::IoUring],
        _ => vec![DriverType::Poll, DriverType::IoUring],
    }
}

fn parse_driver(s: &str) -> DriverType {
    match s {
        "poll" => DriverType::Poll,
        "iour" => DriverType::IoUring,
        _ => vcore::machinery_error(&format!("unknown driver {s}")),
    }
}

fn run_one(sc: &Scenario, seq: &[Step], cfg: &Config) -> ExecResult {
    for _ in 0..8 {
        let r = run_once(sc, seq, cfg);
        if !r.disturbed {
            return r;
        }
        DISTURBED.fetch_add(1, Ordering::Relaxed);
    }
    run_once(sc, seq, cfg)
}

static DISTURBED: AtomicU64 = AtomicU64::new(0);

fn run_once(sc: &Scenario, seq: &[Step], cfg: &Config) -> ExecResult {
    match vcore::catch(|| execute(sc, seq, cfg)) {
        Ok(r) => r,
        Err(msg) => {
            // canonical class of the panic message: text up to the first digit / quote
            let class: String = msg.chars().take_while(|c| !c.is_ascii_digit() && *c != '\'' && *c != '"').take(60).collect();
            let class = class.trim().replace(' ', "-");
            ExecResult {
                disturbed: false,
                vios: vec![world::Vio {
                    key: format!("{}:{}:panic:{}", driver_name(cfg.driver), sc.name, class),
                    what: format!(
                        "panic `{msg}` while executing driver={} scenario={} steps={:?}",
                        driver_name(cfg.driver),
                        sc.name,
                        seq.iter().map(|s| s.name()).collect::<Vec<_>>()
                    ),
                }],
                outcome: format!("{} panic", driver_name(cfg.driver)),
                transitions: seq.len() as u64,
                reached: vec![],
            }
        }
    }
}

fn replay_value(sc: &Scenario, driver: DriverType, seq: &[Step], choices: &[u32], tier: Tier) -> vcore::Value {
    json!({
        "engine": "e_c05",
        "tier": tier.name(),
        "driver": driver_name(driver),
        "scenario": sc.name,
        "steps": seq.iter().map(|s| s.name()).collect::<Vec<_>>(),
        "choices": choices,
        "how": "e_c05 C05 <tier> --replay <this file>",
    })
}

fn replay(path: &std::path::Path, grace: Duration) -> ! {
    let bytes = std::fs::read(path).unwrap_or_else(|e| vcore::machinery_error(&format!("cannot read {path:?}: {e}")));
    let v: vcore::Value = vcore::serde_json::from_slice(&bytes).unwrap_or_else(|e| vcore::machinery_error(&format!("{e}")));
    let r = if v.get("replay").is_some() { &v["replay"] } else { &v };
    if r["canary"].as_bool() == Some(true) {
        let d = parse_driver(r["driver"].as_str().unwrap_or(""));
        match world::token_canary(d) {
            Some(w) => {
                println!("replay: REPRODUCED: {w}");
                std::process::exit(1)
            }
            None => {
                println!("replay: token visible, not reproduced");
                std::process::exit(0)
            }
        }
    }
    let driver = parse_driver(r["driver"].as_str().unwrap_or(""));
    let scs = model::scenarios();
    let sc = scs
        .iter()
        .find(|s| Some(s.name) == r["scenario"].as_str())
        .unwrap_or_else(|| vcore::machinery_error("replay: unknown scenario"));
    let seq: Vec<Step> = r["steps"]
        .as_array()
        .unwrap_or_else(|| vcore::machinery_error("replay: no steps"))
        .iter()
        .map(|s| Step::parse(s.as_str().unwrap_or("")).unwrap_or_else(|| vcore::machinery_error(&format!("replay: bad step {s}"))))
        .collect();
    let token_invisible = drivers().into_iter().any(|d| world::token_canary(d).is_some());
    println!("replay: driver={} scenario={} steps={:?}", driver_name(driver), sc.name, seq.iter().map(|s| s.name()).collect::<Vec<_>>());
    // crash isolation: a use-after-free needs the allocator state of a long-running worker to bite;
    // warm the heap with silent repetitions of the same execution first
    let repeat: usize = std::env::var("C05_REPEAT").ok().and_then(|s| s.parse().ok()).unwrap_or(0);
    for _ in 0..repeat {
        let cfg = Config { driver, grace: Duration::ZERO, verbose: false, token_invisible };
        let _ = run_one(sc, &seq, &cfg);
    }
    let cfg = Config { driver, grace, verbose: true, token_invisible };
    let res = run_one(sc, &seq, &cfg);
    println!("replay: outcome {}", res.outcome);
    for v in &res.vios {
        println!("replay: VIOLATION key={} what={}", v.key, v.what);
    }
    std::process::exit(if res.vios.is_empty() { 0 } else { 1 })
}

struct Plan {
    bounds: Bounds,
    depth_poll: usize,
    depth_iour: usize,
    grace: Duration,
    wall_cap: Duration,
}

fn plan(tier: Tier) -> Plan {
    let envnum = |k: &str| std::env::var(k).ok().and_then(|s| s.parse::<usize>().ok());
    // a fresh io_uring ring costs milliseconds (setup + teardown are serialised inside the kernel),
    // a fresh epoll instance microseconds: the polling driver - whose cancellation logic lives in
    // user space (per-descriptor queues) - gets the deeper bound
    let depth_poll = envnum("C05_DEPTH").or(envnum("C05_DEPTH_POLL")).unwrap_or(tier.pick(5, 7));
    let depth_iour = envnum("C05_DEPTH").or(envnum("C05_DEPTH_IOUR")).unwrap_or(tier.pick(4, 5));
    Plan {
        bounds: Bounds {
            depth: depth_poll.max(depth_iour),
            deeper_bonus: envnum("C05_BONUS").unwrap_or(tier.pick(1, 0)),
            max_ready: tier.pick(1, 2),
            max_timeout: 1,
            max_reap: 1,
            max_again: 1,
        },
        depth_poll,
        depth_iour,
        grace: Duration::from_millis(envnum("C05_GRACE_MS").map(|x| x as u64).unwrap_or(tier.pick(2, 6))),
        wall_cap: Duration::from_secs(tier.pick(34, 560)),
    }
}

struct Item<'a> {
    sc: &'a Scenario,
    driver: DriverType,
    seq: Vec<Step>,
    choices: Vec<u32>,
}

/// deterministic: the supervisor and the worker compute the same list
fn items<'a>(scs: &'a [Scenario], pl: &Plan) -> (Vec<Item<'a>>, Vec<vcore::Value>) {
    let mut items: Vec<Item> = Vec::new();
    let mut per_scenario = Vec::new();
    for sc in scs {
        let seqs = model::enumerate(sc, &pl.bounds);
        let mut n = 0;
        for (seq, choices) in seqs {
            for d in drivers() {
                let depth = if d == DriverType::Poll {
                    pl.depth_poll + sc.deeper as usize * pl.bounds.deeper_bonus
                } else {
                    pl.depth_iour + sc.iour_bonus
                };
                if seq.len() > depth {
                    continue;
                }
                n += 1;
                items.push(Item { sc, driver: d, seq: seq.clone(), choices: choices.clone() });
            }
        }
        per_scenario.push(json!({"scenario": sc.name, "executions": n,
            "ops": sc.ops.iter().map(|o| o.describe()).collect::<Vec<_>>(),
            "extra_ready_steps": sc.more_ready, "extra_reap_steps": sc.more_reap, "extra_depth_iour": sc.iour_bonus}));
    }
    if let Ok(f) = std::env::var("C05_ONLY") {
        items.retain(|i| i.sc.name == f);
    }
    // shortest first: if the wall cap hits, everything below some depth is fully covered
    items.sort_by_key(|i| i.seq.len());
    (items, per_scenario)
}

// ---------------------------------------------------------------------------------------------
// crash containment: the exploration runs in a child process; a memory-unsafe defect in the code
// under test kills the child, not the verdict
// ---------------------------------------------------------------------------------------------

const SLOTS: usize = 1024;

struct Slots(*mut AtomicU64);
unsafe impl Sync for Slots {}
unsafe impl Send for Slots {}

fn map_slots(path: &std::path::Path) -> Slots {
    use std::os::fd::AsRawFd;
    let f = std::fs::OpenOptions::new()
        .read(true)
        .write(true)
        .create(true)
        .truncate(false)
        .open(path)
        .unwrap_or_else(|e| vcore::machinery_error(&format!("slots file {path:?}: {e}")));
    f.set_len((SLOTS * 8) as u64).unwrap();
    let p = unsafe {
        libc::mmap(std::ptr::null_mut(), SLOTS * 8, libc::PROT_READ | libc::PROT_WRITE, libc::MAP_SHARED, f.as_raw_fd(), 0)
    };
    if p == libc::MAP_FAILED {
        vcore::machinery_error("mmap of the slots file failed");
    }
    Slots(p as *mut AtomicU64)
}

impl Slots {
    fn at(&self, i: usize) -> &AtomicU64 {
        unsafe { &*self.0.add(i % SLOTS) }
    }
}

/// a worker that dies of a memory error must die quickly
fn no_core_dumps() {
    let z = libc::rlimit { rlim_cur: 0, rlim_max: 0 };
    unsafe { libc::setrlimit(libc::RLIMIT_CORE, &z) };
}

fn supervise(tier: Tier) -> ! {
    use std::os::unix::process::ExitStatusExt;
    let dir = std::env::var_os("TMPDIR").map(std::path::PathBuf::from).unwrap_or_else(|| "/tmp".into()).join(format!("e_c05-{}", std::process::id()));
    std::fs::create_dir_all(&dir).unwrap_or_else(|e| vcore::machinery_error(&format!("{dir:?}: {e}")));
    let cleanup = |code: i32| -> ! {
        let _ = std::fs::remove_dir_all(&dir);
        std::process::exit(code)
    };
    let slots_path = dir.join("slots");
    let slots = map_slots(&slots_path);
    let exe = std::env::current_exe().unwrap();
    let status = std::process::Command::new(&exe)
        .args(std::env::args().skip(1))
        .env("C05_CHILD", "1")
        .env("C05_SLOTS", &slots_path)
        .status()
        .unwrap_or_else(|e| vcore::machinery_error(&format!("cannot start the worker process: {e}")));
    if let Some(c) = status.code() {
        cleanup(c);
    }
    let sig = status.signal().unwrap_or(0);
    eprintln!("worker process died with signal {sig}; isolating the executions that were running");
    let pl = plan(tier);
    let scs = model::scenarios();
    let (items, _) = items(&scs, &pl);
    let mut cand: Vec<usize> = (0..SLOTS).map(|i| slots.at(i).load(Ordering::SeqCst) as usize).filter(|x| *x > 0).map(|x| x - 1).collect();
    cand.sort();
    cand.dedup();
    let report = Report::new("C05", tier);
    report.cap_hit(&format!("the worker process died with signal {sig}: the exploration was aborted, coverage is partial"));
    report.outcome("worker crashed");
    let confirmed = AtomicU64::new(0);
    vcore::par_for_each_n(&cand, 8, |_, &idx| {
        let Some(it) = items.get(idx) else { return };
        if confirmed.load(Ordering::Relaxed) >= 4 {
            return;
        }
        let rv = replay_value(it.sc, it.driver, &it.seq, &it.choices, tier);
        let f = dir.join(format!("cand-{idx}.json"));
        std::fs::write(&f, vcore::serde_json::to_vec(&json!({"replay": rv})).unwrap()).unwrap();
        let mut deaths = Vec::new();
        for _ in 0..3 {
            let st = std::process::Command::new(&exe)
                .args(["C05", tier.name(), "--replay"])
                .arg(&f)
                .env("C05_CHILD", "1")
                .env("C05_REPEAT", "40")
                .stdout(std::process::Stdio::null())
                .stderr(std::process::Stdio::null())
                .status();
            if let Ok(st) = st {
                if let Some(s) = st.signal() {
                    deaths.push(s);
                }
            }
        }
        report.add_execution(it.seq.len() as u64);
        if deaths.len() >= 2 {
            confirmed.fetch_add(1, Ordering::Relaxed);
            report.violation(Violation {
                key: format!("{}:{}:crash:signal{}", driver_name(it.driver), it.sc.name, deaths[0]),
                what: format!(
                    "harmless: the process is killed by signal {} (memory unsafety / abort inside the code under test) while executing driver={} scenario={} steps={:?}; reproduced {} of 3 times in a fresh process",
                    deaths[0],
                    driver_name(it.driver),
                    it.sc.name,
                    it.seq.iter().map(|s| s.name()).collect::<Vec<_>>(),
                    deaths.len()
                ),
                replay: rv,
            });
        }
    });
    let confirmed = confirmed.load(Ordering::Relaxed);
    let _ = std::fs::remove_dir_all(&dir);
    if confirmed == 0 {
        vcore::machinery_error(&format!("worker died with signal {sig} but no running execution reproduces the crash in isolation"));
    }
    report.finish()
}

fn main() {
    let args = vcore::parse_args();
    if args.property != "C05" {
        vcore::machinery_error(&format!("e_c05 serves C05 only, not {}", args.property));
    }
    let tier = args.tier;
    if std::env::var_os("C05_NOQUAR").is_some() {
        NOQUAR.store(true, Ordering::Relaxed);
    }
    let pl = plan(tier);
    let grace = pl.grace;
    // the whole process is a client of its own peers: a dead peer must not kill it
    unsafe { libc::signal(libc::SIGPIPE, libc::SIG_IGN) };
    if let Some(p) = &args.replay {
        if std::env::var_os("C05_CHILD").is_some() {
            no_core_dumps();
        }
        replay(p, grace);
    }
    if std::env::var_os("C05_CHILD").is_none() && std::env::var_os("C05_COUNT").is_none() {
        supervise(tier);
    }
    no_core_dumps();
    let slots = std::env::var_os("C05_SLOTS").map(|p| map_slots(std::path::Path::new(&p)));
    vcore::quiet_panics();
    let report = Report::new("C05", tier);
    let scs = model::scenarios();
    for k in MUST_REACH {
        report.must_reach(k);
    }

    // ---- canary: is a token attached with `with_cancel` visible at all in this build?
    let mut token_invisible = false;
    for d in drivers() {
        if let Some(what) = world::token_canary(d) {
            token_invisible = true;
            report.violation(Violation {
                key: format!("{}:any:token-invisible:ext-waker-vtable", driver_name(d)),
                what,
                replay: json!({"engine": "e_c05", "canary": true, "driver": driver_name(d)}),
            });
        }
    }
    report.add_execution(2);
    report.outcome(if token_invisible { "canary: token invisible" } else { "canary: token visible" });
    if token_invisible {
        report.assume(
            "the token canary failed in this build: violations of the token route are tagged `:token-invisible`; \
             while that finding is open the token route is not effectively verified",
        );
    }

    // ---- enumerate
    let (items, per_scenario) = items(&scs, &pl);
    let total = items.len();
    if std::env::var("C05_COUNT").is_ok() {
        println!("total executions {total}");
        for p in &per_scenario {
            println!("{p}");
        }
        std::process::exit(0);
    }
    report.extra(
        "bounds",
        json!({
            "depth_poll": pl.depth_poll, "depth_iour": pl.depth_iour,
            "extra_depth_on_poll_for_recv2_and_recv+pollonce": pl.bounds.deeper_bonus,
            "max_ready_steps_per_fd": pl.bounds.max_ready, "max_timeout_steps": pl.bounds.max_timeout,
            "max_reap_steps": pl.bounds.max_reap, "max_cancel_again_token": pl.bounds.max_again,
            "grace_ms": grace.as_millis() as u64, "drivers": drivers().into_iter().map(driver_name).collect::<Vec<_>>(),
            "recv_buffer_capacity": world::CAP, "bytes_per_ready": world::BURST,
            "executions_total": total, "per_scenario": per_scenario,
        }),
    );
    report.rule(
        "for every scenario (2-3 pending interruptible operations, >= 2 on one descriptor, two cancel tokens) and both drivers: \
         ALL step sequences over {Submit, Drop(i), Tok(k), Timeout(i), Ready(fd), Harvest, Reap} allowed by the harness-level \
         enabledness rules up to the depth bound (every prefix is its own execution), each on a fresh Runtime on the real kernel; \
         states = executions; distinct_nontrivial = distinct (driver, per-op cancellation routes, per-op result class) signatures",
    );
    report.rule(
        "route dimension: the token reaches the operation through every nesting of the public combinators that can carry it \
         (with_cancel; with_personality(0) then with_cancel; with_cancel then with_personality(0); personality on both sides; \
         Submit::with_extra inside with_cancel, also under a personality; a personality nesting inside an outer cancel scope; \
         with_cancel(..).fail_fast()), each as an operation of a two-operation scenario explored like the others (token fired \
         before and after submission)",
    );
    report.rule(
        "stream subjects: a multishot receive stream (SubmitMultiStream over RecvMulti on the runtime's buffer pool, as compio-net's \
         recv_multi/read_multi) drained by a consumer loop, alone, next to a single-shot recv on the same socket, inside a spawned task \
         (Drop = cancel the task), under a personality nesting and with the scope around the consumer; up to 2 extra Ready / 1 extra Reap \
         steps so that 0, 1 and 2 chunks are taken from the socket but not yet handed out when the token fires / the stream is dropped / \
         the task is cancelled; oracle: items are runs of what the peer wrote, a cancelled stream ends within the settle bound, at its end \
         nothing taken from the socket is undelivered (only a stream dropped unfinished may take undelivered chunks with it), delivered + \
         swallowed-by-drop + still readable == written, an uncancelled stream never ends and keeps delivering, and once all readers are \
         finished or cancelled a fresh burst stays in the socket",
    );

    // ---- run
    let start = Instant::now();
    let wall_cap = pl.wall_cap;
    let capped = AtomicBool::new(false);
    let done_depth_incomplete = AtomicU64::new(u64::MAX);
    let flaky = std::sync::Mutex::new(Vec::<String>::new());
    let confirmed = std::sync::Mutex::new(std::collections::HashSet::<String>::new());
    // executions sleep (grace period, timeout route) far longer than they compute: oversubscribe
    let nthreads = (vcore::threads() * tier.pick(3, 6)).min(SLOTS);
    let next_slot = AtomicU64::new(0);
    // ring setup/teardown is serialised inside the kernel and degrades with the number of threads
    // doing it at once: io_uring executions get a small pool of their own (larger in the thorough
    // tier, whose executions mostly sleep through the longer grace period)
    let iour_threads = std::env::var("C05_IOUR_THREADS").ok().and_then(|s| s.parse().ok()).unwrap_or(tier.pick(8usize, 24));
    let idx_iour: Vec<usize> = (0..items.len()).filter(|&i| items[i].driver == DriverType::IoUring).collect();
    let idx_poll: Vec<usize> = (0..items.len()).filter(|&i| items[i].driver != DriverType::IoUring).collect();
    let dump = std::env::var_os("C05_DUMP").map(|_| std::sync::Mutex::new(Vec::<String>::new()));
    let work = |idx: usize| {
        let it = &items[idx];
        thread_local! { static SLOT: std::cell::Cell<usize> = const { std::cell::Cell::new(usize::MAX) }; }
        if SLOT.get() == usize::MAX {
            SLOT.set(next_slot.fetch_add(1, Ordering::Relaxed) as usize);
        }
        if start.elapsed() > wall_cap {
            capped.store(true, Ordering::Relaxed);
            done_depth_incomplete.fetch_min(it.seq.len() as u64, Ordering::Relaxed);
            return;
        }
        if let Some(s) = &slots {
            s.at(SLOT.get()).store(idx as u64 + 1, Ordering::SeqCst);
        }
        let cfg = Config { driver: it.driver, grace, verbose: false, token_invisible };
        let res = run_one(it.sc, &it.seq, &cfg);
        report.add_execution(res.transitions);
        report.outcome(res.outcome.clone());
        if let Some(d) = &dump {
            d.lock().unwrap().push(format!(
                "{} {} {:?} => {} t={}",
                driver_name(it.driver),
                it.sc.name,
                it.seq.iter().map(|s| s.name()).collect::<Vec<_>>(),
                res.outcome,
                res.transitions
            ));
        }
        for r in &res.reached {
            report.count(r, 1);
        }
        report.sample(6, || {
            json!({"driver": driver_name(it.driver), "scenario": it.sc.name,
                   "steps": it.seq.iter().map(|s| s.name()).collect::<Vec<_>>(), "outcome": res.outcome})
        });
        if !res.vios.is_empty() {
            // every violation class must reproduce twice from its step list before it is reported
            // (further occurrences of an already confirmed class are only counted)
            let all_known = {
                let c = confirmed.lock().unwrap();
                res.vios.iter().all(|v| c.contains(&v.key))
            };
            let again: Vec<ExecResult> =
                if all_known { vec![] } else { (0..2).map(|_| run_one(it.sc, &it.seq, &cfg)).collect() };
            for v in res.vios {
                if again.iter().all(|r| r.vios.iter().any(|x| x.key == v.key)) {
                    confirmed.lock().unwrap().insert(v.key.clone());
                    report.violation(Violation {
                        key: v.key,
                        what: v.what,
                        replay: replay_value(it.sc, it.driver, &it.seq, &it.choices, tier),
                    });
                } else {
                    flaky.lock().unwrap().push(format!("{} :: {}", v.key, v.what));
                }
            }
        }
        if let Some(s) = &slots {
            s.at(SLOT.get()).store(0, Ordering::SeqCst);
        }
    };
    std::thread::scope(|sc| {
        sc.spawn(|| vcore::par_for_each_n(&idx_iour, iour_threads, |_, &i| work(i)));
        vcore::par_for_each_n(&idx_poll, nthreads, |_, &i| work(i));
    });
    if let (Some(d), Some(p)) = (&dump, std::env::var_os("C05_DUMP")) {
        let mut v = d.lock().unwrap().clone();
        v.sort();
        let _ = std::fs::write(p, v.join("\n"));
    }
    report.extra("executions_repeated_because_the_scheduler_disturbed_the_timeout_step", json!(DISTURBED.load(Ordering::Relaxed)));
    if capped.load(Ordering::Relaxed) {
        report.cap_hit(&format!(
            "wall cap {} s hit: all sequences shorter than {} steps were executed, longer ones only partly",
            wall_cap.as_secs(),
            done_depth_incomplete.load(Ordering::Relaxed)
        ));
    }
    report.assume("connect is only ever cancelled or left pending (target: loopback listener with a full accept queue); making it succeed would need a SYN retransmission (>= 1 s of real time), so `Ready` is not offered for it");
    report.assume("negative observations (an uncancelled operation stays Pending) use the zero-timeout harvest to quiescence plus a real-time grace period of grace_ms before the final verdict; a too-short grace can only miss a late effect, never raise a false alarm");
    report.assume("io_uring completion order for two operations on one descriptor is whatever the running kernel does; the oracle accepts every serialisation of the readers");
    let fl = flaky.into_inner().unwrap();
    if !fl.is_empty() {
        for f in fl.iter().take(10) {
            eprintln!("NONDETERMINISM: violation did not reproduce in two immediate re-executions: {f}");
        }
        // An observation that does not reproduce in two immediate re-executions is not a verdict
        // about compio (on an overloaded machine a cancelled io_uring operation can be reaped a
        // moment after the bounded settle): it is recorded, not reported, and not a machinery failure.
        report.extra("flaky_observations_not_reproduced", json!(fl.iter().take(20).collect::<Vec<_>>()));
        report.extra("nondeterministic_violations", json!(fl.len()));
    }
    report.finish()
}
