//! In-memory duplex owned by the harness. Two byte queues (client->server, server->client); every
//! read / write / flush / close of a transport end asks the [`Decider`] for its answer.
//!
//! Two transport families:
//! * [`FutT`]: implements the poll-style `futures_util::io` traits directly (what compio-tls takes);
//! * [`CRead`]/[`CWrite`]: implement the completion-style `compio_io` traits and are handed to
//!   compio-tls through `compio_io::compat::AsyncStream` (the adapter compio itself ships for this
//!   purpose; it buffers writes until `poll_flush`).
//!
//! Flavour `buffering`: written bytes are held in an internal buffer of the transport end until its
//! flush (or close) is called; `direct`: written bytes are visible to the peer at once.
use std::{
    cell::RefCell,
    collections::VecDeque,
    future::Future,
    io,
    pin::Pin,
    rc::Rc,
    task::{Context, Poll, Waker},
};

use compio_buf::{BufResult, IoBuf, IoBufMut, SetLenExt};

use crate::sched::*;

pub struct Pipe {
    pub q: VecDeque<u8>,
    /// the writer closed its end (reader sees EOF after draining)
    pub closed: bool,
    pub rwaker: Option<Waker>,
    pub total: u64,
}

pub struct World {
    /// pipes[d]: bytes written by side d (0 = client) and read by side 1-d
    pub pipes: [Pipe; 2],
    /// buffering flavour: bytes written but not yet flushed, per writing side
    pub held: [Vec<u8>; 2],
    pub buffering: bool,
    pub dec: Decider,
    pub gates: Gates,
    /// bytes lost because a transport end was dropped with unflushed held data
    pub dropped_held: [usize; 2],
    pub trace: Vec<String>,
    pub tracing: bool,
    /// bytes the layer under test handed to the transport stack (poll_write returned Ok(n)), per side
    pub accepted: [u64; 2],
    /// the last poll_write / poll_flush / poll_close the layer made on this side returned Pending
    /// (index: side, then 0 = write, 1 = flush, 2 = close)
    pub op_pending: [[bool; 3]; 2],
    /// poll_flush / poll_close of the transport stack returned Ready(Ok) although bytes it had accepted
    /// were not delivered: (accepted, delivered) at that moment
    pub flush_incomplete: [Option<(u64, u64)>; 2],
}

pub type W = Rc<RefCell<World>>;

pub fn new_world(plan: Plan, buffering: bool, call_horizon: u64, tracing: bool) -> W {
    let pipe = || Pipe {
        q: VecDeque::new(),
        closed: false,
        rwaker: None,
        total: 0,
    };
    Rc::new(RefCell::new(World {
        pipes: [pipe(), pipe()],
        held: [Vec::new(), Vec::new()],
        buffering,
        dec: Decider::new(plan, call_horizon),
        gates: Gates::default(),
        dropped_held: [0, 0],
        trace: Vec::new(),
        tracing,
        accepted: [0, 0],
        op_pending: [[false; 3]; 2],
        flush_incomplete: [None, None],
    }))
}

impl World {
    fn push(&mut self, dir: usize, bytes: &[u8]) {
        if bytes.is_empty() {
            return;
        }
        let p = &mut self.pipes[dir];
        p.q.extend(bytes.iter().copied());
        p.total += bytes.len() as u64;
        if let Some(w) = p.rwaker.take() {
            w.wake();
        }
    }

    fn accept_write(&mut self, side: usize, bytes: &[u8]) {
        if self.buffering {
            self.held[side].extend_from_slice(bytes);
        } else {
            self.push(side, bytes);
        }
    }

    fn do_flush(&mut self, side: usize) {
        let h = std::mem::take(&mut self.held[side]);
        self.push(side, &h);
    }

    fn do_close(&mut self, side: usize) {
        self.do_flush(side);
        let p = &mut self.pipes[side];
        p.closed = true;
        if let Some(w) = p.rwaker.take() {
            w.wake();
        }
    }

    /// the transport end of `side` went away (like closing a socket): unflushed held data is lost
    fn end_dropped(&mut self, side: usize) {
        self.dropped_held[side] += self.held[side].len();
        self.held[side].clear();
        let p = &mut self.pipes[side];
        if !p.closed {
            p.closed = true;
            if let Some(w) = p.rwaker.take() {
                w.wake();
            }
        }
    }

    pub fn t(&mut self, f: impl FnOnce() -> String) {
        if self.tracing {
            let s = f();
            self.trace.push(s);
        }
    }
}

fn amount(d: Option<Dev>, m: usize) -> usize {
    match d {
        None => m,
        Some(Dev::One) => 1,
        Some(Dev::Half) => m / 2,
        Some(_) => unreachable!(),
    }
}

fn broken_pipe() -> io::Error {
    io::Error::new(io::ErrorKind::BrokenPipe, "write after close of the scripted transport")
}

// ---------------------------------------------------------------------------------------------
// poll-style end
// ---------------------------------------------------------------------------------------------

pub struct FutT {
    pub w: W,
    pub side: usize,
}

impl Drop for FutT {
    fn drop(&mut self) {
        self.w.borrow_mut().end_dropped(self.side);
    }
}

impl futures_util::AsyncRead for FutT {
    fn poll_read(self: Pin<&mut Self>, cx: &mut Context<'_>, buf: &mut [u8]) -> Poll<io::Result<usize>> {
        let me = self.side;
        let mut w = self.w.borrow_mut();
        if buf.is_empty() {
            return Poll::Ready(Ok(0));
        }
        let avail = w.pipes[1 - me].q.len();
        if avail == 0 {
            if w.pipes[1 - me].closed {
                w.t(|| format!("{} read -> EOF", SIDE_NAME[me]));
                return Poll::Ready(Ok(0));
            }
            w.pipes[1 - me].rwaker = Some(cx.waker().clone());
            w.t(|| format!("{} read -> Pending (no data)", SIDE_NAME[me]));
            return Poll::Pending;
        }
        let m = avail.min(buf.len());
        let d = w.dec.decide(me, Call::Read, m);
        if let Some(k) = d.filter(|k| k.is_pend()) {
            w.gates.close(me, k, cx.waker().clone());
            w.t(|| format!("{} read({m} available) -> Pending (gate)", SIDE_NAME[me]));
            return Poll::Pending;
        }
        let n = amount(d, m);
        for b in buf[..n].iter_mut() {
            *b = w.pipes[1 - me].q.pop_front().unwrap();
        }
        w.t(|| format!("{} read({m} available) -> {n}", SIDE_NAME[me]));
        Poll::Ready(Ok(n))
    }
}

impl futures_util::AsyncWrite for FutT {
    fn poll_write(self: Pin<&mut Self>, cx: &mut Context<'_>, buf: &[u8]) -> Poll<io::Result<usize>> {
        let me = self.side;
        let mut w = self.w.borrow_mut();
        if buf.is_empty() {
            return Poll::Ready(Ok(0));
        }
        if w.pipes[me].closed {
            return Poll::Ready(Err(broken_pipe()));
        }
        let m = buf.len();
        let d = w.dec.decide(me, Call::Write, m);
        if let Some(k) = d.filter(|k| k.is_pend()) {
            w.gates.close(me, k, cx.waker().clone());
            w.t(|| format!("{} write({m}) -> Pending (gate)", SIDE_NAME[me]));
            return Poll::Pending;
        }
        let n = amount(d, m);
        w.accept_write(me, &buf[..n]);
        w.t(|| format!("{} write({m}) -> {n}", SIDE_NAME[me]));
        Poll::Ready(Ok(n))
    }

    fn poll_flush(self: Pin<&mut Self>, cx: &mut Context<'_>) -> Poll<io::Result<()>> {
        let me = self.side;
        let mut w = self.w.borrow_mut();
        let held = w.held[me].len();
        let d = w.dec.decide(me, Call::Flush, held);
        if let Some(k) = d.filter(|k| k.is_pend()) {
            w.gates.close(me, k, cx.waker().clone());
            w.t(|| format!("{} flush({held} held) -> Pending (gate)", SIDE_NAME[me]));
            return Poll::Pending;
        }
        w.do_flush(me);
        w.t(|| format!("{} flush({held} held) -> Ok", SIDE_NAME[me]));
        Poll::Ready(Ok(()))
    }

    fn poll_close(self: Pin<&mut Self>, cx: &mut Context<'_>) -> Poll<io::Result<()>> {
        let me = self.side;
        let mut w = self.w.borrow_mut();
        let held = w.held[me].len();
        let d = w.dec.decide(me, Call::Close, held);
        if let Some(k) = d.filter(|k| k.is_pend()) {
            w.gates.close(me, k, cx.waker().clone());
            w.t(|| format!("{} close -> Pending (gate)", SIDE_NAME[me]));
            return Poll::Pending;
        }
        w.do_close(me);
        w.t(|| format!("{} close({held} held) -> Ok", SIDE_NAME[me]));
        Poll::Ready(Ok(()))
    }
}

// ---------------------------------------------------------------------------------------------
// completion-style ends (go under compio_io::compat::AsyncStream)
// ---------------------------------------------------------------------------------------------

struct GateFut {
    w: W,
    id: usize,
}

impl Future for GateFut {
    type Output = ();

    fn poll(self: Pin<&mut Self>, cx: &mut Context<'_>) -> Poll<()> {
        let mut w = self.w.borrow_mut();
        let g = &mut w.gates.0[self.id];
        if g.open {
            Poll::Ready(())
        } else {
            g.waker = Some(cx.waker().clone());
            Poll::Pending
        }
    }
}

/// wait until the incoming pipe of `side` has data or is closed
struct DataFut {
    w: W,
    side: usize,
}

impl Future for DataFut {
    type Output = ();

    fn poll(self: Pin<&mut Self>, cx: &mut Context<'_>) -> Poll<()> {
        let mut w = self.w.borrow_mut();
        let p = &mut w.pipes[1 - self.side];
        if !p.q.is_empty() || p.closed {
            Poll::Ready(())
        } else {
            p.rwaker = Some(cx.waker().clone());
            Poll::Pending
        }
    }
}

async fn gate(w: &W, side: usize, kind: Dev) {
    // the waker is filled in by the first poll of the GateFut
    let id = {
        let mut g = w.borrow_mut();
        g.gates.0.push(Gate {
            side,
            kind,
            waker: None,
            open: false,
        });
        g.gates.0.len() - 1
    };
    GateFut { w: w.clone(), id }.await
}

pub struct CRead {
    pub w: W,
    pub side: usize,
}

pub struct CWrite {
    pub w: W,
    pub side: usize,
}

impl Drop for CWrite {
    fn drop(&mut self) {
        self.w.borrow_mut().end_dropped(self.side);
    }
}

fn fill_buf<B: IoBufMut>(buf: &mut B, src: &[u8]) {
    let dst = buf.as_uninit();
    assert!(src.len() <= dst.len());
    for (d, s) in dst.iter_mut().zip(src) {
        d.write(*s);
    }
    unsafe { buf.advance_to(src.len()) };
}

impl compio_io::AsyncRead for CRead {
    async fn read<B: IoBufMut>(&mut self, mut buf: B) -> BufResult<usize, B> {
        let me = self.side;
        let cap = buf.as_uninit().len();
        if cap == 0 {
            return BufResult(Ok(0), buf);
        }
        loop {
            DataFut {
                w: self.w.clone(),
                side: me,
            }
            .await;
            let (m, d) = {
                let mut w = self.w.borrow_mut();
                let avail = w.pipes[1 - me].q.len();
                if avail == 0 {
                    // closed and drained
                    w.t(|| format!("{} inner read -> EOF", SIDE_NAME[me]));
                    return BufResult(Ok(0), buf);
                }
                let m = avail.min(cap);
                (m, w.dec.decide(me, Call::Read, m))
            };
            let n = match d {
                Some(k) if k.is_pend() => {
                    self.w.borrow_mut().t(|| format!("{} inner read({m} available) parks on a gate", SIDE_NAME[me]));
                    gate(&self.w, me, k).await;
                    m
                }
                d => amount(d, m),
            };
            let mut w = self.w.borrow_mut();
            let n = n.min(w.pipes[1 - me].q.len());
            let bytes: Vec<u8> = w.pipes[1 - me].q.drain(..n).collect();
            fill_buf(&mut buf, &bytes);
            w.t(|| format!("{} inner read({m} available) -> {n}", SIDE_NAME[me]));
            return BufResult(Ok(n), buf);
        }
    }
}

impl compio_io::AsyncWrite for CWrite {
    async fn write<T: IoBuf>(&mut self, buf: T) -> BufResult<usize, T> {
        let me = self.side;
        let m = buf.as_init().len();
        if m == 0 {
            return BufResult(Ok(0), buf);
        }
        if self.w.borrow().pipes[me].closed {
            return BufResult(Err(broken_pipe()), buf);
        }
        let d = self.w.borrow_mut().dec.decide(me, Call::Write, m);
        let n = match d {
            Some(k) if k.is_pend() => {
                self.w.borrow_mut().t(|| format!("{} inner write({m}) parks on a gate", SIDE_NAME[me]));
                gate(&self.w, me, k).await;
                m
            }
            d => amount(d, m),
        };
        let mut w = self.w.borrow_mut();
        w.accept_write(me, &buf.as_init()[..n]);
        w.t(|| format!("{} inner write({m}) -> {n}", SIDE_NAME[me]));
        BufResult(Ok(n), buf)
    }

    async fn flush(&mut self) -> io::Result<()> {
        let me = self.side;
        let (held, d) = {
            let mut w = self.w.borrow_mut();
            let held = w.held[me].len();
            (held, w.dec.decide(me, Call::Flush, held))
        };
        if let Some(k) = d.filter(|k| k.is_pend()) {
            self.w.borrow_mut().t(|| format!("{} inner flush({held} held) parks on a gate", SIDE_NAME[me]));
            gate(&self.w, me, k).await;
        }
        let mut w = self.w.borrow_mut();
        w.do_flush(me);
        w.t(|| format!("{} inner flush({held} held) -> Ok", SIDE_NAME[me]));
        Ok(())
    }

    async fn shutdown(&mut self) -> io::Result<()> {
        let me = self.side;
        let (held, d) = {
            let mut w = self.w.borrow_mut();
            let held = w.held[me].len();
            (held, w.dec.decide(me, Call::Close, held))
        };
        if let Some(k) = d.filter(|k| k.is_pend()) {
            self.w.borrow_mut().t(|| format!("{} inner shutdown parks on a gate", SIDE_NAME[me]));
            gate(&self.w, me, k).await;
        }
        let mut w = self.w.borrow_mut();
        w.do_close(me);
        w.t(|| format!("{} inner shutdown({held} held) -> Ok", SIDE_NAME[me]));
        Ok(())
    }
}

// ---------------------------------------------------------------------------------------------
// counting / tracing wrapper: what the TLS layer asked of the poll-style transport stack
// ---------------------------------------------------------------------------------------------

pub struct TraceT<T> {
    pub inner: T,
    pub w: W,
    pub side: usize,
}

impl<T> TraceT<T> {
    fn after_flush(&self, idx: usize, r: &Poll<io::Result<()>>) {
        let mut w = self.w.borrow_mut();
        let side = self.side;
        w.op_pending[side][idx] = r.is_pending();
        if let Poll::Ready(Ok(())) = r {
            let (a, d) = (w.accepted[side], w.pipes[side].total);
            if a != d && w.flush_incomplete[side].is_none() {
                w.flush_incomplete[side] = Some((a, d));
            }
        }
    }
}

fn show<T: std::fmt::Debug>(p: &Poll<io::Result<T>>) -> String {
    match p {
        Poll::Pending => "Pending".into(),
        Poll::Ready(Ok(v)) => format!("Ok({v:?})"),
        Poll::Ready(Err(e)) => format!("Err({:?})", e.kind()),
    }
}

impl<T: futures_util::AsyncRead + Unpin> futures_util::AsyncRead for TraceT<T> {
    fn poll_read(mut self: Pin<&mut Self>, cx: &mut Context<'_>, buf: &mut [u8]) -> Poll<io::Result<usize>> {
        let r = Pin::new(&mut self.inner).poll_read(cx, buf);
        let side = self.side;
        self.w.borrow_mut().t(|| format!("  {} tls->transport poll_read(cap {}) = {}", SIDE_NAME[side], buf.len(), show(&r)));
        r
    }
}

impl<T: futures_util::AsyncWrite + Unpin> futures_util::AsyncWrite for TraceT<T> {
    fn poll_write(mut self: Pin<&mut Self>, cx: &mut Context<'_>, buf: &[u8]) -> Poll<io::Result<usize>> {
        let r = Pin::new(&mut self.inner).poll_write(cx, buf);
        let side = self.side;
        if let Poll::Ready(Ok(n)) = &r {
            self.w.borrow_mut().accepted[side] += *n as u64;
        }
        self.w.borrow_mut().op_pending[side][0] = r.is_pending();
        self.w.borrow_mut().t(|| format!("  {} tls->transport poll_write({}) = {}", SIDE_NAME[side], buf.len(), show(&r)));
        r
    }

    fn poll_flush(mut self: Pin<&mut Self>, cx: &mut Context<'_>) -> Poll<io::Result<()>> {
        let r = Pin::new(&mut self.inner).poll_flush(cx);
        let side = self.side;
        self.after_flush(1, &r);
        self.w.borrow_mut().t(|| format!("  {} tls->transport poll_flush = {}", SIDE_NAME[side], show(&r)));
        r
    }

    fn poll_close(mut self: Pin<&mut Self>, cx: &mut Context<'_>) -> Poll<io::Result<()>> {
        let r = Pin::new(&mut self.inner).poll_close(cx);
        let side = self.side;
        self.after_flush(2, &r);
        self.w.borrow_mut().t(|| format!("  {} tls->transport poll_close = {}", SIDE_NAME[side], show(&r)));
        r
    }
}
