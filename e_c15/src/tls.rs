//! TLS half of C15: compio-tls client and server over the scripted duplex.
use std::{
    cell::RefCell,
    future::Future,
    pin::Pin,
    rc::Rc,
    sync::{Arc, atomic::Ordering},
    task::{Context, Poll},
};

use compio_tls::{MaybeTlsStream, TlsAcceptor, TlsConnector};
use futures_util::{AsyncRead, AsyncReadExt, AsyncWrite, AsyncWriteExt};
use vcore::{Value, json};

use crate::{duplex::*, sched::*};

#[derive(Clone, Copy, Debug, PartialEq, Eq, Hash, PartialOrd, Ord)]
pub enum Backend {
    Rustls,
    Native,
}

#[derive(Clone, Copy, Debug, PartialEq, Eq, Hash, PartialOrd, Ord)]
pub enum Layer {
    /// scripted transport implements the futures traits itself
    Fut,
    /// scripted compio_io transport under `AsyncStream::new`
    Compat,
    /// scripted compio_io transport under `AsyncStream::with_limits(64, 512, ..)`
    CompatSmall,
}

#[derive(Clone, Copy, Debug, PartialEq, Eq, Hash, PartialOrd, Ord)]
pub struct Cfg {
    pub backend: Backend,
    /// 12 or 13
    pub ver: u8,
    pub layer: Layer,
    pub buffering: bool,
    /// 0: request/response, client closes first; 1: both write first, server closes first
    pub mode: u8,
    pub c2s: usize,
    pub s2c: usize,
}

impl Cfg {
    pub fn name(&self) -> String {
        format!(
            "{}{}:{}:{}",
            match self.backend {
                Backend::Rustls => "rustls",
                Backend::Native => "native",
            },
            self.ver,
            match self.layer {
                Layer::Fut => "fut",
                Layer::Compat => "compat",
                Layer::CompatSmall => "compat-small",
            },
            if self.buffering { "buffering" } else { "direct" }
        )
    }

    pub fn scenario(&self) -> String {
        format!("mode{} c2s={} s2c={}", self.mode, self.c2s, self.s2c)
    }

    pub fn to_json(&self) -> Value {
        json!({
            "backend": match self.backend { Backend::Rustls => "rustls", Backend::Native => "native" },
            "ver": self.ver,
            "layer": match self.layer { Layer::Fut => "fut", Layer::Compat => "compat", Layer::CompatSmall => "compat-small" },
            "buffering": self.buffering,
            "mode": self.mode,
            "c2s": self.c2s,
            "s2c": self.s2c,
        })
    }

    pub fn from_json(v: &Value) -> Cfg {
        Cfg {
            backend: if v["backend"] == "native" { Backend::Native } else { Backend::Rustls },
            ver: v["ver"].as_u64().unwrap_or(13) as u8,
            layer: match v["layer"].as_str().unwrap_or("fut") {
                "compat" => Layer::Compat,
                "compat-small" => Layer::CompatSmall,
                _ => Layer::Fut,
            },
            buffering: v["buffering"].as_bool().unwrap_or(false),
            mode: v["mode"].as_u64().unwrap_or(0) as u8,
            c2s: v["c2s"].as_u64().unwrap_or(0) as usize,
            s2c: v["s2c"].as_u64().unwrap_or(0) as usize,
        }
    }
}

// ---------------------------------------------------------------------------------------------
// key material (generated once per process)
// ---------------------------------------------------------------------------------------------

pub struct Material {
    /// index 0: TLS 1.2 only, index 1: TLS 1.3 only
    pub r_client: [Arc<rustls::ClientConfig>; 2],
    pub r_server: [Arc<rustls::ServerConfig>; 2],
    pub n_client: [native_tls::TlsConnector; 2],
    pub n_server: [native_tls::TlsAcceptor; 2],
    pub key_alg: &'static str,
    /// why a preferred key type was not used
    pub key_note: String,
}

pub fn make_material() -> Result<Material, String> {
    use rustls::pki_types::{CertificateDer, PrivateKeyDer, pem::PemObject};
    let es = |e: &dyn std::fmt::Display| e.to_string();
    // Ed25519 keeps every handshake message the same length in every run (ECDSA signatures vary
    // by a byte or two); fall back to the rcgen default if a back-end refuses it.
    let mut last_err = String::new();
    for (alg_name, alg) in [("ed25519", Some(&rcgen::PKCS_ED25519)), ("ecdsa-p256", None)] {
        let kp = match alg {
            Some(a) => rcgen::KeyPair::generate_for(a),
            None => rcgen::KeyPair::generate(),
        }
        .map_err(|e| es(&e))?;
        let cert = rcgen::CertificateParams::new(vec!["localhost".to_string()])
            .map_err(|e| es(&e))?
            .self_signed(&kp)
            .map_err(|e| es(&e))?;
        let cert_pem = cert.pem();
        let key_pem = kp.serialize_pem();
        let cert_der: CertificateDer<'static> = cert.der().clone();

        let build = || -> Result<Material, String> {
            let provider = Arc::new(rustls::crypto::ring::default_provider());
            let vers: [&'static rustls::SupportedProtocolVersion; 2] = [&rustls::version::TLS12, &rustls::version::TLS13];
            let mut rc = Vec::new();
            let mut rs = Vec::new();
            for v in vers {
                let mut store = rustls::RootCertStore::empty();
                store.add(cert_der.clone()).map_err(|e| es(&e))?;
                let mut c = rustls::ClientConfig::builder_with_provider(provider.clone())
                    .with_protocol_versions(&[v])
                    .map_err(|e| es(&e))?
                    .with_root_certificates(store)
                    .with_no_client_auth();
                // every execution must be a full handshake: no resumption state shared between runs
                c.resumption = rustls::client::Resumption::disabled();
                rc.push(Arc::new(c));
                let s = rustls::ServerConfig::builder_with_provider(provider.clone())
                    .with_protocol_versions(&[v])
                    .map_err(|e| es(&e))?
                    .with_no_client_auth()
                    .with_single_cert(
                        vec![cert_der.clone()],
                        PrivateKeyDer::from_pem_slice(key_pem.as_bytes()).map_err(|e| es(&e))?,
                    )
                    .map_err(|e| es(&e))?;
                rs.push(Arc::new(s));
            }
            let mut nc = Vec::new();
            let mut ns = Vec::new();
            for p in [native_tls::Protocol::Tlsv12, native_tls::Protocol::Tlsv13] {
                let c = native_tls::TlsConnector::builder()
                    .add_root_certificate(native_tls::Certificate::from_pem(cert_pem.as_bytes()).map_err(|e| es(&e))?)
                    .disable_built_in_roots(true)
                    .min_protocol_version(Some(p))
                    .max_protocol_version(Some(p))
                    .build()
                    .map_err(|e| es(&e))?;
                nc.push(c);
                let id = native_tls::Identity::from_pkcs8(cert_pem.as_bytes(), key_pem.as_bytes()).map_err(|e| es(&e))?;
                let a = native_tls::TlsAcceptor::builder(id)
                    .min_protocol_version(Some(p))
                    .max_protocol_version(Some(p))
                    .build()
                    .map_err(|e| es(&e))?;
                ns.push(a);
            }
            Ok(Material {
                r_client: [rc[0].clone(), rc[1].clone()],
                r_server: [rs[0].clone(), rs[1].clone()],
                n_client: [nc[0].clone(), nc[1].clone()],
                n_server: [ns[0].clone(), ns[1].clone()],
                key_alg: alg_name,
                key_note: String::new(),
            })
        };
        match build() {
            Ok(m) => {
                // smoke test: every back-end / version must complete a default run with this key
                let mut ok = true;
                for backend in [Backend::Rustls, Backend::Native] {
                    for ver in [12u8, 13] {
                        if backend == Backend::Native && ver == 13 {
                            // native_tls::TlsAcceptor is built from SslAcceptor::mozilla_intermediate,
                            // which switches TLS 1.3 off: the native back-end negotiates TLS 1.2
                            continue;
                        }
                        let cfg = Cfg {
                            backend,
                            ver,
                            layer: Layer::Fut,
                            buffering: false,
                            mode: 0,
                            c2s: 1,
                            s2c: 1,
                        };
                        let out = run_one(&m, &cfg, &Vec::new(), false);
                        if let Err((o, d)) = judge(&cfg, &out) {
                            last_err = format!("{alg_name}: smoke run {} failed: {o}: {d}", cfg.name());
                            ok = false;
                        }
                    }
                }
                // The last candidate is used even if its smoke runs fail: then the layer itself is at
                // fault and the exploration reports that as violations (not a machinery error).
                if ok || alg.is_none() {
                    let mut m = m;
                    m.key_note = last_err.clone();
                    return Ok(m);
                }
            }
            Err(e) => last_err = format!("{alg_name}: {e}"),
        }
    }
    Err(last_err)
}

// ---------------------------------------------------------------------------------------------
// the two application programs
// ---------------------------------------------------------------------------------------------

#[derive(Clone, Copy, Debug, PartialEq)]
pub enum Step {
    Write,
    Read,
    Close,
    ReadEof,
}

fn program(mode: u8, side: usize) -> &'static [Step] {
    use Step::*;
    match (mode, side) {
        (0, CLIENT) => &[Write, Read, Close, ReadEof],
        (0, _) => &[Read, Write, ReadEof, Close],
        (_, CLIENT) => &[Write, Read, ReadEof, Close],
        (_, _) => &[Write, Read, Close, ReadEof],
    }
}

#[derive(Default, Debug, Clone)]
pub struct SideOut {
    pub stage: String,
    pub handshake_ok: bool,
    pub got: Vec<u8>,
    pub eof: bool,
    pub closed: bool,
    pub finished: bool,
    pub err: Option<String>,
    /// poll number (global step) at which the error happened
    pub err_step: u64,
}

pub trait RW: AsyncRead + AsyncWrite {}
impl<T: AsyncRead + AsyncWrite> RW for T {}
pub type BoxT = Pin<Box<dyn RW>>;

enum Role {
    Client(TlsConnector),
    Server(TlsAcceptor),
}

async fn side_prog(role: Role, t: BoxT, side: usize, cfg: Cfg, out: Rc<RefCell<SideOut>>) {
    let r = side_prog_inner(role, t, side, cfg, &out).await;
    let mut o = out.borrow_mut();
    match r {
        Ok(()) => {
            o.finished = true;
            o.stage = "done".into();
        }
        Err(e) => o.err = Some(format!("{:?}: {e}", e.kind())),
    }
}

async fn side_prog_inner(role: Role, t: BoxT, side: usize, cfg: Cfg, out: &Rc<RefCell<SideOut>>) -> std::io::Result<()> {
    let stage = |s: &str| out.borrow_mut().stage = s.to_string();
    stage("handshake");
    let s = match role {
        Role::Client(c) => c.connect("localhost", t).await?,
        Role::Server(a) => a.accept(t).await?,
    };
    out.borrow_mut().handshake_ok = true;
    let mut s = MaybeTlsStream::new_tls(s);
    let (send_n, expect_n) = if side == CLIENT { (cfg.c2s, cfg.s2c) } else { (cfg.s2c, cfg.c2s) };
    let mut buf = vec![0u8; 4096];
    for st in program(cfg.mode, side) {
        match st {
            Step::Write => {
                stage("write");
                let data = payload(side, send_n);
                s.write_all(&data).await?;
                stage("flush");
                s.flush().await?;
            }
            Step::Read => {
                stage("read");
                while out.borrow().got.len() < expect_n {
                    let n = s.read(&mut buf).await?;
                    if n == 0 {
                        return Err(std::io::Error::new(
                            std::io::ErrorKind::UnexpectedEof,
                            format!("EOF after {} of {} expected bytes", out.borrow().got.len(), expect_n),
                        ));
                    }
                    out.borrow_mut().got.extend_from_slice(&buf[..n]);
                }
            }
            Step::Close => {
                stage("close");
                s.close().await?;
                out.borrow_mut().closed = true;
            }
            Step::ReadEof => {
                stage("read-eof");
                loop {
                    let n = s.read(&mut buf).await?;
                    if n == 0 {
                        out.borrow_mut().eof = true;
                        break;
                    }
                    out.borrow_mut().got.extend_from_slice(&buf[..n]);
                }
            }
        }
    }
    Ok(())
}

// ---------------------------------------------------------------------------------------------
// one execution
// ---------------------------------------------------------------------------------------------

#[derive(Debug, Clone, PartialEq)]
pub enum End {
    Done,
    Deadlock,
    Spin(String),
    Panic(String),
}

pub struct RunOut {
    pub end: End,
    pub sides: [SideOut; 2],
    pub reached: Vec<(Point, u32)>,
    pub applied: Vec<bool>,
    pub polls: u64,
    pub stale_wakes: u64,
    pub natural_pending: bool,
    pub gates_opened: usize,
    pub leftover: [usize; 2],
    /// bytes accepted from the TLS layer by the transport stack but never delivered to the peer's queue
    pub unflushed: [u64; 2],
    pub op_pending: [[bool; 3]; 2],
    pub flush_incomplete: [Option<(u64, u64)>; 2],
    pub dropped_held: [usize; 2],
    pub trace: Vec<String>,
}

fn make_transport(w: &W, side: usize, layer: Layer) -> BoxT {
    Box::pin(TraceT {
        inner: make_transport_inner(w, side, layer),
        w: w.clone(),
        side,
    })
}

fn make_transport_inner(w: &W, side: usize, layer: Layer) -> BoxT {
    match layer {
        Layer::Fut => Box::pin(FutT { w: w.clone(), side }),
        Layer::Compat => Box::pin(compio_io::compat::AsyncStream::new((
            CRead { w: w.clone(), side },
            CWrite { w: w.clone(), side },
        ))),
        Layer::CompatSmall => Box::pin(compio_io::compat::AsyncStream::with_limits(
            64,
            512,
            (CRead { w: w.clone(), side }, CWrite { w: w.clone(), side }),
        )),
    }
}

pub const POLL_HORIZON: u64 = 20_000;
pub const CALL_HORIZON: u64 = 400_000;

pub fn run_one(mat: &Material, cfg: &Cfg, plan: &Plan, tracing: bool) -> RunOut {
    let w = new_world(plan.clone(), cfg.buffering, CALL_HORIZON, tracing);
    let outs = [Rc::new(RefCell::new(SideOut::default())), Rc::new(RefCell::new(SideOut::default()))];
    let vi = if cfg.ver == 12 { 0 } else { 1 };
    let (conn, acc) = match cfg.backend {
        Backend::Rustls => (TlsConnector::from(mat.r_client[vi].clone()), TlsAcceptor::from(mat.r_server[vi].clone())),
        Backend::Native => (TlsConnector::from(mat.n_client[vi].clone()), TlsAcceptor::from(mat.n_server[vi].clone())),
    };
    let board = Arc::new(Board::default());
    let mut polls = 0u64;
    let mut gates_opened = 0usize;
    let mut unflushed = [0u64; 2];
    let mut leftover = [0usize; 2];
    let end = {
        let mut futs: [Option<Pin<Box<dyn Future<Output = ()>>>>; 2] = [
            Some(Box::pin(side_prog(
                Role::Client(conn),
                make_transport(&w, CLIENT, cfg.layer),
                CLIENT,
                *cfg,
                outs[0].clone(),
            ))),
            Some(Box::pin(side_prog(
                Role::Server(acc),
                make_transport(&w, SERVER, cfg.layer),
                SERVER,
                *cfg,
                outs[1].clone(),
            ))),
        ];
        let r = vcore::catch(|| {
            loop {
                let mut polled = false;
                for s in 0..2 {
                    if futs[s].is_none() || !board.runnable(s) {
                        continue;
                    }
                    let waker = board.next_waker(s);
                    polled = true;
                    polls += 1;
                    if tracing {
                        w.borrow_mut().trace.push(format!("-- poll {} (#{polls}, stage {})", SIDE_NAME[s], outs[s].borrow().stage));
                    }
                    let mut cx = Context::from_waker(&waker);
                    if let Poll::Ready(()) = futs[s].as_mut().unwrap().as_mut().poll(&mut cx) {
                        // the side is finished: its stream and transport end are dropped now
                        futs[s] = None;
                        let mut o = outs[s].borrow_mut();
                        if o.err.is_some() {
                            o.err_step = polls;
                        }
                    }
                }
                if futs.iter().all(|f| f.is_none()) {
                    return End::Done;
                }
                if polls > POLL_HORIZON {
                    return End::Spin(format!("more than {POLL_HORIZON} polls"));
                }
                let opened = w.borrow_mut().gates.open_all(Dev::PendNext);
                gates_opened += opened;
                if (0..2).any(|s| futs[s].is_some() && board.runnable(s)) {
                    continue;
                }
                let opened_q = w.borrow_mut().gates.open_all(Dev::PendQuiet);
                gates_opened += opened_q;
                if !polled && opened == 0 && opened_q == 0 {
                    return End::Deadlock;
                }
            }
        });
        {
            let wb = w.borrow();
            for s in 0..2 {
                unflushed[s] = wb.accepted[s].saturating_sub(wb.pipes[s].total);
                leftover[s] = wb.pipes[s].q.len();
            }
        }
        // drop the futures (and with them the streams) before the world is inspected further
        let r2 = vcore::catch(move || drop(futs));
        match (r, r2) {
            (Ok(e), Ok(())) => e,
            (Err(p), _) | (_, Err(p)) => {
                if p.starts_with("SPIN:") {
                    End::Spin(p)
                } else {
                    End::Panic(p)
                }
            }
        }
    };
    let mut wb = w.borrow_mut();
    let natural_pending = polls > 2;
    RunOut {
        end,
        sides: [outs[0].borrow().clone(), outs[1].borrow().clone()],
        reached: std::mem::take(&mut wb.dec.reached),
        applied: wb.dec.applied.clone(),
        polls,
        stale_wakes: board.stale.load(Ordering::SeqCst),
        natural_pending,
        gates_opened,
        leftover,
        unflushed,
        op_pending: wb.op_pending,
        flush_incomplete: wb.flush_incomplete,
        dropped_held: wb.dropped_held,
        trace: std::mem::take(&mut wb.trace),
    }
}

/// Ok(signature) or Err((oracle, detail))
pub fn judge(cfg: &Cfg, out: &RunOut) -> Result<String, (String, String)> {
    let stages = format!("client@{} server@{}", out.sides[0].stage, out.sides[1].stage);
    match &out.end {
        End::Panic(p) => return Err(("panic".into(), format!("{p} ({stages})"))),
        End::Spin(p) => return Err(("spin".into(), format!("{p} ({stages})"))),
        _ => {}
    }
    for s in 0..2 {
        if let Some((a, d)) = out.flush_incomplete[s] {
            return Err((
                format!("transport-flush-incomplete-{}", SIDE_NAME[s]),
                format!(
                    "the transport stack handed to compio-tls ({}) answered poll_flush/poll_close with Ready(Ok) while only {d} of the {a} bytes it had accepted were delivered; run ended {:?} with {stages}",
                    SIDE_NAME[s], out.end
                ),
            ));
        }
    }
    // the error that happened first is the primary one
    let mut errs: Vec<(u64, usize)> = (0..2)
        .filter(|s| out.sides[*s].err.is_some())
        .map(|s| (out.sides[s].err_step, s))
        .collect();
    errs.sort();
    if let Some((_, s)) = errs.first() {
        let o = &out.sides[*s];
        let oracle = if !o.handshake_ok { "handshake-error".to_string() } else { format!("io-error@{}", o.stage) };
        return Err((
            oracle,
            format!("{} failed in stage {}: {} ({stages})", SIDE_NAME[*s], o.stage, o.err.as_deref().unwrap_or("")),
        ));
    }
    if out.end == End::Deadlock {
        let hs = out.sides.iter().all(|s| s.handshake_ok);
        let mut oracle = if hs {
            format!("deadlock@{}/{}", out.sides[0].stage, out.sides[1].stage)
        } else {
            "deadlock@handshake".to_string()
        };
        let mut abandoned = Vec::new();
        for s in 0..2 {
            if out.unflushed[s] > 0 {
                let ops: Vec<&str> = (0..3).filter(|i| out.op_pending[s][*i]).map(|i| ["write", "flush", "close"][i]).collect();
                if ops.is_empty() {
                    oracle.push_str(&format!("+unflushed-{}", SIDE_NAME[s]));
                } else {
                    oracle.push_str(&format!("+pending-{}-abandoned-by-{}", ops.join("-"), SIDE_NAME[s]));
                    abandoned.push(format!(
                        "{}'s last poll_{} returned Pending, its waker was woken, the side was polled again and never repeated the call",
                        SIDE_NAME[s],
                        ops.join("/")
                    ));
                }
            }
        }
        return Err((
            oracle,
            format!(
                "no side can run, no wake-up outstanding, no gate closed: {stages}; bytes the TLS layer wrote to its transport that never reached the peer (stuck in the adapter / transport buffer although the layer stopped flushing): client {} server {}; bytes queued for a reader that does not read: c2s {} s2c {}{}{}",
                out.unflushed[0], out.unflushed[1], out.leftover[0], out.leftover[1],
                if abandoned.is_empty() { "" } else { "; " },
                abandoned.join("; ")
            ),
        ));
    }
    for s in 0..2 {
        let o = &out.sides[s];
        let expected = payload(1 - s, if s == CLIENT { cfg.s2c } else { cfg.c2s });
        if let Some(d) = diff(&expected, &o.got) {
            return Err(("data-mismatch".into(), format!("{} read: {d}", SIDE_NAME[s])));
        }
        if !o.finished || !o.eof || !o.closed {
            return Err((
                "unclean-close".into(),
                format!("{}: finished={} eof={} closed={}", SIDE_NAME[s], o.finished, o.eof, o.closed),
            ));
        }
    }
    if out.dropped_held != [0, 0] || out.unflushed != [0, 0] {
        return Err((
            "data-dropped".into(),
            format!(
                "both sides finished, but bytes written by the TLS layer never reached the peer: client {} server {} (dropped with the transport end: {:?})",
                out.unflushed[0], out.unflushed[1], out.dropped_held
            ),
        ));
    }
    Ok(format!("{}:mode{}:ok:{}", cfg.name(), cfg.mode, plan_class_of(out)))
}

fn plan_class_of(out: &RunOut) -> String {
    format!("applied{}", out.applied.iter().filter(|a| **a).count())
}
