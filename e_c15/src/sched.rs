//! Shared pieces of the C15 explorer: choice points indexed by (side, call kind, ordinal), deviation
//! plans, the wake board (one fresh waker per poll; only a wake through the waker of the *latest*
//! poll makes a side runnable again) and gates (a call that was answered `Pending` stays pending
//! until the harness opens its gate at a later scheduler step).
use std::{
    sync::{
        Arc,
        atomic::{AtomicU64, Ordering},
    },
    task::{Wake, Waker},
};

use vcore::{Value, json};

pub const CLIENT: usize = 0;
pub const SERVER: usize = 1;
pub const SIDE_NAME: [&str; 2] = ["client", "server"];

#[derive(Clone, Copy, PartialEq, Eq, PartialOrd, Ord, Hash, Debug)]
#[repr(u8)]
pub enum Call {
    Read = 0,
    Write = 1,
    Flush = 2,
    Close = 3,
    /// WebSocket relay: bytes waiting in direction `side` (0 = client->server) at a relay step
    Relay = 4,
    /// WebSocket relay: bytes readable from the socket of direction `side` at a relay step (the relay
    /// may refuse to read them: write-side back-pressure for the compio end of that direction)
    Intake = 5,
}

pub const CALL_NAME: [&str; 6] = ["read", "write", "flush", "close", "relay", "intake"];

impl Call {
    pub fn from_u8(v: u8) -> Call {
        [Call::Read, Call::Write, Call::Flush, Call::Close, Call::Relay, Call::Intake][v as usize]
    }
}

#[derive(Clone, Copy, PartialEq, Eq, PartialOrd, Ord, Hash, Debug)]
#[repr(u8)]
pub enum Dev {
    /// transfer exactly one byte
    One = 0,
    /// transfer half of what was possible
    Half = 1,
    /// `Pending`; the gate is opened at the end of the current scheduler round
    PendNext = 2,
    /// `Pending`; the gate is opened only when nothing else can run (maximal delay)
    PendQuiet = 3,
    /// relay only: forward nothing at this step
    Hold = 4,
}

pub const DEV_NAME: [&str; 5] = ["one", "half", "pend-next", "pend-quiet", "hold"];

impl Dev {
    pub fn from_u8(v: u8) -> Dev {
        [Dev::One, Dev::Half, Dev::PendNext, Dev::PendQuiet, Dev::Hold][v as usize]
    }

    pub fn applicable(self, m: usize) -> bool {
        match self {
            Dev::One => m >= 2,
            Dev::Half => m >= 4,
            Dev::PendNext | Dev::PendQuiet => true,
            Dev::Hold => m >= 1,
        }
    }

    pub fn is_pend(self) -> bool {
        matches!(self, Dev::PendNext | Dev::PendQuiet)
    }
}

/// deviations that make sense for a call kind
pub fn devs_for(call: Call) -> &'static [Dev] {
    match call {
        Call::Read | Call::Write => &[Dev::One, Dev::Half, Dev::PendNext, Dev::PendQuiet],
        Call::Flush | Call::Close => &[Dev::PendNext, Dev::PendQuiet],
        Call::Relay => &[Dev::One, Dev::Half, Dev::Hold],
        Call::Intake => &[Dev::PendNext, Dev::PendQuiet],
    }
}

#[derive(Clone, Copy, PartialEq, Eq, PartialOrd, Ord, Hash, Debug)]
pub struct Point {
    pub side: u8,
    pub call: Call,
    pub ord: u32,
}

impl Point {
    pub fn who(&self) -> &'static str {
        if matches!(self.call, Call::Relay | Call::Intake) {
            ["c2s", "s2c"][self.side as usize]
        } else {
            SIDE_NAME[self.side as usize]
        }
    }

    pub fn show(&self) -> String {
        format!("{}.{}#{}", self.who(), CALL_NAME[self.call as usize], self.ord)
    }
}

pub type Plan = Vec<(Point, Dev)>;

pub fn plan_json(p: &Plan) -> Value {
    json!(
        p.iter()
            .map(|(pt, d)| json!({"side": pt.side, "call": pt.call as u8, "ord": pt.ord, "dev": *d as u8,
                                   "text": format!("{} -> {}", pt.show(), DEV_NAME[*d as usize])}))
            .collect::<Vec<_>>()
    )
}

pub fn plan_from_json(v: &Value) -> Plan {
    v.as_array()
        .map(|a| {
            a.iter()
                .map(|e| {
                    (
                        Point {
                            side: e["side"].as_u64().unwrap_or(0) as u8,
                            call: Call::from_u8(e["call"].as_u64().unwrap_or(0) as u8),
                            ord: e["ord"].as_u64().unwrap_or(0) as u32,
                        },
                        Dev::from_u8(e["dev"].as_u64().unwrap_or(0) as u8),
                    )
                })
                .collect()
        })
        .unwrap_or_default()
}

pub fn plan_text(p: &Plan) -> String {
    if p.is_empty() {
        return "no deviation".into();
    }
    p.iter()
        .map(|(pt, d)| format!("{}={}", pt.show(), DEV_NAME[*d as usize]))
        .collect::<Vec<_>>()
        .join(", ")
}

/// cause class of a plan: which (side, call, deviation) kinds were *applied* (ordinals dropped)
pub fn plan_class(p: &Plan, applied: &[bool]) -> String {
    let mut v: Vec<String> = p
        .iter()
        .zip(applied)
        .filter(|(_, a)| **a)
        .map(|((pt, d), _)| {
            let dn = if d.is_pend() { "pend" } else { DEV_NAME[*d as usize] };
            format!("{}.{}.{}", pt.who(), CALL_NAME[pt.call as usize], dn)
        })
        .collect();
    v.sort();
    v.dedup();
    if v.is_empty() { "default".into() } else { v.join("+") }
}

/// Answers the transport's questions according to a plan and records every choice point reached.
pub struct Decider {
    pub plan: Plan,
    pub applied: Vec<bool>,
    counters: [[u32; 6]; 2],
    /// (point, transferable amount at that point)
    pub reached: Vec<(Point, u32)>,
    pub calls: u64,
    pub call_horizon: u64,
}

impl Decider {
    pub fn new(plan: Plan, call_horizon: u64) -> Self {
        let n = plan.len();
        Self {
            plan,
            applied: vec![false; n],
            counters: [[0; 6]; 2],
            reached: Vec::new(),
            calls: 0,
            call_horizon,
        }
    }

    pub fn decide(&mut self, side: usize, call: Call, m: usize) -> Option<Dev> {
        self.calls += 1;
        if self.calls > self.call_horizon {
            panic!("SPIN: more than {} transport calls in one execution", self.call_horizon);
        }
        let ord = self.counters[side][call as usize];
        self.counters[side][call as usize] += 1;
        let p = Point {
            side: side as u8,
            call,
            ord,
        };
        self.reached.push((p, m.min(u32::MAX as usize) as u32));
        for (i, (pp, d)) in self.plan.iter().enumerate() {
            if *pp == p && !self.applied[i] && d.applicable(m) {
                self.applied[i] = true;
                return Some(*d);
            }
        }
        None
    }
}

// ---------------------------------------------------------------------------------------------
// wake board
// ---------------------------------------------------------------------------------------------

#[derive(Default)]
pub struct Board {
    /// highest poll epoch of each side that has been woken
    pub woken: [AtomicU64; 2],
    /// wakes that arrived through the waker of an older poll (ignored, counted)
    pub stale: AtomicU64,
    /// latest epoch handed out per side
    pub current: [AtomicU64; 2],
}

pub struct SideWaker {
    pub board: Arc<Board>,
    pub side: usize,
    pub epoch: u64,
}

impl Wake for SideWaker {
    fn wake(self: Arc<Self>) {
        self.wake_by_ref()
    }

    fn wake_by_ref(self: &Arc<Self>) {
        if self.epoch < self.board.current[self.side].load(Ordering::SeqCst) {
            self.board.stale.fetch_add(1, Ordering::SeqCst);
        }
        self.board.woken[self.side].fetch_max(self.epoch, Ordering::SeqCst);
    }
}

impl Board {
    /// a fresh waker for the next poll of `side`
    pub fn next_waker(self: &Arc<Self>, side: usize) -> Waker {
        let epoch = self.current[side].fetch_add(1, Ordering::SeqCst) + 1;
        Waker::from(Arc::new(SideWaker {
            board: self.clone(),
            side,
            epoch,
        }))
    }

    /// never polled, or woken through the waker of its latest poll
    pub fn runnable(&self, side: usize) -> bool {
        let cur = self.current[side].load(Ordering::SeqCst);
        cur == 0 || self.woken[side].load(Ordering::SeqCst) == cur
    }
}

// ---------------------------------------------------------------------------------------------
// gates
// ---------------------------------------------------------------------------------------------

pub struct Gate {
    #[allow(dead_code)]
    pub side: usize,
    pub kind: Dev,
    pub waker: Option<Waker>,
    pub open: bool,
}

#[derive(Default)]
pub struct Gates(pub Vec<Gate>);

impl Gates {
    pub fn close(&mut self, side: usize, kind: Dev, waker: Waker) -> usize {
        self.0.push(Gate {
            side,
            kind,
            waker: Some(waker),
            open: false,
        });
        self.0.len() - 1
    }

    /// open every closed gate of `kind`; returns how many were opened
    pub fn open_all(&mut self, kind: Dev) -> usize {
        let mut n = 0;
        for g in self.0.iter_mut() {
            if !g.open && g.kind == kind {
                g.open = true;
                n += 1;
                if let Some(w) = g.waker.take() {
                    w.wake();
                }
            }
        }
        n
    }
}

/// position-coded payload: byte i of direction `dir`
pub fn payload(dir: usize, n: usize) -> Vec<u8> {
    (0..n)
        .map(|i| ((i % 251) as u8) ^ (if dir == 0 { 0x00 } else { 0xA5 }) ^ ((i / 251) as u8).wrapping_mul(31))
        .collect()
}

/// first difference between what was expected and what arrived
pub fn diff(expected: &[u8], got: &[u8]) -> Option<String> {
    if expected == got {
        return None;
    }
    let n = expected.len().min(got.len());
    let at = (0..n).find(|&i| expected[i] != got[i]);
    Some(match at {
        Some(i) => format!(
            "expected {} bytes, got {}; first difference at offset {i} (expected {:#04x}, got {:#04x})",
            expected.len(),
            got.len(),
            expected[i],
            got[i]
        ),
        None => format!("expected {} bytes, got {} (common prefix equal)", expected.len(), got.len()),
    })
}
