//! C15 — TLS and WebSocket layers preserve the stream over any transport behaviour.
//!
//! Deviation-bounded scripted-environment explorer (single thread per execution, no kernel for the
//! TLS half). See `tls.rs` (compio-tls over an in-memory duplex) and `ws.rs` (compio-ws over two
//! socketpairs with minimal kernel buffers joined by a harness relay that owns fragmentation and
//! write-side back-pressure, on a manually stepped runtime).
mod duplex;
mod sched;
mod tls;
mod ws;

use std::{
    collections::BTreeMap,
    sync::{
        Mutex,
        atomic::{AtomicBool, AtomicU64, Ordering},
    },
};

use sched::*;
use tls::*;
use vcore::{Report, Tier, Violation, json, serde_json};

/// violations collected with a rank so that the smallest failing example of each key is reported
pub struct Collector {
    map: Mutex<BTreeMap<String, (u64, Violation, u64)>>,
}

impl Collector {
    /// false if an example of this key with a rank at least as small is already held; the
    /// occurrence is counted then (the caller skips the traced re-execution)
    pub fn wants(&self, key: &str, rank: u64) -> bool {
        let mut g = self.map.lock().unwrap();
        match g.get_mut(key) {
            Some(e) if e.0 <= rank => {
                e.2 += 1;
                false
            }
            _ => true,
        }
    }

    pub fn add(&self, rank: u64, v: Violation) {
        let mut g = self.map.lock().unwrap();
        match g.get_mut(&v.key) {
            Some(e) => {
                e.2 += 1;
                if rank < e.0 {
                    e.0 = rank;
                    e.1 = v;
                }
            }
            None => {
                g.insert(v.key.clone(), (rank, v, 1));
            }
        }
    }
}

fn tls_cfgs(tier: Tier) -> Vec<Cfg> {
    let pairs: Vec<(usize, usize)> = match tier {
        Tier::Quick => vec![(0, 0), (1, 100), (100, 1), (20000, 0), (1, 20000)],
        Tier::Thorough => {
            let s = [0usize, 1, 100, 20000];
            s.iter().flat_map(|a| s.iter().map(move |b| (*a, *b))).collect()
        }
    };
    let mut v = Vec::new();
    for backend in [Backend::Native, Backend::Rustls] {
        for ver in [13u8, 12] {
            if backend == Backend::Native && ver == 13 {
                continue; // native_tls servers cannot do TLS 1.3 (see tls.rs)
            }
            for layer in [Layer::Fut, Layer::Compat, Layer::CompatSmall] {
                for buffering in [false, true] {
                    for mode in [0u8, 1] {
                        for (c2s, s2c) in &pairs {
                            if tier == Tier::Quick {
                                // quick: the small-limit adapter only with the native back-end (that
                                // is where compio's own sync-over-async shim sits), TLS 1.2 only with
                                // the poll-style transport
                                if layer == Layer::CompatSmall && backend == Backend::Rustls {
                                    continue;
                                }
                                if backend == Backend::Rustls && ver == 12 && layer != Layer::Fut {
                                    continue;
                                }
                                if mode == 1 && !matches!((*c2s, *s2c), (1, 100) | (20000, 0)) {
                                    continue;
                                }
                            }
                            v.push(Cfg {
                                backend,
                                ver,
                                layer,
                                buffering,
                                mode,
                                c2s: *c2s,
                                s2c: *s2c,
                            });
                        }
                    }
                }
            }
        }
    }
    v
}

/// configurations that get the second deviation level (thorough): payload pairs (0,0), (1,1) and
/// (100,100) on the poll-style transport and the default-size adapter, (1,1) also on the small-limit
/// adapter; both programs, every back-end / version / flavour
fn level2(cfg: &Cfg) -> bool {
    match (cfg.c2s, cfg.s2c) {
        (1, 1) => true,
        (0, 0) | (100, 100) => cfg.layer != Layer::CompatSmall,
        _ => false,
    }
}

struct TlsCtx<'a> {
    rep: &'a Report,
    col: &'a Collector,
    mat: &'a Material,
    bound: u32,
    deadline: f64,
    capped: AtomicBool,
    unreached: AtomicU64,
}

fn tls_exec(cx: &TlsCtx, cfg: &Cfg, plan: &Plan) -> RunOut {
    let out = run_one(cx.mat, cfg, plan, false);
    let rep = cx.rep;
    rep.add_execution(out.reached.len() as u64 + out.polls);
    if !out.applied.iter().all(|a| *a) {
        // the indexed choice point did not occur in this run (sizes differ between runs)
        cx.unreached.fetch_add(1, Ordering::Relaxed);
    }
    for ((p, d), a) in plan.iter().zip(&out.applied) {
        if *a {
            rep.count(&format!("tls.applied.{}.{}", CALL_NAME[p.call as usize], DEV_NAME[*d as usize]), 1);
        }
    }
    if out.natural_pending {
        rep.count("tls.pending-for-peer", 1);
    }
    if out.gates_opened > 0 {
        rep.count("tls.gate-opened", out.gates_opened as u64);
    }
    if out.stale_wakes > 0 {
        rep.count("tls.stale-wakes-ignored", out.stale_wakes);
    }
    match judge(cfg, &out) {
        Ok(sig) => {
            rep.count(&format!("tls.ok.{}", cfg.name()), 1);
            rep.outcome(format!("tls:{sig}:{}", plan_class(plan, &out.applied)));
            if plan.len() == 1 && out.applied[0] && plan[0].1.is_pend() {
                rep.sample(6, || {
                    json!({"part": "tls", "cfg": cfg.name(), "scenario": cfg.scenario(), "plan": plan_text(plan),
                           "polls": out.polls, "choice_points": out.reached.len(), "result": "ok"})
                });
            }
        }
        Err((oracle, detail)) => {
            let class = plan_class(plan, &out.applied);
            let key = format!("tls:{}:{}:{}", cfg.name(), oracle, class);
            let rank = (plan.len() as u64) << 40 | ((cfg.c2s + cfg.s2c) as u64) << 16 | plan.iter().map(|p| p.0.ord as u64).sum::<u64>().min(0xffff);
            // a trace of the failing run for the report
            let traced = run_one(cx.mat, cfg, plan, true);
            let same = judge(cfg, &traced).err().map(|e| e.0) == Some(oracle.clone());
            let tail: Vec<String> = traced.trace.iter().rev().take(40).rev().cloned().collect();
            cx.col.add(
                rank,
                Violation {
                    key,
                    what: format!(
                        "compio-tls {} ({}), deviations [{}]: {}{}",
                        cfg.name(),
                        cfg.scenario(),
                        plan_text(plan),
                        detail,
                        if same { "" } else { " [NOT reproduced on re-execution]" }
                    ),
                    replay: json!({"engine": "e_c15", "part": "tls", "cfg": cfg.to_json(), "plan": plan_json(plan),
                                   "reproduced": same, "trace_tail": tail}),
                },
            );
        }
    }
    out
}

fn plans_after(reached: &[(Point, u32)], after: Option<(Point, Dev)>) -> Vec<(Point, Dev)> {
    let start = match after {
        None => 0,
        Some((p, _)) => reached.iter().position(|(q, _)| *q == p).map(|i| i + 1).unwrap_or(reached.len()),
    };
    let mut v = Vec::new();
    for (q, m) in &reached[start..] {
        for d in devs_for(q.call) {
            if d.applicable(*m as usize) {
                v.push((*q, *d));
            }
        }
    }
    v
}

fn run_tls(rep: &Report, col: &Collector, tier: Tier) -> serde_json::Value {
    let mat = match make_material() {
        Ok(m) => m,
        Err(e) => vcore::machinery_error(&format!("cannot set up TLS key material for both back-ends: {e}")),
    };
    let cfgs = tls_cfgs(tier);
    let bound = tier.pick(1, 2);
    let cx = TlsCtx {
        rep,
        col,
        mat: &mat,
        bound,
        deadline: tier.pick(40.0, 450.0),
        capped: AtomicBool::new(false),
        unreached: AtomicU64::new(0),
    };
    // level 0: default runs, discover the choice points
    let base: Vec<Mutex<Vec<(Point, u32)>>> = cfgs.iter().map(|_| Mutex::new(Vec::new())).collect();
    vcore::par_for_each(&cfgs, |i, cfg| {
        let out = tls_exec(&cx, cfg, &Vec::new());
        *base[i].lock().unwrap() = out.reached;
    });
    let mut points_total = 0usize;
    let mut points_max = 0usize;
    let mut items: Vec<(usize, (Point, Dev))> = Vec::new();
    for (i, b) in base.iter().enumerate() {
        let r = b.lock().unwrap();
        points_total += r.len();
        points_max = points_max.max(r.len());
        for p in plans_after(&r, None) {
            items.push((i, p));
        }
    }
    // interleave configurations so that a time cap hits all of them evenly
    items.sort_by_key(|(i, (p, d))| (p.ord, p.call, p.side, *d, *i));
    let l1 = items.len();
    let l2 = AtomicU64::new(0);
    vcore::par_for_each(&items, |_, (i, first)| {
        let cfg = &cfgs[*i];
        let out = tls_exec(&cx, cfg, &vec![*first]);
        if cx.bound >= 2 && level2(cfg) && out.applied[0] {
            for second in plans_after(&out.reached, Some(*first)) {
                if rep.elapsed() > cx.deadline {
                    cx.capped.store(true, Ordering::Relaxed);
                    break;
                }
                tls_exec(&cx, cfg, &vec![*first, second]);
                l2.fetch_add(1, Ordering::Relaxed);
            }
        }
    });
    if cx.capped.load(Ordering::Relaxed) {
        rep.cap_hit(&format!(
            "tls: two-deviation level stopped at the wall-clock cap of {} s; the one-deviation level is complete",
            cx.deadline
        ));
    }
    rep.count("tls.plan-point-unreached", cx.unreached.load(Ordering::Relaxed));
    json!({
        "configurations": cfgs.len(),
        "deviation_bound": bound,
        "two_deviation_level_for": "thorough only: payload pairs (0,0) (1,1) (100,100) on layers fut and compat, (1,1) also on compat-small; both programs, every back-end/version/flavour",
        "choice_points_total_default_runs": points_total,
        "choice_points_max_per_run": points_max,
        "one_deviation_runs": l1,
        "two_deviation_runs": l2.load(Ordering::Relaxed),
        "certificate_key": mat.key_alg,
        "certificate_key_note": mat.key_note,
        "poll_horizon": POLL_HORIZON,
        "transport_call_horizon": CALL_HORIZON,
    })
}

fn replay(path: &std::path::Path) -> ! {
    let v: serde_json::Value = match std::fs::read(path).ok().and_then(|b| serde_json::from_slice(&b).ok()) {
        Some(v) => v,
        None => vcore::machinery_error(&format!("cannot read replay file {path:?}")),
    };
    let r = if v.get("replay").is_some() { &v["replay"] } else { &v };
    let plan = plan_from_json(&r["plan"]);
    match r["part"].as_str() {
        Some("tls") => {
            let mat = make_material().unwrap_or_else(|e| vcore::machinery_error(&e));
            let cfg = Cfg::from_json(&r["cfg"]);
            let out = run_one(&mat, &cfg, &plan, true);
            for l in &out.trace {
                println!("{l}");
            }
            println!("config {} ({}), plan [{}], applied {:?}", cfg.name(), cfg.scenario(), plan_text(&plan), out.applied);
            match judge(&cfg, &out) {
                Ok(sig) => {
                    println!("HELD: {sig}");
                    std::process::exit(0)
                }
                Err((o, d)) => {
                    println!("VIOLATED: {o}: {d}");
                    std::process::exit(1)
                }
            }
        }
        Some("ws") => ws::replay(r, &plan),
        _ => vcore::machinery_error("replay file has no part"),
    }
}

fn main() {
    let args = vcore::parse_args();
    vcore::quiet_panics();
    if args.property != "C15" {
        vcore::machinery_error(&format!("e_c15 does not serve property {}", args.property));
    }
    if let Some(p) = &args.replay {
        replay(p);
    }
    let only = args.rest.iter().find_map(|a| a.strip_prefix("--only=").map(|s| s.to_string()));
    let rep = Report::new("C15", args.tier);
    let col = Collector {
        map: Mutex::new(BTreeMap::new()),
    };
    rep.rule(
        "every execution runs the real compio-tls / compio-ws code of both ends to completion under a deterministic \
         two-task scheduler; enumerated: every placement of at most b deviations (1 byte, half, Pending until the harness \
         opens the gate at the next step / at quiescence; for the WebSocket relay: forwarding 1 byte, half, hold for one \
         step, and intake: the bytes a compio end wrote are not read until the next step / until nothing else can move, so \
         that its writes meet the back-pressure of a socket with minimal buffers) on the choice points \
         (side or direction, call kind, ordinal) reached by the run with one deviation less, for every configuration listed \
         under bounds; a WebSocket execution ends in the verdict deadlock only with every stall released; \
         distinct_nontrivial = distinct (configuration, applied deviation class, result, back-pressure met or not) signatures",
    );
    let mut bounds = serde_json::Map::new();
    if only.as_deref() != Some("ws") {
        for k in ["tls.pending-for-peer", "tls.gate-opened"] {
            rep.must_reach(k);
        }
        for c in ["read", "write"] {
            for d in ["one", "half", "pend-next", "pend-quiet"] {
                rep.must_reach(&format!("tls.applied.{c}.{d}"));
            }
        }
        for c in ["flush", "close"] {
            for d in ["pend-next", "pend-quiet"] {
                rep.must_reach(&format!("tls.applied.{c}.{d}"));
            }
        }
        for cfg in tls_cfgs(args.tier) {
            rep.must_reach(&format!("tls.ok.{}", cfg.name()));
        }
        bounds.insert("tls".into(), run_tls(&rep, &col, args.tier));
    }
    if only.as_deref() != Some("tls") {
        ws::must_reach(&rep, args.tier);
        bounds.insert("ws".into(), ws::run(&rep, &col, args.tier));
    }
    rep.extra("bounds", serde_json::Value::Object(bounds));
    rep.assume("the TLS libraries (rustls via futures-rustls, OpenSSL via native-tls) and tungstenite are exercised as they are; a defect inside them would surface as a violation of the layer");
    rep.assume("a side is re-polled only after a wake-up through the waker of its latest poll; wake-ups through older wakers are counted and ignored");
    if only.as_deref() != Some("tls") {
        rep.assume("ws: the compio ends run on kernel AF_UNIX stream sockets with SO_SNDBUF/SO_RCVBUF at the kernel minimum; how many bytes a write is accepted for while the relay does not read is the kernel's answer (measured at start-up, recorded under bounds.ws.socket_buffers; the same for every execution on one kernel), the harness owns only when the relay reads and how much it forwards; the relay's own forwarding never blocks (default send buffer, every scenario's traffic fits)");
        rep.assume("ws: duplex programs drive the Sink half (poll_ready, start_send, poll_flush per message) and the Stream half (poll_next) of one WebSocketStream from one task with one waker, send part first; two tasks with different wakers on the two halves are not explored. In scenarios without a close handshake a side stops reading once it has received what it expects, so a surplus message after the last expected one would not be seen there (it is seen in every scenario that ends with a close handshake, which reads until the stream ends)");
    }
    for (_, (_, v, n)) in col.map.into_inner().unwrap() {
        let mut v = v;
        v.what = format!("{} [{} failing executions in this class]", v.what, n);
        rep.violation(v);
    }
    rep.finish()
}
