//! WebSocket half of C15: compio-ws client and server ends on `PollFd<UnixStream>`, connected through
//! two socketpairs and a harness relay. The compio ends' sockets have minimal kernel buffers, so a
//! write of the large message symbol (or any write while the relay is not reading) meets real
//! back-pressure. The relay owns both transport dimensions: per direction and step it decides whether
//! it reads what the compio end wrote (read everything / stall until the next step / stall until
//! nothing else can move) and how much of what it holds it forwards (everything / 1 byte / half /
//! hold for one step). The runtime is stepped manually: nothing ever waits for the OS; completions
//! are harvested with zero-timeout polls.
use std::{
    cell::{Cell, RefCell},
    future::{Future, poll_fn},
    io::{Read, Write},
    os::{fd::AsRawFd, unix::net::UnixStream},
    pin::{Pin, pin},
    rc::Rc,
    sync::{
        Arc, Mutex,
        atomic::{AtomicBool, AtomicU64, Ordering},
    },
    task::{Context, Poll, Waker},
    time::Duration,
};

use compio_driver::{DriverType, ProactorBuilder};
use compio_runtime::{Runtime, RuntimeBuilder, fd::PollFd};
use compio_ws::{WebSocketStream, accept_async, client_async};
use futures_util::{Sink, StreamExt};
use tungstenite::{Error as WsError, Message};
use vcore::{Report, Tier, Value, Violation, json};

use crate::{Collector, sched::*};

pub const SYM_NAME: [&str; 6] = ["text0", "bin1", "bin200", "ping", "close", "big"];
const CLOSE: u8 = 4;
const PING: u8 = 3;
const BIG: u8 = 5;
/// payload length of the large binary message: several times what a compio end's socket accepts
/// while the relay is not reading (measured at start-up, see `send_capacity`)
pub const BIG_LEN: usize = 20_000;

/// who starts the close handshake of a duplex scenario
#[derive(Clone, Copy, Debug, PartialEq, Eq, Hash, PartialOrd, Ord)]
pub enum Closing {
    /// nobody: both sides stop touching the stream once they have sent and received everything
    None,
    /// this side, after it has sent its list and received everything the peer owes it
    Late(usize),
    /// this side, right after its own list, while the peer may still be sending (the peer's list is
    /// then at most one data message, started before it can have read the close frame)
    Early(usize),
}

#[derive(Clone, Debug, PartialEq, Eq, Hash, PartialOrd, Ord)]
pub struct Scn {
    /// false: `sender` sends `msgs` and the other role receives; true: both roles send their list
    /// (`lists`) and receive the peer's concurrently
    pub duplex: bool,
    /// which role sends the list (the other role receives)
    pub sender: usize,
    pub msgs: Vec<u8>,
    pub lists: [Vec<u8>; 2],
    pub closing: Closing,
    pub uring: bool,
}

fn sym_list(l: &[u8]) -> String {
    l.iter().map(|m| SYM_NAME[*m as usize]).collect::<Vec<_>>().join(",")
}

impl Scn {
    pub fn seq(sender: usize, msgs: Vec<u8>, uring: bool) -> Scn {
        Scn {
            duplex: false,
            sender,
            msgs,
            lists: [Vec::new(), Vec::new()],
            closing: Closing::None,
            uring,
        }
    }

    pub fn driver(&self) -> &'static str {
        if self.uring { "io_uring" } else { "poll" }
    }

    fn closing_name(&self) -> String {
        match self.closing {
            Closing::None => "no-close".into(),
            Closing::Late(s) => format!("late-close-by-{}", SIDE_NAME[s]),
            Closing::Early(s) => format!("early-close-by-{}", SIDE_NAME[s]),
        }
    }

    pub fn name(&self) -> String {
        if self.duplex {
            format!("duplex[client:{}|server:{}|{}]:{}", sym_list(&self.lists[0]), sym_list(&self.lists[1]), self.closing_name(), self.driver())
        } else {
            format!("{}-sends[{}]:{}", SIDE_NAME[self.sender], sym_list(&self.msgs), self.driver())
        }
    }

    pub fn class(&self) -> String {
        if self.duplex {
            format!("duplex:{}:{}", self.closing_name(), self.driver())
        } else {
            format!("{}-sends:{}", SIDE_NAME[self.sender], self.driver())
        }
    }

    /// cause class of the input: which kinds of message are in the list(s)
    pub fn shape(&self) -> String {
        fn kinds(l: &[u8]) -> String {
            let mut k: Vec<&str> = Vec::new();
            if l.iter().any(|m| *m < PING) {
                k.push("data");
            }
            if l.contains(&BIG) {
                k.push("big");
            }
            if l.contains(&PING) {
                k.push("ping");
            }
            if l.contains(&CLOSE) {
                k.push("close");
            }
            if k.is_empty() { "empty".into() } else { k.join("+") }
        }
        if self.duplex {
            format!("client[{}]/server[{}]", kinds(&self.lists[0]), kinds(&self.lists[1]))
        } else {
            kinds(&self.msgs)
        }
    }

    pub fn total_len(&self) -> usize {
        self.msgs.len() + self.lists[0].len() + self.lists[1].len()
    }

    pub fn has(&self, sym: u8) -> bool {
        self.msgs.contains(&sym) || self.lists.iter().any(|l| l.contains(&sym))
    }

    pub fn to_json(&self) -> Value {
        let (ck, cs) = match self.closing {
            Closing::None => ("none", 0),
            Closing::Late(s) => ("late", s),
            Closing::Early(s) => ("early", s),
        };
        json!({"duplex": self.duplex, "sender": self.sender, "msgs": self.msgs, "lists": [self.lists[0], self.lists[1]],
               "closing": ck, "closing_side": cs, "uring": self.uring, "text": self.name()})
    }

    pub fn from_json(v: &Value) -> Scn {
        let list = |x: &Value| -> Vec<u8> { x.as_array().map(|a| a.iter().map(|x| x.as_u64().unwrap_or(0) as u8).collect()).unwrap_or_default() };
        let cs = v["closing_side"].as_u64().unwrap_or(0) as usize;
        Scn {
            duplex: v["duplex"].as_bool().unwrap_or(false),
            sender: v["sender"].as_u64().unwrap_or(0) as usize,
            msgs: list(&v["msgs"]),
            lists: [list(&v["lists"][0]), list(&v["lists"][1])],
            closing: match v["closing"].as_str() {
                Some("late") => Closing::Late(cs),
                Some("early") => Closing::Early(cs),
                _ => Closing::None,
            },
            uring: v["uring"].as_bool().unwrap_or(false),
        }
    }
}

/// message for symbol `sym`; `code` makes every message of an execution distinct (index in the
/// list, plus 4 for the server's list in duplex scenarios). The large message is position-coded.
fn make_msg(sym: u8, code: usize) -> Message {
    match sym {
        0 => Message::Text("".into()),
        1 => Message::Binary(vec![0x40 + code as u8].into()),
        2 => Message::Binary((0..200).map(|i| (i as u8).wrapping_mul(7) ^ (code as u8).wrapping_mul(0x55)).collect::<Vec<u8>>().into()),
        3 => Message::Ping(vec![b'p', b'0' + code as u8].into()),
        BIG => Message::Binary(big_payload(code).into()),
        _ => Message::Close(None),
    }
}

fn big_payload(code: usize) -> Vec<u8> {
    (0..BIG_LEN)
        .map(|i| ((i % 251) as u8) ^ ((i / 251) as u8).wrapping_mul(31) ^ (code as u8).wrapping_mul(0x3b))
        .collect()
}

fn pong_for(code: usize) -> Message {
    Message::Pong(vec![b'p', b'0' + code as u8].into())
}

fn show_msg(m: &Message) -> String {
    match m {
        Message::Text(t) => format!("text({})", t.len()),
        Message::Binary(b) if b.len() > 200 => format!("bin({}:{:02x?}..#{:08x})", b.len(), &b[..2], vcore::fnv(b) as u32),
        Message::Binary(b) => format!("bin({}:{:02x?})", b.len(), &b[..b.len().min(2)]),
        Message::Ping(b) => format!("ping({:?})", String::from_utf8_lossy(b)),
        Message::Pong(b) => format!("pong({:?})", String::from_utf8_lossy(b)),
        Message::Close(c) => format!("close({})", if c.is_some() { "frame" } else { "none" }),
        Message::Frame(_) => "frame".into(),
    }
}

fn show_list(l: &[Message]) -> String {
    l.iter().map(show_msg).collect::<Vec<_>>().join(" ")
}

/// where two message lists first differ (byte offset for binary messages of equal kind)
fn first_difference(expected: &[Message], got: &[Message]) -> String {
    for (i, (e, g)) in expected.iter().zip(got).enumerate() {
        if e != g {
            if let (Message::Binary(a), Message::Binary(b)) = (e, g) {
                if let Some(d) = diff(a, b) {
                    return format!("message #{i}: {d}");
                }
            }
            return format!("message #{i}: expected {}, got {}", show_msg(e), show_msg(g));
        }
    }
    if got.len() < expected.len() {
        format!("message #{} ({}) and later never arrived", got.len(), show_msg(&expected[got.len()]))
    } else {
        format!("{} extra message(s) starting with {}", got.len() - expected.len(), show_msg(&got[expected.len()]))
    }
}

fn kind_of(m: &Message) -> &'static str {
    match m {
        Message::Ping(_) => "ping",
        Message::Pong(_) => "pong",
        Message::Close(_) => "close",
        _ => "data",
    }
}

#[derive(Default, Debug, Clone)]
pub struct WsSide {
    pub stage: String,
    pub handshake_ok: bool,
    pub got: Vec<Message>,
    /// how the read loop ended: "closed" (ConnectionClosed), "done" (stopped reading), or an error
    pub end: String,
    pub finished: bool,
    pub err: Option<String>,
    pub err_poll: u64,
    /// polls of a send / flush of this side that returned Pending (the socket did not take it all)
    pub write_blocked: u64,
    /// a send / flush of this side returned Pending during its latest poll
    pub write_pending_now: bool,
    /// kinds of messages that were yielded after a read had returned Pending although no byte was
    /// delivered to this side in between: the message was available and held back by a pending flush
    pub held_back: Vec<&'static str>,
    /// bytes delivered to this side when its latest read returned Pending
    read_pending_at: Option<u64>,
}

/// a flag the harness-side program sets; the other program can wait for it
#[derive(Default)]
struct Flag {
    set: Cell<bool>,
    waiter: RefCell<Option<Waker>>,
}

struct FlagFut(Rc<Flag>);

impl Future for FlagFut {
    type Output = ();

    fn poll(self: Pin<&mut Self>, cx: &mut Context<'_>) -> Poll<()> {
        if self.0.set.get() {
            Poll::Ready(())
        } else {
            *self.0.waiter.borrow_mut() = Some(cx.waker().clone());
            Poll::Pending
        }
    }
}

impl Flag {
    fn raise(&self) {
        self.set.set(true);
        if let Some(w) = self.waiter.borrow_mut().take() {
            w.wake();
        }
    }
}

type Ws = WebSocketStream<UnixStream>;

/// what a program shares with the harness
#[derive(Clone)]
struct Io {
    side: usize,
    out: Rc<RefCell<WsSide>>,
    /// inbound[s]: bytes (and the end of stream, counted as one) the relay has delivered to side s
    inbound: Rc<[Cell<u64>; 2]>,
    /// done[s]: side s has finished its program (duplex without close; sequential: the sender)
    done: [Rc<Flag>; 2],
}

impl Io {
    fn stage(&self, s: String) {
        self.out.borrow_mut().stage = s;
    }

    fn write_pending(&self) {
        let mut o = self.out.borrow_mut();
        o.write_blocked += 1;
        o.write_pending_now = true;
    }

    fn read_pending(&self) {
        self.out.borrow_mut().read_pending_at = Some(self.inbound[self.side].get());
    }

    fn read_ready(&self, m: Option<&Message>) {
        let mut o = self.out.borrow_mut();
        if let (Some(at), Some(m)) = (o.read_pending_at.take(), m) {
            if at == self.inbound[self.side].get() {
                o.held_back.push(kind_of(m));
            }
        }
    }
}

/// `ws.send(m)`, polled by hand so that a Pending (= the transport did not take everything) is seen
async fn send_msg(ws: &mut Ws, io: &Io, m: Message) -> Result<(), WsError> {
    let mut f = pin!(ws.send(m));
    poll_fn(|cx| {
        let r = f.as_mut().poll(cx);
        if r.is_pending() {
            io.write_pending();
        }
        r
    })
    .await
}

/// `ws.read()`, polled by hand (see `WsSide::held_back`)
async fn read_msg(ws: &mut Ws, io: &Io) -> Result<Message, WsError> {
    let mut f = pin!(ws.read());
    poll_fn(|cx| {
        let r = f.as_mut().poll(cx);
        match &r {
            Poll::Pending => io.read_pending(),
            Poll::Ready(r) => io.read_ready(r.as_ref().ok()),
        }
        r
    })
    .await
}

async fn ws_side(side: usize, sock: UnixStream, scn: Scn, io: Io) {
    let r = ws_side_inner(side, sock, &scn, &io).await;
    // whatever happened, never leave the peer parked on the harness flag
    io.done[side].raise();
    let mut o = io.out.borrow_mut();
    match r {
        Ok(()) => {
            o.finished = true;
            o.stage = "done".into();
        }
        Err(e) => o.err = Some(e),
    }
}

async fn ws_side_inner(side: usize, sock: UnixStream, scn: &Scn, io: &Io) -> Result<(), String> {
    io.stage("handshake".into());
    let pfd = PollFd::new(sock).map_err(|e| format!("PollFd::new: {e}"))?;
    let mut ws: Ws = if side == CLIENT {
        client_async("ws://localhost/c15", pfd).await.map_err(|e| format!("client handshake: {e}"))?.0
    } else {
        accept_async(pfd).await.map_err(|e| format!("server handshake: {e}"))?
    };
    io.out.borrow_mut().handshake_ok = true;
    if scn.duplex {
        duplex_program(side, &mut ws, scn, io).await?;
    } else {
        seq_program(side, &mut ws, scn, io).await?;
    }
    drop(ws);
    Ok(())
}

/// one role sends the list message by message, the other receives
async fn seq_program(side: usize, ws: &mut Ws, scn: &Scn, io: &Io) -> Result<(), String> {
    let out = &io.out;
    let has_close = scn.msgs.last() == Some(&CLOSE);
    if side == scn.sender {
        for (i, m) in scn.msgs.iter().enumerate() {
            io.stage(format!("send#{i}"));
            send_msg(ws, io, make_msg(*m, i)).await.map_err(|e| format!("send #{i} ({}): {e}", SYM_NAME[*m as usize]))?;
        }
        let pings = scn.msgs.iter().filter(|m| **m == PING).count();
        if has_close {
            io.stage("drain".into());
            read_until_closed(ws, io).await?;
        } else {
            io.stage("wait-pong".into());
            while out.borrow().got.len() < pings {
                match read_msg(ws, io).await {
                    Ok(m) => out.borrow_mut().got.push(m),
                    Err(e) => return Err(format!("read while waiting for pong: {e}")),
                }
            }
            out.borrow_mut().end = "done".into();
        }
    } else {
        io.stage("recv".into());
        while out.borrow().got.len() < scn.msgs.len() {
            match read_msg(ws, io).await {
                Ok(m) => out.borrow_mut().got.push(m),
                Err(e) => return Err(format!("read message #{}: {e}", out.borrow().got.len())),
            }
        }
        if has_close {
            io.stage("drain".into());
            read_until_closed(ws, io).await?;
        } else {
            // do not touch the stream any more: everything the protocol owes the peer (a pong) must
            // already have been sent when the message was yielded
            io.stage("park".into());
            FlagFut(io.done[scn.sender].clone()).await;
            out.borrow_mut().end = "done".into();
        }
    }
    Ok(())
}

async fn read_until_closed(ws: &mut Ws, io: &Io) -> Result<(), String> {
    loop {
        match read_msg(ws, io).await {
            Ok(m) => io.out.borrow_mut().got.push(m),
            Err(WsError::ConnectionClosed) => {
                io.out.borrow_mut().end = "closed".into();
                return Ok(());
            }
            Err(e) => return Err(format!("read while completing the close handshake: {e}")),
        }
    }
}

/// messages side `side` sends in a duplex scenario (its list, plus the close frame of an early closer)
fn duplex_outgoing(scn: &Scn, side: usize) -> Vec<Message> {
    let mut v: Vec<Message> = scn.lists[side].iter().enumerate().map(|(i, m)| make_msg(*m, i + 4 * side)).collect();
    if scn.closing == Closing::Early(side) {
        v.push(Message::Close(None));
    }
    v
}

fn duplex_pongs_owed_to(scn: &Scn, side: usize) -> Vec<Message> {
    scn.lists[side].iter().enumerate().filter(|(_, m)| **m == PING).map(|(i, _)| pong_for(i + 4 * side)).collect()
}

/// Both roles run this: the side's own list is sent message by message (`poll_ready`, `start_send`,
/// `poll_flush`: what `SinkExt::send` does) while, in the same task and with the same waker, the
/// peer's messages are received with `poll_next` (what `join(send loop, receive loop)` over the
/// two halves of the stream does). A blocked write therefore coexists with arriving messages and
/// with the automatic replies (pong, close) they queue.
async fn duplex_program(side: usize, ws: &mut Ws, scn: &Scn, io: &Io) -> Result<(), String> {
    let peer = 1 - side;
    let outgoing = duplex_outgoing(scn, side);
    let until_closed = matches!(scn.closing, Closing::Early(_));
    let need_msgs = scn.lists[peer].len();
    let need_pongs = scn.lists[side].iter().filter(|m| **m == PING).count();
    // sender state: index of the next message, and whether it has been started and awaits its flush
    let mut next = 0usize;
    let mut flushing = false;
    let mut recv_done = !until_closed && need_msgs == 0 && need_pongs == 0;
    let mut msgs = 0usize;
    let mut pongs = 0usize;
    poll_fn(|cx| {
        loop {
            io.stage(format!("duplex#send{next}{}/recv{}", if flushing { "-flush" } else { "" }, msgs + pongs));
            if flushing {
                match Pin::new(&mut *ws).poll_flush(cx) {
                    Poll::Ready(Ok(())) => {
                        flushing = false;
                        next += 1;
                    }
                    Poll::Ready(Err(e)) => return Poll::Ready(Err(format!("flush of message #{next}: {e}"))),
                    Poll::Pending => {
                        io.write_pending();
                        break;
                    }
                }
            } else if next < outgoing.len() {
                match Pin::new(&mut *ws).poll_ready(cx) {
                    Poll::Ready(Ok(())) => {
                        if let Err(e) = Pin::new(&mut *ws).start_send(outgoing[next].clone()) {
                            return Poll::Ready(Err(format!("start_send of message #{next}: {e}")));
                        }
                        flushing = true;
                    }
                    Poll::Ready(Err(e)) => return Poll::Ready(Err(format!("poll_ready for message #{next}: {e}"))),
                    Poll::Pending => {
                        io.write_pending();
                        break;
                    }
                }
            } else {
                break;
            }
        }
        while !recv_done {
            match ws.poll_next_unpin(cx) {
                Poll::Ready(Some(Ok(m))) => {
                    io.read_ready(Some(&m));
                    if matches!(m, Message::Pong(_)) {
                        pongs += 1;
                    } else {
                        msgs += 1;
                    }
                    io.out.borrow_mut().got.push(m);
                    if !until_closed && msgs >= need_msgs && pongs >= need_pongs {
                        recv_done = true;
                    }
                }
                Poll::Ready(Some(Err(e))) => return Poll::Ready(Err(format!("read message #{}: {e}", msgs + pongs))),
                Poll::Ready(None) => {
                    io.read_ready(None);
                    if until_closed {
                        io.out.borrow_mut().end = "closed".into();
                        recv_done = true;
                    } else {
                        return Poll::Ready(Err(format!("stream ended after {} of {} messages", msgs + pongs, need_msgs + need_pongs)));
                    }
                }
                Poll::Pending => {
                    io.read_pending();
                    break;
                }
            }
        }
        io.stage(format!("duplex#send{next}{}/recv{}", if flushing { "-flush" } else { "" }, msgs + pongs));
        if !flushing && next == outgoing.len() && recv_done { Poll::Ready(Ok(())) } else { Poll::Pending }
    })
    .await?;
    match scn.closing {
        Closing::Early(_) => {}
        Closing::Late(s) => {
            if s == side {
                io.stage("close-send".into());
                send_msg(ws, io, Message::Close(None)).await.map_err(|e| format!("send close: {e}"))?;
            }
            io.stage("drain".into());
            read_until_closed(ws, io).await?;
        }
        Closing::None => {
            // do not touch the stream any more (see the sequential program)
            io.stage("park".into());
            io.done[side].raise();
            FlagFut(io.done[peer].clone()).await;
            io.out.borrow_mut().end = "done".into();
        }
    }
    Ok(())
}

// ---------------------------------------------------------------------------------------------
// relay
// ---------------------------------------------------------------------------------------------

#[derive(Clone, Copy, PartialEq, Eq, Debug)]
enum Stall {
    No,
    /// the relay does not read this direction during the current step
    Next,
    /// the relay does not read this direction until nothing else can move
    Quiet,
}

enum Probe {
    Data(usize),
    Eof,
    Nothing,
}

struct Relay {
    /// ends[0]: peer of the client's socket, ends[1]: peer of the server's socket
    ends: [UnixStream; 2],
    /// buf[d]: bytes read from ends[d] waiting to be written to ends[1-d] (d = 0: client->server)
    buf: [Vec<u8>; 2],
    eof_seen: [bool; 2],
    eof_sent: [bool; 2],
    forwarded: [u64; 2],
    stall: [Stall; 2],
    /// see `Io::inbound`
    inbound: Rc<[Cell<u64>; 2]>,
}

/// minimal kernel buffers (the kernel clamps the request to its minimum)
fn shrink_buffers(s: &UnixStream) -> (usize, usize) {
    let r = socket2::SockRef::from(s);
    let _ = r.set_send_buffer_size(1);
    let _ = r.set_recv_buffer_size(1);
    (r.send_buffer_size().unwrap_or(0), r.recv_buffer_size().unwrap_or(0))
}

/// How many bytes a compio end's socket accepts while the relay is not reading, and the buffer
/// sizes the kernel reports after shrinking (send, receive).
pub fn send_capacity() -> (usize, usize, usize) {
    let (a, _b) = UnixStream::pair().unwrap_or_else(|e| vcore::machinery_error(&format!("socketpair: {e}")));
    let (snd, rcv) = shrink_buffers(&a);
    a.set_nonblocking(true).unwrap();
    let block = vec![0u8; 4 * BIG_LEN];
    let mut total = 0;
    let mut w = &a;
    loop {
        match w.write(&block[total..]) {
            Ok(0) => break,
            Ok(n) => total += n,
            Err(e) if e.kind() == std::io::ErrorKind::Interrupted => continue,
            Err(_) => break,
        }
        if total == block.len() {
            break;
        }
    }
    (total, snd, rcv)
}

impl Relay {
    fn probe(&self, d: usize) -> Probe {
        let fd = self.ends[d].as_raw_fd();
        let mut n: libc::c_int = 0;
        // SAFETY: FIONREAD writes one int
        let r = unsafe { libc::ioctl(fd, libc::FIONREAD, &mut n) };
        if r == 0 && n > 0 {
            return Probe::Data(n as usize);
        }
        let mut b = [0u8; 1];
        // SAFETY: one-byte buffer, non-blocking peek
        let r = unsafe { libc::recv(fd, b.as_mut_ptr().cast(), 1, libc::MSG_PEEK | libc::MSG_DONTWAIT) };
        if r == 0 {
            Probe::Eof
        } else if r > 0 {
            Probe::Data(1)
        } else {
            match std::io::Error::last_os_error().kind() {
                std::io::ErrorKind::WouldBlock | std::io::ErrorKind::Interrupted => Probe::Nothing,
                _ => Probe::Eof, // reset by a peer that closed with unread data
            }
        }
    }

    /// read everything direction `d` offers; returns the number of bytes taken
    fn read_all(&mut self, d: usize) -> usize {
        let mut tmp = [0u8; 4096];
        let mut total = 0;
        loop {
            match self.ends[d].read(&mut tmp) {
                Ok(0) => {
                    self.eof_seen[d] = true;
                    break;
                }
                Ok(n) => {
                    self.buf[d].extend_from_slice(&tmp[..n]);
                    total += n;
                }
                Err(e) if e.kind() == std::io::ErrorKind::WouldBlock => break,
                Err(e) if e.kind() == std::io::ErrorKind::Interrupted => continue,
                Err(_) => {
                    // reset by a peer that closed with unread data
                    self.eof_seen[d] = true;
                    break;
                }
            }
        }
        total
    }

    /// something the relay has not stalled is waiting at one of its sockets
    fn input_waiting(&self) -> bool {
        (0..2).any(|d| !self.eof_seen[d] && self.stall[d] == Stall::No && !matches!(self.probe(d), Probe::Nothing))
    }

    fn quiet_stalled(&self) -> bool {
        self.stall.contains(&Stall::Quiet)
    }

    /// the harness releases every direction stalled until quiescence
    fn release_quiet(&mut self, trace: &mut Option<Vec<String>>) -> u32 {
        let mut n = 0;
        for d in 0..2 {
            if self.stall[d] == Stall::Quiet {
                self.stall[d] = Stall::No;
                n += 1;
                if let Some(t) = trace {
                    t.push(format!("relay {}: nothing else can move, the relay reads this direction again", DIR_NAME[d]));
                }
            }
        }
        n
    }

    /// one relay step; returns true if something moved (bytes taken in, bytes or EOF forwarded)
    fn step(&mut self, dec: &mut Decider, trace: &mut Option<Vec<String>>) -> bool {
        let mut moved = false;
        for d in 0..2 {
            if self.eof_seen[d] || self.stall[d] == Stall::Quiet {
                continue;
            }
            // a direction stalled for one step is read again now (and may be stalled again by the plan)
            self.stall[d] = Stall::No;
            if let Probe::Data(n) = self.probe(d) {
                match dec.decide(d, Call::Intake, n) {
                    Some(Dev::PendNext) => self.stall[d] = Stall::Next,
                    Some(Dev::PendQuiet) => self.stall[d] = Stall::Quiet,
                    _ => {}
                }
                if self.stall[d] != Stall::No {
                    if let Some(t) = trace {
                        t.push(format!(
                            "relay {}: {n} bytes readable -> not read ({})",
                            DIR_NAME[d],
                            if self.stall[d] == Stall::Next { "until the next step" } else { "until nothing else can move" }
                        ));
                    }
                    continue;
                }
            }
            let n = self.read_all(d);
            if n > 0 {
                moved = true;
                if let Some(t) = trace {
                    t.push(format!("relay {}: read {n} bytes from the {}'s socket", DIR_NAME[d], SIDE_NAME[d]));
                }
            }
        }
        for d in 0..2 {
            let n = self.buf[d].len();
            if n > 0 {
                let k = match dec.decide(d, Call::Relay, n) {
                    None => n,
                    Some(Dev::One) => 1,
                    Some(Dev::Half) => n / 2,
                    Some(_) => 0,
                };
                if let Some(t) = trace {
                    t.push(format!("relay {}: {n} bytes waiting -> forward {k}", DIR_NAME[d]));
                }
                let chunk: Vec<u8> = self.buf[d].drain(..k).collect();
                let mut off = 0;
                let mut spins = 0;
                while off < chunk.len() {
                    match self.ends[1 - d].write(&chunk[off..]) {
                        Ok(w) => off += w,
                        Err(e) if e.kind() == std::io::ErrorKind::WouldBlock || e.kind() == std::io::ErrorKind::Interrupted => {
                            // the relay's own sockets keep the default (large) send buffer: every
                            // scenario's total traffic fits, so this is a harness failure
                            spins += 1;
                            if spins > 1000 {
                                panic!("harness: relay socket buffer stays full");
                            }
                        }
                        Err(_) => break, // the receiving end is gone; the bytes are discarded like on a closed socket
                    }
                }
                self.forwarded[d] += k as u64;
                self.inbound[1 - d].set(self.inbound[1 - d].get() + k as u64);
                moved |= k > 0;
            }
            if self.buf[d].is_empty() && self.eof_seen[d] && !self.eof_sent[d] {
                let _ = self.ends[1 - d].shutdown(std::net::Shutdown::Write);
                self.eof_sent[d] = true;
                self.inbound[1 - d].set(self.inbound[1 - d].get() + 1);
                moved = true;
                if let Some(t) = trace {
                    t.push(format!("relay {}: end of stream forwarded", DIR_NAME[d]));
                }
            }
        }
        moved
    }

    /// the relay itself can do something at its next step
    fn pending(&self) -> bool {
        self.buf.iter().any(|b| !b.is_empty()) || self.stall.contains(&Stall::Next)
    }
}

pub const DIR_NAME: [&str; 2] = ["c2s", "s2c"];

// ---------------------------------------------------------------------------------------------
// one execution
// ---------------------------------------------------------------------------------------------

#[derive(Debug, Clone, PartialEq)]
pub enum WsEnd {
    Done,
    Deadlock,
    Spin(String),
    Panic(String),
}

pub struct WsOut {
    pub end: WsEnd,
    pub sides: [WsSide; 2],
    pub reached: Vec<(Point, u32)>,
    pub applied: Vec<bool>,
    pub polls: u64,
    pub forwarded: [u64; 2],
    pub late_wakes: u64,
    /// directions released at quiescence
    pub quiet_releases: u32,
    /// a side whose write was Pending when a stalled direction was released ran again afterwards
    pub blocked_writer_resumed: bool,
    pub trace: Vec<String>,
}

const WS_POLL_HORIZON: u64 = 2_000;
const WS_ROUND_HORIZON: u64 = 20_000;

fn build_runtime(uring: bool) -> Runtime {
    let mut pb = ProactorBuilder::new();
    pb.driver_type(if uring { DriverType::IoUring } else { DriverType::Poll });
    pb.capacity(32);
    RuntimeBuilder::new()
        .with_proactor(pb)
        .build()
        .unwrap_or_else(|e| vcore::machinery_error(&format!("cannot build a runtime (io_uring={uring}): {e}")))
}

fn harvest(rt: &Runtime) {
    rt.poll_with(Some(Duration::ZERO));
    rt.run();
}

thread_local! {
    /// one runtime per (thread, driver): every execution leaves it without outstanding operations
    /// (both streams are dropped, their readiness operations cancelled and reaped)
    static RUNTIMES: RefCell<[Option<Runtime>; 2]> = const { RefCell::new([None, None]) };
}

pub fn run_ws(scn: &Scn, plan: &Plan, tracing: bool) -> WsOut {
    let rt = RUNTIMES
        .with(|r| r.borrow_mut()[scn.uring as usize].take())
        .unwrap_or_else(|| build_runtime(scn.uring));
    let outs = [Rc::new(RefCell::new(WsSide::default())), Rc::new(RefCell::new(WsSide::default()))];
    let mut dec = Decider::new(plan.clone(), 100_000);
    let mut trace: Option<Vec<String>> = if tracing { Some(Vec::new()) } else { None };
    let mut polls = 0u64;
    let mut late_wakes = 0u64;
    let mut forwarded = [0u64; 2];
    let mut quiet_releases = 0u32;
    let mut blocked_writer_resumed = false;
    let end = rt.enter(|| {
        let pair = || UnixStream::pair().unwrap_or_else(|e| vcore::machinery_error(&format!("socketpair: {e}")));
        let (c_end, ra) = pair();
        let (s_end, rb) = pair();
        // the compio ends get minimal kernel buffers: what they can write while the relay is not
        // reading is a few KiB; the relay's own sockets keep the default send buffer (its forwarding
        // never blocks) and get a minimal receive buffer
        for s in [&c_end, &s_end] {
            shrink_buffers(s);
        }
        for s in [&ra, &rb] {
            s.set_nonblocking(true).unwrap();
            let _ = socket2::SockRef::from(s).set_recv_buffer_size(1);
        }
        let inbound: Rc<[Cell<u64>; 2]> = Rc::new([Cell::new(0), Cell::new(0)]);
        let mut relay = Relay {
            ends: [ra, rb],
            buf: [Vec::new(), Vec::new()],
            eof_seen: [false; 2],
            eof_sent: [false; 2],
            forwarded: [0; 2],
            stall: [Stall::No; 2],
            inbound: inbound.clone(),
        };
        let done = [Rc::new(Flag::default()), Rc::new(Flag::default())];
        let board = Arc::new(Board::default());
        let io = |s: usize| Io {
            side: s,
            out: outs[s].clone(),
            inbound: inbound.clone(),
            done: done.clone(),
        };
        let mut futs: [Option<Pin<Box<dyn Future<Output = ()>>>>; 2] = [
            Some(Box::pin(ws_side(CLIENT, c_end, scn.clone(), io(CLIENT)))),
            Some(Box::pin(ws_side(SERVER, s_end, scn.clone(), io(SERVER)))),
        ];
        // sides whose write was Pending when a stalled direction was released
        let mut owed_wake = [false; 2];
        let r = vcore::catch(|| {
            let mut rounds = 0u64;
            loop {
                rounds += 1;
                if rounds > WS_ROUND_HORIZON {
                    return WsEnd::Spin(format!("more than {WS_ROUND_HORIZON} scheduler rounds"));
                }
                let mut polled = false;
                for s in 0..2 {
                    if futs[s].is_none() || !board.runnable(s) {
                        continue;
                    }
                    let waker = board.next_waker(s);
                    polled = true;
                    polls += 1;
                    if owed_wake[s] {
                        owed_wake[s] = false;
                        blocked_writer_resumed = true;
                    }
                    outs[s].borrow_mut().write_pending_now = false;
                    if let Some(t) = &mut trace {
                        t.push(format!("-- poll {} (#{polls}, stage {})", SIDE_NAME[s], outs[s].borrow().stage));
                    }
                    let mut cx = Context::from_waker(&waker);
                    let ready = futs[s].as_mut().unwrap().as_mut().poll(&mut cx).is_ready();
                    if let Some(t) = &mut trace {
                        let o = outs[s].borrow();
                        if !ready {
                            t.push(format!("   {} pending at stage {}{}; got [{}]", SIDE_NAME[s], o.stage,
                                if o.write_pending_now { " (write blocked)" } else { "" }, show_list(&o.got)));
                        }
                    }
                    if ready {
                        futs[s] = None; // drops the WebSocket stream and closes the socket
                        let mut o = outs[s].borrow_mut();
                        if o.err.is_some() {
                            o.err_poll = polls;
                        }
                        if let Some(t) = &mut trace {
                            t.push(format!("   {} finished: got [{}] end={} err={:?}", SIDE_NAME[s], show_list(&o.got), o.end, o.err));
                        }
                    }
                }
                if futs.iter().all(|f| f.is_none()) {
                    return WsEnd::Done;
                }
                if polls > WS_POLL_HORIZON {
                    return WsEnd::Spin(format!("more than {WS_POLL_HORIZON} polls"));
                }
                harvest(&rt);
                let moved = relay.step(&mut dec, &mut trace);
                harvest(&rt);
                let runnable = |futs: &[Option<Pin<Box<dyn Future<Output = ()>>>>; 2]| (0..2).any(|s| futs[s].is_some() && board.runnable(s));
                if runnable(&futs) || relay.pending() || polled {
                    continue;
                }
                // Nothing can run. A completion the harness itself enabled (bytes it took or forwarded)
                // may need a few more harvest rounds; never an unbounded wait. While a direction is
                // stalled until quiescence the confirmation is short (its release follows anyway); the
                // verdict "deadlock" is only given with every stall released and after the full wait.
                let quiet = relay.quiet_stalled();
                let wait_rounds = if quiet { 4 } else if moved { 60 } else { 30 };
                let mut woke = false;
                for i in 0..wait_rounds {
                    if i > 2 {
                        std::thread::sleep(Duration::from_millis(1));
                    }
                    harvest(&rt);
                    if runnable(&futs) || relay.pending() || relay.input_waiting() || relay.eof_seen.iter().zip(&relay.eof_sent).any(|(a, b)| a != b) {
                        woke = true;
                        if i > 0 {
                            late_wakes += 1;
                        }
                        break;
                    }
                }
                if woke {
                    continue;
                }
                if quiet {
                    quiet_releases += relay.release_quiet(&mut trace);
                    for s in 0..2 {
                        owed_wake[s] = futs[s].is_some() && outs[s].borrow().write_pending_now;
                    }
                    continue;
                }
                return WsEnd::Deadlock;
            }
        });
        forwarded = relay.forwarded;
        let r2 = vcore::catch(move || drop(futs));
        harvest(&rt);
        match (r, r2) {
            (Ok(e), Ok(())) => e,
            (Err(p), _) | (_, Err(p)) => {
                if p.starts_with("SPIN:") {
                    WsEnd::Spin(p)
                } else {
                    WsEnd::Panic(p)
                }
            }
        }
    });
    for _ in 0..3 {
        harvest(&rt);
    }
    if matches!(end, WsEnd::Panic(_)) {
        drop(rt); // do not reuse a runtime a panic went through
    } else {
        RUNTIMES.with(|r| r.borrow_mut()[scn.uring as usize] = Some(rt));
    }
    WsOut {
        end,
        sides: [outs[0].borrow().clone(), outs[1].borrow().clone()],
        reached: std::mem::take(&mut dec.reached),
        applied: dec.applied.clone(),
        polls,
        forwarded,
        late_wakes,
        quiet_releases,
        blocked_writer_resumed,
        trace: trace.unwrap_or_default(),
    }
}

pub fn judge_ws(scn: &Scn, out: &WsOut) -> Result<String, (String, String)> {
    let stages = format!("client@{} server@{}", out.sides[0].stage, out.sides[1].stage);
    let got = |s: usize| show_list(&out.sides[s].got);
    let role = |s: usize| -> String {
        if scn.duplex {
            SIDE_NAME[s].into()
        } else if s == scn.sender {
            "sender".into()
        } else {
            "receiver".into()
        }
    };
    let st = |s: usize| out.sides[s].stage.split('#').next().unwrap_or("").to_string();
    match &out.end {
        WsEnd::Panic(p) => return Err(("panic".into(), format!("{p} ({stages})"))),
        WsEnd::Spin(p) => return Err(("spin".into(), format!("{p} ({stages})"))),
        _ => {}
    }
    let mut errs: Vec<(u64, usize)> = (0..2).filter(|s| out.sides[*s].err.is_some()).map(|s| (out.sides[s].err_poll, s)).collect();
    errs.sort();
    if let Some((_, s)) = errs.first() {
        let o = &out.sides[*s];
        let oracle = if !o.handshake_ok { "handshake-error".to_string() } else { format!("error@{}-{}", role(*s), st(*s)) };
        return Err((
            oracle,
            format!("{} ({}) failed: {} ({stages}; client got [{}], server got [{}])", SIDE_NAME[*s], role(*s), o.err.as_deref().unwrap_or(""), got(0), got(1)),
        ));
    }
    if out.end == WsEnd::Deadlock {
        let (a, b) = if scn.duplex { (CLIENT, SERVER) } else { (scn.sender, 1 - scn.sender) };
        return Err((
            format!("deadlock@{}-{}/{}-{}", role(a), st(a), role(b), st(b)),
            format!(
                "no side can run, the relay reads both directions and has nothing to forward, and no readiness event arrives: {stages}; client got [{}], server got [{}]",
                got(0),
                got(1)
            ),
        ));
    }
    if scn.duplex {
        return judge_duplex(scn, out);
    }
    let has_close = scn.msgs.last() == Some(&CLOSE);
    let recv = 1 - scn.sender;
    let expected_recv: Vec<Message> = scn.msgs.iter().enumerate().map(|(i, m)| make_msg(*m, i)).collect();
    if out.sides[recv].got != expected_recv {
        return Err((
            "messages-differ".into(),
            format!(
                "receiver ({}) got [{}], expected [{}]: {}",
                SIDE_NAME[recv],
                got(recv),
                show_list(&expected_recv),
                first_difference(&expected_recv, &out.sides[recv].got)
            ),
        ));
    }
    let mut expected_send: Vec<Message> = scn.msgs.iter().enumerate().filter(|(_, m)| **m == PING).map(|(i, _)| pong_for(i)).collect();
    if has_close {
        expected_send.push(Message::Close(None));
    }
    if out.sides[scn.sender].got != expected_send {
        return Err((
            "replies-differ".into(),
            format!("sender ({}) got [{}], expected [{}]", SIDE_NAME[scn.sender], got(scn.sender), show_list(&expected_send)),
        ));
    }
    for s in 0..2 {
        let want = if has_close { "closed" } else { "done" };
        if out.sides[s].end != want || !out.sides[s].finished {
            return Err((
                "unclean-close".into(),
                format!("{} ended with {:?}, expected {want:?}", SIDE_NAME[s], out.sides[s].end),
            ));
        }
    }
    Ok(format!("{}:ok:len{}:close={}", scn.class(), scn.msgs.len(), has_close))
}

/// Duplex oracle. Side X must have received, in order and exactly once, the peer's list (then the
/// peer's close frame if the peer closes), then the reply to its own close frame if X closes; the
/// pongs among what X received must be exactly one per ping of X's list, in order (where a pong
/// sits between the peer's messages is the peer's business).
fn judge_duplex(scn: &Scn, out: &WsOut) -> Result<String, (String, String)> {
    let closer = match scn.closing {
        Closing::None => None,
        Closing::Late(s) | Closing::Early(s) => Some(s),
    };
    for x in 0..2 {
        let y = 1 - x;
        let (pongs, msgs): (Vec<Message>, Vec<Message>) = out.sides[x].got.iter().cloned().partition(|m| matches!(m, Message::Pong(_)));
        let mut expected: Vec<Message> = scn.lists[y].iter().enumerate().map(|(i, m)| make_msg(*m, i + 4 * y)).collect();
        if closer == Some(y) {
            expected.push(Message::Close(None));
        }
        let n = expected.len().min(msgs.len());
        if msgs[..n] != expected[..] {
            return Err((
                "messages-differ".into(),
                format!(
                    "{} got [{}] (pongs left out: [{}]), expected [{}] from the {}: {}",
                    SIDE_NAME[x],
                    show_list(&out.sides[x].got),
                    show_list(&msgs),
                    show_list(&expected),
                    SIDE_NAME[y],
                    first_difference(&expected, &msgs[..n])
                ),
            ));
        }
        let reply: Vec<Message> = if closer == Some(x) { vec![Message::Close(None)] } else { Vec::new() };
        let owed = duplex_pongs_owed_to(scn, x);
        if msgs[n..] != reply[..] || pongs != owed {
            return Err((
                "replies-differ".into(),
                format!(
                    "{} got [{}]: after the {}'s messages expected [{}], got [{}]; expected pongs [{}], got [{}]",
                    SIDE_NAME[x],
                    show_list(&out.sides[x].got),
                    SIDE_NAME[y],
                    show_list(&reply),
                    show_list(&msgs[n..]),
                    show_list(&owed),
                    show_list(&pongs)
                ),
            ));
        }
    }
    for s in 0..2 {
        let want = if closer.is_some() { "closed" } else { "done" };
        if out.sides[s].end != want || !out.sides[s].finished {
            return Err((
                "unclean-close".into(),
                format!("{} ended with {:?}, expected {want:?}", SIDE_NAME[s], out.sides[s].end),
            ));
        }
    }
    Ok(format!("{}:ok:len{}+{}", scn.class(), scn.lists[0].len(), scn.lists[1].len()))
}

// ---------------------------------------------------------------------------------------------
// enumeration
// ---------------------------------------------------------------------------------------------

/// every list of at most `max` symbols of `alphabet` in which `close`, if present, is the last one
fn lists(alphabet: &[u8], max: usize) -> Vec<Vec<u8>> {
    let mut out = vec![vec![]];
    let mut frontier: Vec<Vec<u8>> = vec![vec![]];
    for _ in 0..max {
        let mut next = Vec::new();
        for l in &frontier {
            for s in alphabet {
                let mut n = l.clone();
                n.push(*s);
                out.push(n.clone());
                if *s != CLOSE {
                    next.push(n);
                }
            }
        }
        frontier = next;
    }
    out
}

struct WsCtx<'a> {
    rep: &'a Report,
    col: &'a Collector,
    unreached: AtomicU64,
    late: AtomicU64,
}

fn ws_exec(cx: &WsCtx, scn: &Scn, plan: &Plan) -> WsOut {
    let out = run_ws(scn, plan, false);
    let rep = cx.rep;
    rep.add_execution(out.reached.len() as u64 + out.polls);
    if !out.applied.iter().all(|a| *a) {
        cx.unreached.fetch_add(1, Ordering::Relaxed);
    }
    cx.late.fetch_add(out.late_wakes, Ordering::Relaxed);
    for ((p, d), a) in plan.iter().zip(&out.applied) {
        if *a {
            rep.count(&format!("ws.applied.{}.{}", CALL_NAME[p.call as usize], DEV_NAME[*d as usize]), 1);
        }
    }
    match judge_ws(scn, &out) {
        Ok(sig) => {
            rep.count(&format!("ws.ok.{}", scn.class()), 1);
            if scn.has(PING) {
                rep.count("ws.ping-ponged", 1);
            }
            if scn.has(CLOSE) || scn.closing != Closing::None {
                rep.count("ws.close-handshake-completed", 1);
            }
            if scn.has(BIG) {
                rep.count("ws.large-message-delivered", 1);
            }
            // the back-pressure dimension must not be vacuous
            let blocked = out.sides.iter().any(|s| s.write_blocked > 0);
            if blocked {
                rep.count("ws.write-blocked-by-backpressure", 1);
            }
            if out.quiet_releases > 0 {
                rep.count("ws.stall-released-at-quiescence", 1);
            }
            if out.blocked_writer_resumed {
                rep.count("ws.blocked-writer-woken-after-stall-release", 1);
            }
            let mut held: Vec<&str> = out.sides.iter().flat_map(|s| s.held_back.iter().copied()).collect();
            held.sort();
            held.dedup();
            if !held.is_empty() {
                rep.count("ws.flush-pending-while-message-available", 1);
                for k in &held {
                    rep.count(&format!("ws.held-back-by-pending-flush.{k}"), 1);
                }
            }
            rep.outcome(format!("ws:{sig}:{}:{}{}", plan_class(plan, &out.applied), if blocked { "write-blocked" } else { "no-backpressure" },
                if held.is_empty() { String::new() } else { format!(":held-{}", held.join("+")) }));
            if plan.len() == 1 && out.applied[0] && scn.total_len() == 3 {
                rep.sample(10, || json!({"part": "ws", "scenario": scn.name(), "plan": plan_text(plan), "polls": out.polls,
                                        "relay_points": out.reached.len(), "result": "ok"}));
            }
        }
        Err((oracle, detail)) => {
            let class = plan_class(plan, &out.applied);
            let key = format!("ws:{}:{}:{}:{}", scn.class(), oracle, scn.shape(), class);
            let rank = (plan.len() as u64) << 40 | (scn.total_len() as u64) << 32 | (scn.has(BIG) as u64) << 31 | plan.iter().map(|p| p.0.ord as u64).sum::<u64>().min(0xffff);
            if !cx.col.wants(&key, rank) {
                return out;
            }
            let traced = run_ws(scn, plan, true);
            let same = judge_ws(scn, &traced).err().map(|e| e.0) == Some(oracle.clone());
            let tail: Vec<String> = traced.trace.iter().rev().take(60).rev().cloned().collect();
            cx.col.add(
                rank,
                Violation {
                    key,
                    what: format!("compio-ws {}, relay deviations [{}]: {}{}", scn.name(), plan_text(plan), detail,
                                  if same { "" } else { " [NOT reproduced on re-execution]" }),
                    replay: json!({"engine": "e_c15", "part": "ws", "scenario": scn.to_json(), "plan": plan_json(plan),
                                   "reproduced": same, "trace_tail": tail}),
                },
            );
        }
    }
    out
}

fn plans_after(reached: &[(Point, u32)], after: Option<Point>) -> Vec<(Point, Dev)> {
    let start = match after {
        None => 0,
        Some(p) => reached.iter().position(|(q, _)| *q == p).map(|i| i + 1).unwrap_or(reached.len()),
    };
    let mut v = Vec::new();
    for (q, m) in &reached[start..] {
        for d in devs_for(q.call) {
            if d.applicable(*m as usize) {
                v.push((*q, *d));
            }
        }
    }
    v
}

pub fn must_reach(rep: &Report, tier: Tier) {
    for d in ["one", "half", "hold"] {
        rep.must_reach(&format!("ws.applied.relay.{d}"));
    }
    for d in ["pend-next", "pend-quiet"] {
        rep.must_reach(&format!("ws.applied.intake.{d}"));
    }
    for k in [
        "ws.ping-ponged",
        "ws.close-handshake-completed",
        "ws.large-message-delivered",
        "ws.write-blocked-by-backpressure",
        "ws.stall-released-at-quiescence",
        "ws.blocked-writer-woken-after-stall-release",
        "ws.flush-pending-while-message-available",
        "ws.held-back-by-pending-flush.data",
        "ws.held-back-by-pending-flush.ping",
        "ws.held-back-by-pending-flush.close",
    ] {
        rep.must_reach(k);
    }
    let mut classes: Vec<String> = scenarios(tier).iter().map(|s| s.class()).collect();
    classes.sort();
    classes.dedup();
    for c in classes {
        rep.must_reach(&format!("ws.ok.{c}"));
    }
}

const SEQ_ALPHABET: [u8; 6] = [0, 1, 2, PING, CLOSE, BIG];

fn duplex_alphabet(tier: Tier) -> Vec<u8> {
    tier.pick(vec![1, PING, BIG], vec![0, 1, 2, PING, BIG])
}

fn scenarios(tier: Tier) -> Vec<Scn> {
    let mut v = Vec::new();
    for l in lists(&SEQ_ALPHABET, 3) {
        for sender in [CLIENT, SERVER] {
            for uring in [false, true] {
                v.push(Scn::seq(sender, l.clone(), uring));
            }
        }
    }
    let alphabet = duplex_alphabet(tier);
    let ls = lists(&alphabet, 2);
    let mut singles: Vec<Vec<u8>> = vec![vec![]];
    singles.extend(alphabet.iter().filter(|m| **m != PING).map(|m| vec![*m]));
    for uring in [false, true] {
        let mut push = |a: &Vec<u8>, b: &Vec<u8>, closing: Closing| {
            v.push(Scn {
                duplex: true,
                sender: 0,
                msgs: Vec::new(),
                lists: [a.clone(), b.clone()],
                closing,
                uring,
            })
        };
        for a in &ls {
            for b in &ls {
                for closing in [Closing::None, Closing::Late(CLIENT), Closing::Late(SERVER)] {
                    push(a, b, closing);
                }
            }
        }
        // early close: the closer's list is free, the peer's is at most one data message
        for x in &ls {
            for y in &singles {
                push(x, y, Closing::Early(CLIENT));
                push(y, x, Closing::Early(SERVER));
            }
        }
    }
    v
}

/// scenarios that get the second deviation level (thorough): every sequential list without the
/// large message, sequential lists with it up to 2 messages, duplex scenarios with at most 3 messages
/// in total
fn level2(scn: &Scn) -> bool {
    if scn.duplex { scn.total_len() <= 3 } else { scn.total_len() <= 2 || !scn.has(BIG) }
}

pub fn run(rep: &Report, col: &Collector, tier: Tier) -> Value {
    let (capacity, sndbuf, rcvbuf) = send_capacity();
    if capacity == 0 || capacity * 3 > BIG_LEN {
        vcore::machinery_error(&format!(
            "a socket with minimal buffers accepts {capacity} bytes unread (SO_SNDBUF {sndbuf}): the {BIG_LEN}-byte message is not comfortably larger"
        ));
    }
    let scns = scenarios(tier);
    let bound = tier.pick(1, 2);
    let deadline = tier.pick(100.0, 570.0); // absolute, from the start of the run (the TLS part comes first)
    let cx = WsCtx {
        rep,
        col,
        unreached: AtomicU64::new(0),
        late: AtomicU64::new(0),
    };
    let base: Vec<Mutex<Vec<(Point, u32)>>> = scns.iter().map(|_| Mutex::new(Vec::new())).collect();
    vcore::par_for_each(&scns, |i, s| {
        let out = ws_exec(&cx, s, &Vec::new());
        *base[i].lock().unwrap() = out.reached;
    });
    let mut items: Vec<(usize, (Point, Dev))> = Vec::new();
    let mut points_max = 0;
    for (i, b) in base.iter().enumerate() {
        let r = b.lock().unwrap();
        points_max = points_max.max(r.len());
        for p in plans_after(&r, None) {
            items.push((i, p));
        }
    }
    items.sort_by_key(|(i, (p, d))| (p.ord, p.call, p.side, *d, *i));
    let l1 = items.len();
    let l2 = AtomicU64::new(0);
    let capped = AtomicBool::new(false);
    vcore::par_for_each(&items, |_, (i, first)| {
        if rep.elapsed() > deadline {
            capped.store(true, Ordering::Relaxed);
            return;
        }
        let scn = &scns[*i];
        let out = ws_exec(&cx, scn, &vec![*first]);
        if bound >= 2 && level2(scn) && out.applied[0] {
            for second in plans_after(&out.reached, Some(first.0)) {
                if rep.elapsed() > deadline {
                    capped.store(true, Ordering::Relaxed);
                    break;
                }
                ws_exec(&cx, scn, &vec![*first, second]);
                l2.fetch_add(1, Ordering::Relaxed);
            }
        }
    });
    if capped.load(Ordering::Relaxed) {
        rep.cap_hit(&format!("ws: stopped at the wall-clock cap of {deadline} s"));
    }
    rep.count("ws.plan-point-unreached", cx.unreached.load(Ordering::Relaxed));
    rep.count("ws.readiness-needed-extra-harvest-rounds", cx.late.load(Ordering::Relaxed));
    let n_seq = scns.iter().filter(|s| !s.duplex).count();
    let dn: Vec<&str> = duplex_alphabet(tier).iter().map(|m| SYM_NAME[*m as usize]).collect();
    json!({
        "scenarios": scns.len(),
        "sequential_scenarios": n_seq,
        "duplex_scenarios": scns.len() - n_seq,
        "message_lists": format!("sequential: all lists of <= 3 symbols from {{empty text, 1-byte binary, 200-byte binary, ping, close, {BIG_LEN}-byte position-coded binary}} with close only in last position (187 lists), sent by the client or by the server while the other role receives; \
            duplex: both roles send a list of <= 2 symbols from {{{}}} and receive the peer's list concurrently in one task ({} x {} list pairs), with no close / a close started by the client or by the server once it has sent and received everything; \
            plus an early close by either role right after its own list while the peer sends at most one data message; every scenario on the io_uring and on the polling driver", dn.join(", "), lists(&duplex_alphabet(tier), 2).len(), lists(&duplex_alphabet(tier), 2).len()),
        "socket_buffers": {"compio_end_SO_SNDBUF": sndbuf, "compio_end_SO_RCVBUF": rcvbuf,
                           "bytes_a_compio_end_can_write_while_the_relay_does_not_read": capacity, "large_message_bytes": BIG_LEN},
        "deviation_bound": bound,
        "two_deviation_level_for": "thorough only: every sequential list without the large message, sequential lists with it of at most 2 messages, duplex scenarios with at most 3 messages in total",
        "relay_deviations": {"forwarding": ["one byte", "half", "hold for one step"],
                             "intake (per direction, whenever the compio end's bytes are readable)": ["not read until the next step", "not read until nothing else can move"]},
        "relay_points_max_per_run": points_max,
        "one_deviation_runs": l1,
        "two_deviation_runs": l2.load(Ordering::Relaxed),
        "poll_horizon": WS_POLL_HORIZON,
    })
}

pub fn replay(r: &Value, plan: &Plan) -> ! {
    let scn = Scn::from_json(&r["scenario"]);
    let out = run_ws(&scn, plan, true);
    for l in &out.trace {
        println!("{l}");
    }
    println!(
        "scenario {}, plan [{}], applied {:?}; relay forwarded {} bytes client->server and {} bytes server->client; write blocked: client {} server {} polls; held back by a pending flush: client {:?} server {:?}",
        scn.name(),
        plan_text(plan),
        out.applied,
        out.forwarded[0],
        out.forwarded[1],
        out.sides[0].write_blocked,
        out.sides[1].write_blocked,
        out.sides[0].held_back,
        out.sides[1].held_back
    );
    match judge_ws(&scn, &out) {
        Ok(sig) => {
            println!("HELD: {sig}");
            std::process::exit(0)
        }
        Err((o, d)) => {
            println!("VIOLATED: {o}: {d}");
            std::process::exit(1)
        }
    }
}
