//! WebSocket half of C15: compio-ws client and server ends on `PollFd<UnixStream>`, connected through
//! two socketpairs and a harness relay that forwards bytes in explorer-chosen fragments
//! (everything / 1 byte / half / hold for one step). The runtime is stepped manually: nothing ever
//! waits for the OS; completions are harvested with zero-timeout polls.
use std::{
    cell::{Cell, RefCell},
    future::Future,
    io::{Read, Write},
    os::unix::net::UnixStream,
    pin::Pin,
    rc::Rc,
    sync::{
        Arc, Mutex,
        atomic::{AtomicBool, AtomicU64, Ordering},
    },
    task::{Context, Poll, Waker},
    time::Duration,
};

use compio_driver::{DriverType, ProactorBuilder};
use compio_runtime::{Runtime, RuntimeBuilder, fd::PollFd};
use compio_ws::{WebSocketStream, accept_async, client_async};
use tungstenite::{Error as WsError, Message};
use vcore::{Report, Tier, Value, Violation, json};

use crate::{Collector, sched::*};

pub const SYM_NAME: [&str; 5] = ["text0", "bin1", "bin200", "ping", "close"];
const CLOSE: u8 = 4;
const PING: u8 = 3;

#[derive(Clone, Debug, PartialEq, Eq, Hash, PartialOrd, Ord)]
pub struct Scn {
    /// which role sends the list (the other role receives)
    pub sender: usize,
    pub msgs: Vec<u8>,
    pub uring: bool,
}

impl Scn {
    pub fn name(&self) -> String {
        format!(
            "{}-sends[{}]:{}",
            SIDE_NAME[self.sender],
            self.msgs.iter().map(|m| SYM_NAME[*m as usize]).collect::<Vec<_>>().join(","),
            if self.uring { "io_uring" } else { "poll" }
        )
    }

    pub fn class(&self) -> String {
        format!("{}-sends:{}", SIDE_NAME[self.sender], if self.uring { "io_uring" } else { "poll" })
    }

    pub fn to_json(&self) -> Value {
        json!({"sender": self.sender, "msgs": self.msgs, "uring": self.uring})
    }

    pub fn from_json(v: &Value) -> Scn {
        Scn {
            sender: v["sender"].as_u64().unwrap_or(0) as usize,
            msgs: v["msgs"].as_array().map(|a| a.iter().map(|x| x.as_u64().unwrap_or(0) as u8).collect()).unwrap_or_default(),
            uring: v["uring"].as_bool().unwrap_or(false),
        }
    }
}

fn make_msg(sym: u8, idx: usize) -> Message {
    match sym {
        0 => Message::Text("".into()),
        1 => Message::Binary(vec![0x40 + idx as u8].into()),
        2 => Message::Binary((0..200).map(|i| (i as u8).wrapping_mul(7) ^ (idx as u8 * 0x55)).collect::<Vec<u8>>().into()),
        3 => Message::Ping(vec![b'p', b'0' + idx as u8].into()),
        _ => Message::Close(None),
    }
}

fn show_msg(m: &Message) -> String {
    match m {
        Message::Text(t) => format!("text({})", t.len()),
        Message::Binary(b) => format!("bin({}:{:02x?})", b.len(), &b[..b.len().min(2)]),
        Message::Ping(b) => format!("ping({:?})", String::from_utf8_lossy(b)),
        Message::Pong(b) => format!("pong({:?})", String::from_utf8_lossy(b)),
        Message::Close(c) => format!("close({})", if c.is_some() { "frame" } else { "none" }),
        Message::Frame(_) => "frame".into(),
    }
}

#[derive(Default, Debug, Clone)]
pub struct WsSide {
    pub stage: String,
    pub handshake_ok: bool,
    pub got: Vec<Message>,
    /// how the read loop ended: "closed" (ConnectionClosed), "done" (stopped reading), or an error
    pub end: String,
    pub finished: bool,
    pub err: Option<String>,
    pub err_poll: u64,
}

/// a flag the harness-side program sets; the other program can wait for it
#[derive(Default)]
struct Flag {
    set: Cell<bool>,
    waiter: RefCell<Option<Waker>>,
}

struct FlagFut(Rc<Flag>);

impl Future for FlagFut {
    type Output = ();

    fn poll(self: Pin<&mut Self>, cx: &mut Context<'_>) -> Poll<()> {
        if self.0.set.get() {
            Poll::Ready(())
        } else {
            *self.0.waiter.borrow_mut() = Some(cx.waker().clone());
            Poll::Pending
        }
    }
}

impl Flag {
    fn raise(&self) {
        self.set.set(true);
        if let Some(w) = self.waiter.borrow_mut().take() {
            w.wake();
        }
    }
}

type Ws = WebSocketStream<UnixStream>;

async fn ws_side(side: usize, sock: UnixStream, scn: Scn, out: Rc<RefCell<WsSide>>, sender_done: Rc<Flag>) {
    let r = ws_side_inner(side, sock, &scn, &out, &sender_done).await;
    if side == scn.sender {
        // whatever happened, never leave the receiver parked on the harness flag
        sender_done.raise();
    }
    let mut o = out.borrow_mut();
    match r {
        Ok(()) => {
            o.finished = true;
            o.stage = "done".into();
        }
        Err(e) => o.err = Some(e),
    }
}

async fn ws_side_inner(side: usize, sock: UnixStream, scn: &Scn, out: &Rc<RefCell<WsSide>>, sender_done: &Rc<Flag>) -> Result<(), String> {
    let stage = |s: String| out.borrow_mut().stage = s;
    stage("handshake".into());
    let pfd = PollFd::new(sock).map_err(|e| format!("PollFd::new: {e}"))?;
    let mut ws: Ws = if side == CLIENT {
        client_async("ws://localhost/c15", pfd).await.map_err(|e| format!("client handshake: {e}"))?.0
    } else {
        accept_async(pfd).await.map_err(|e| format!("server handshake: {e}"))?
    };
    out.borrow_mut().handshake_ok = true;
    let has_close = scn.msgs.last() == Some(&CLOSE);
    if side == scn.sender {
        for (i, m) in scn.msgs.iter().enumerate() {
            stage(format!("send#{i}"));
            ws.send(make_msg(*m, i)).await.map_err(|e| format!("send #{i} ({}): {e}", SYM_NAME[*m as usize]))?;
        }
        let pings = scn.msgs.iter().filter(|m| **m == PING).count();
        if has_close {
            stage("drain".into());
            read_until_closed(&mut ws, out).await?;
        } else {
            stage("wait-pong".into());
            while out.borrow().got.len() < pings {
                match ws.read().await {
                    Ok(m) => out.borrow_mut().got.push(m),
                    Err(e) => return Err(format!("read while waiting for pong: {e}")),
                }
            }
            out.borrow_mut().end = "done".into();
        }
    } else {
        stage("recv".into());
        while out.borrow().got.len() < scn.msgs.len() {
            match ws.read().await {
                Ok(m) => out.borrow_mut().got.push(m),
                Err(e) => return Err(format!("read message #{}: {e}", out.borrow().got.len())),
            }
        }
        if has_close {
            stage("drain".into());
            read_until_closed(&mut ws, out).await?;
        } else {
            // do not touch the stream any more: everything the protocol owes the peer (a pong) must
            // already have been sent when the message was yielded
            stage("park".into());
            FlagFut(sender_done.clone()).await;
            out.borrow_mut().end = "done".into();
        }
    }
    drop(ws);
    Ok(())
}

async fn read_until_closed(ws: &mut Ws, out: &Rc<RefCell<WsSide>>) -> Result<(), String> {
    loop {
        match ws.read().await {
            Ok(m) => out.borrow_mut().got.push(m),
            Err(WsError::ConnectionClosed) => {
                out.borrow_mut().end = "closed".into();
                return Ok(());
            }
            Err(e) => return Err(format!("read while completing the close handshake: {e}")),
        }
    }
}

// ---------------------------------------------------------------------------------------------
// relay
// ---------------------------------------------------------------------------------------------

struct Relay {
    /// ends[0]: peer of the client's socket, ends[1]: peer of the server's socket
    ends: [UnixStream; 2],
    /// buf[d]: bytes read from ends[d] waiting to be written to ends[1-d] (d = 0: client->server)
    buf: [Vec<u8>; 2],
    eof_seen: [bool; 2],
    eof_sent: [bool; 2],
    forwarded: [u64; 2],
}

impl Relay {
    fn pump_in(&mut self) {
        for d in 0..2 {
            if self.eof_seen[d] {
                continue;
            }
            let mut tmp = [0u8; 4096];
            loop {
                match self.ends[d].read(&mut tmp) {
                    Ok(0) => {
                        self.eof_seen[d] = true;
                        break;
                    }
                    Ok(n) => self.buf[d].extend_from_slice(&tmp[..n]),
                    Err(e) if e.kind() == std::io::ErrorKind::WouldBlock => break,
                    Err(e) if e.kind() == std::io::ErrorKind::Interrupted => continue,
                    Err(_) => {
                        // reset by a peer that closed with unread data
                        self.eof_seen[d] = true;
                        break;
                    }
                }
            }
        }
    }

    /// one relay step; returns true if something was forwarded (bytes or EOF)
    fn step(&mut self, dec: &mut Decider, trace: &mut Option<Vec<String>>) -> bool {
        self.pump_in();
        let mut moved = false;
        for d in 0..2 {
            let n = self.buf[d].len();
            if n > 0 {
                let k = match dec.decide(d, Call::Relay, n) {
                    None => n,
                    Some(Dev::One) => 1,
                    Some(Dev::Half) => n / 2,
                    Some(_) => 0,
                };
                if let Some(t) = trace {
                    t.push(format!("relay {}: {n} bytes waiting -> forward {k}", DIR_NAME[d]));
                }
                let chunk: Vec<u8> = self.buf[d].drain(..k).collect();
                let mut off = 0;
                let mut spins = 0;
                while off < chunk.len() {
                    match self.ends[1 - d].write(&chunk[off..]) {
                        Ok(w) => off += w,
                        Err(e) if e.kind() == std::io::ErrorKind::WouldBlock || e.kind() == std::io::ErrorKind::Interrupted => {
                            spins += 1;
                            if spins > 1000 {
                                panic!("harness: relay socket buffer stays full");
                            }
                        }
                        Err(_) => break, // the receiving end is gone; the bytes are discarded like on a closed socket
                    }
                }
                self.forwarded[d] += k as u64;
                moved |= k > 0;
            }
            if self.buf[d].is_empty() && self.eof_seen[d] && !self.eof_sent[d] {
                let _ = self.ends[1 - d].shutdown(std::net::Shutdown::Write);
                self.eof_sent[d] = true;
                moved = true;
                if let Some(t) = trace {
                    t.push(format!("relay {}: end of stream forwarded", DIR_NAME[d]));
                }
            }
        }
        moved
    }

    fn pending(&self) -> bool {
        self.buf.iter().any(|b| !b.is_empty())
    }
}

pub const DIR_NAME: [&str; 2] = ["c2s", "s2c"];

// ---------------------------------------------------------------------------------------------
// one execution
// ---------------------------------------------------------------------------------------------

#[derive(Debug, Clone, PartialEq)]
pub enum WsEnd {
    Done,
    Deadlock,
    Spin(String),
    Panic(String),
}

pub struct WsOut {
    pub end: WsEnd,
    pub sides: [WsSide; 2],
    pub reached: Vec<(Point, u32)>,
    pub applied: Vec<bool>,
    pub polls: u64,
    pub forwarded: [u64; 2],
    pub late_wakes: u64,
    pub trace: Vec<String>,
}

const WS_POLL_HORIZON: u64 = 2_000;

fn build_runtime(uring: bool) -> Runtime {
    let mut pb = ProactorBuilder::new();
    pb.driver_type(if uring { DriverType::IoUring } else { DriverType::Poll });
    pb.capacity(32);
    RuntimeBuilder::new()
        .with_proactor(pb)
        .build()
        .unwrap_or_else(|e| vcore::machinery_error(&format!("cannot build a runtime (io_uring={uring}): {e}")))
}

fn harvest(rt: &Runtime) {
    rt.poll_with(Some(Duration::ZERO));
    rt.run();
}

thread_local! {
    /// one runtime per (thread, driver): every execution leaves it without outstanding operations
    /// (both streams are dropped, their readiness operations cancelled and reaped)
    static RUNTIMES: RefCell<[Option<Runtime>; 2]> = const { RefCell::new([None, None]) };
}

pub fn run_ws(scn: &Scn, plan: &Plan, tracing: bool) -> WsOut {
    let rt = RUNTIMES
        .with(|r| r.borrow_mut()[scn.uring as usize].take())
        .unwrap_or_else(|| build_runtime(scn.uring));
    let outs = [Rc::new(RefCell::new(WsSide::default())), Rc::new(RefCell::new(WsSide::default()))];
    let mut dec = Decider::new(plan.clone(), 100_000);
    let mut trace: Option<Vec<String>> = if tracing { Some(Vec::new()) } else { None };
    let mut polls = 0u64;
    let mut late_wakes = 0u64;
    let mut forwarded = [0u64; 2];
    let end = rt.enter(|| {
        let pair = || UnixStream::pair().unwrap_or_else(|e| vcore::machinery_error(&format!("socketpair: {e}")));
        let (c_end, ra) = pair();
        let (s_end, rb) = pair();
        for s in [&ra, &rb] {
            s.set_nonblocking(true).unwrap();
        }
        let mut relay = Relay {
            ends: [ra, rb],
            buf: [Vec::new(), Vec::new()],
            eof_seen: [false; 2],
            eof_sent: [false; 2],
            forwarded: [0; 2],
        };
        let flag = Rc::new(Flag::default());
        let board = Arc::new(Board::default());
        let mut futs: [Option<Pin<Box<dyn Future<Output = ()>>>>; 2] = [
            Some(Box::pin(ws_side(CLIENT, c_end, scn.clone(), outs[0].clone(), flag.clone()))),
            Some(Box::pin(ws_side(SERVER, s_end, scn.clone(), outs[1].clone(), flag.clone()))),
        ];
        let r = vcore::catch(|| {
            loop {
                let mut polled = false;
                for s in 0..2 {
                    if futs[s].is_none() || !board.runnable(s) {
                        continue;
                    }
                    let waker = board.next_waker(s);
                    polled = true;
                    polls += 1;
                    if let Some(t) = &mut trace {
                        t.push(format!("-- poll {} (#{polls}, stage {})", SIDE_NAME[s], outs[s].borrow().stage));
                    }
                    let mut cx = Context::from_waker(&waker);
                    if let Poll::Ready(()) = futs[s].as_mut().unwrap().as_mut().poll(&mut cx) {
                        futs[s] = None; // drops the WebSocket stream and closes the socket
                        let mut o = outs[s].borrow_mut();
                        if o.err.is_some() {
                            o.err_poll = polls;
                        }
                        if let Some(t) = &mut trace {
                            t.push(format!("   {} finished: got [{}] end={} err={:?}", SIDE_NAME[s],
                                o.got.iter().map(show_msg).collect::<Vec<_>>().join(" "), o.end, o.err));
                        }
                    }
                }
                if futs.iter().all(|f| f.is_none()) {
                    return WsEnd::Done;
                }
                if polls > WS_POLL_HORIZON {
                    return WsEnd::Spin(format!("more than {WS_POLL_HORIZON} polls"));
                }
                harvest(&rt);
                let moved = relay.step(&mut dec, &mut trace);
                harvest(&rt);
                let runnable = |futs: &[Option<Pin<Box<dyn Future<Output = ()>>>>; 2]| (0..2).any(|s| futs[s].is_some() && board.runnable(s));
                if runnable(&futs) || relay.pending() || polled {
                    continue;
                }
                // Nothing can run. A completion the harness itself enabled (bytes it forwarded) may need a
                // few more harvest rounds; never an unbounded wait.
                let rounds = if moved { 60 } else { 30 };
                let mut woke = false;
                for i in 0..rounds {
                    if i > 2 {
                        std::thread::sleep(Duration::from_millis(1));
                    }
                    harvest(&rt);
                    relay.pump_in();
                    if runnable(&futs) || relay.pending() || relay.eof_seen.iter().zip(&relay.eof_sent).any(|(a, b)| a != b) {
                        woke = true;
                        if i > 0 {
                            late_wakes += 1;
                        }
                        break;
                    }
                }
                if !woke {
                    return WsEnd::Deadlock;
                }
            }
        });
        forwarded = relay.forwarded;
        let r2 = vcore::catch(move || drop(futs));
        harvest(&rt);
        match (r, r2) {
            (Ok(e), Ok(())) => e,
            (Err(p), _) | (_, Err(p)) => {
                if p.starts_with("SPIN:") {
                    WsEnd::Spin(p)
                } else {
                    WsEnd::Panic(p)
                }
            }
        }
    });
    for _ in 0..3 {
        harvest(&rt);
    }
    if matches!(end, WsEnd::Panic(_)) {
        drop(rt); // do not reuse a runtime a panic went through
    } else {
        RUNTIMES.with(|r| r.borrow_mut()[scn.uring as usize] = Some(rt));
    }
    WsOut {
        end,
        sides: [outs[0].borrow().clone(), outs[1].borrow().clone()],
        reached: std::mem::take(&mut dec.reached),
        applied: dec.applied.clone(),
        polls,
        forwarded,
        late_wakes,
        trace: trace.unwrap_or_default(),
    }
}

pub fn judge_ws(scn: &Scn, out: &WsOut) -> Result<String, (String, String)> {
    let stages = format!("client@{} server@{}", out.sides[0].stage, out.sides[1].stage);
    let got = |s: usize| out.sides[s].got.iter().map(show_msg).collect::<Vec<_>>().join(" ");
    match &out.end {
        WsEnd::Panic(p) => return Err(("panic".into(), format!("{p} ({stages})"))),
        WsEnd::Spin(p) => return Err(("spin".into(), format!("{p} ({stages})"))),
        _ => {}
    }
    let mut errs: Vec<(u64, usize)> = (0..2).filter(|s| out.sides[*s].err.is_some()).map(|s| (out.sides[s].err_poll, s)).collect();
    errs.sort();
    if let Some((_, s)) = errs.first() {
        let o = &out.sides[*s];
        let role = if *s == scn.sender { "sender" } else { "receiver" };
        let oracle = if !o.handshake_ok { "handshake-error".to_string() } else { format!("error@{role}-{}", o.stage.split('#').next().unwrap_or("")) };
        return Err((
            oracle,
            format!("{} ({role}) failed: {} ({stages}; client got [{}], server got [{}])", SIDE_NAME[*s], o.err.as_deref().unwrap_or(""), got(0), got(1)),
        ));
    }
    if out.end == WsEnd::Deadlock {
        let st = |s: usize| out.sides[s].stage.split('#').next().unwrap_or("").to_string();
        return Err((
            format!("deadlock@sender-{}/receiver-{}", st(scn.sender), st(1 - scn.sender)),
            format!(
                "no side can run, the relay has nothing to forward and no readiness event arrives: {stages}; client got [{}], server got [{}]",
                got(0),
                got(1)
            ),
        ));
    }
    let has_close = scn.msgs.last() == Some(&CLOSE);
    let recv = 1 - scn.sender;
    let expected_recv: Vec<Message> = scn.msgs.iter().enumerate().map(|(i, m)| make_msg(*m, i)).collect();
    if out.sides[recv].got != expected_recv {
        return Err((
            "messages-differ".into(),
            format!(
                "receiver ({}) got [{}], expected [{}]",
                SIDE_NAME[recv],
                got(recv),
                expected_recv.iter().map(show_msg).collect::<Vec<_>>().join(" ")
            ),
        ));
    }
    let mut expected_send: Vec<Message> = scn
        .msgs
        .iter()
        .enumerate()
        .filter(|(_, m)| **m == PING)
        .map(|(i, _)| Message::Pong(vec![b'p', b'0' + i as u8].into()))
        .collect();
    if has_close {
        expected_send.push(Message::Close(None));
    }
    if out.sides[scn.sender].got != expected_send {
        return Err((
            "replies-differ".into(),
            format!(
                "sender ({}) got [{}], expected [{}]",
                SIDE_NAME[scn.sender],
                got(scn.sender),
                expected_send.iter().map(show_msg).collect::<Vec<_>>().join(" ")
            ),
        ));
    }
    for s in 0..2 {
        let want = if has_close { "closed" } else { "done" };
        if out.sides[s].end != want || !out.sides[s].finished {
            return Err((
                "unclean-close".into(),
                format!("{} ended with {:?}, expected {want:?}", SIDE_NAME[s], out.sides[s].end),
            ));
        }
    }
    Ok(format!("{}:ok:len{}:close={}", scn.class(), scn.msgs.len(), has_close))
}

// ---------------------------------------------------------------------------------------------
// enumeration
// ---------------------------------------------------------------------------------------------

fn lists(max: usize) -> Vec<Vec<u8>> {
    // every list of at most `max` symbols in which `close`, if present, is the last one
    let mut out = vec![vec![]];
    let mut frontier: Vec<Vec<u8>> = vec![vec![]];
    for _ in 0..max {
        let mut next = Vec::new();
        for l in &frontier {
            for s in 0..5u8 {
                let mut n = l.clone();
                n.push(s);
                out.push(n.clone());
                if s != CLOSE {
                    next.push(n);
                }
            }
        }
        frontier = next;
    }
    out
}

struct WsCtx<'a> {
    rep: &'a Report,
    col: &'a Collector,
    unreached: AtomicU64,
    late: AtomicU64,
}

fn ws_exec(cx: &WsCtx, scn: &Scn, plan: &Plan) -> WsOut {
    let out = run_ws(scn, plan, false);
    let rep = cx.rep;
    rep.add_execution(out.reached.len() as u64 + out.polls);
    if !out.applied.iter().all(|a| *a) {
        cx.unreached.fetch_add(1, Ordering::Relaxed);
    }
    cx.late.fetch_add(out.late_wakes, Ordering::Relaxed);
    for ((_, d), a) in plan.iter().zip(&out.applied) {
        if *a {
            rep.count(&format!("ws.applied.relay.{}", DEV_NAME[*d as usize]), 1);
        }
    }
    match judge_ws(scn, &out) {
        Ok(sig) => {
            rep.count(&format!("ws.ok.{}", scn.class()), 1);
            if scn.msgs.contains(&PING) {
                rep.count("ws.ping-ponged", 1);
            }
            if scn.msgs.last() == Some(&CLOSE) {
                rep.count("ws.close-handshake-completed", 1);
            }
            rep.outcome(format!("ws:{sig}:{}", plan_class(plan, &out.applied)));
            if plan.len() == 1 && out.applied[0] && scn.msgs.len() == 3 {
                rep.sample(10, || json!({"part": "ws", "scenario": scn.name(), "plan": plan_text(plan), "polls": out.polls,
                                        "relay_points": out.reached.len(), "result": "ok"}));
            }
        }
        Err((oracle, detail)) => {
            let class = plan_class(plan, &out.applied);
            let shape: String = {
                // cause class of the input: which kinds of message are in the list
                let mut k: Vec<&str> = Vec::new();
                if scn.msgs.iter().any(|m| *m < PING) {
                    k.push("data");
                }
                if scn.msgs.contains(&PING) {
                    k.push("ping");
                }
                if scn.msgs.contains(&CLOSE) {
                    k.push("close");
                }
                k.join("+")
            };
            let key = format!("ws:{}:{}:{}:{}", scn.class(), oracle, if shape.is_empty() { "empty".into() } else { shape }, class);
            let rank = (plan.len() as u64) << 40 | (scn.msgs.len() as u64) << 32 | plan.iter().map(|p| p.0.ord as u64).sum::<u64>().min(0xffff);
            let traced = run_ws(scn, plan, true);
            let same = judge_ws(scn, &traced).err().map(|e| e.0) == Some(oracle.clone());
            let tail: Vec<String> = traced.trace.iter().rev().take(40).rev().cloned().collect();
            cx.col.add(
                rank,
                Violation {
                    key,
                    what: format!("compio-ws {}, relay deviations [{}]: {}{}", scn.name(), plan_text(plan), detail,
                                  if same { "" } else { " [NOT reproduced on re-execution]" }),
                    replay: json!({"engine": "e_c15", "part": "ws", "scenario": scn.to_json(), "plan": plan_json(plan),
                                   "reproduced": same, "trace_tail": tail}),
                },
            );
        }
    }
    out
}

fn plans_after(reached: &[(Point, u32)], after: Option<Point>) -> Vec<(Point, Dev)> {
    let start = match after {
        None => 0,
        Some(p) => reached.iter().position(|(q, _)| *q == p).map(|i| i + 1).unwrap_or(reached.len()),
    };
    let mut v = Vec::new();
    for (q, m) in &reached[start..] {
        for d in devs_for(q.call) {
            if d.applicable(*m as usize) {
                v.push((*q, *d));
            }
        }
    }
    v
}

pub fn must_reach(rep: &Report, tier: Tier) {
    for d in ["one", "half", "hold"] {
        rep.must_reach(&format!("ws.applied.relay.{d}"));
    }
    rep.must_reach("ws.ping-ponged");
    rep.must_reach("ws.close-handshake-completed");
    for s in scenarios(tier) {
        rep.must_reach(&format!("ws.ok.{}", s.class()));
    }
}

fn scenarios(_tier: Tier) -> Vec<Scn> {
    let mut v = Vec::new();
    for l in lists(3) {
        for sender in [CLIENT, SERVER] {
            for uring in [false, true] {
                v.push(Scn {
                    sender,
                    msgs: l.clone(),
                    uring,
                });
            }
        }
    }
    v
}

pub fn run(rep: &Report, col: &Collector, tier: Tier) -> Value {
    let scns = scenarios(tier);
    let bound = tier.pick(1, 2);
    let deadline = tier.pick(43.0, 570.0);
    let cx = WsCtx {
        rep,
        col,
        unreached: AtomicU64::new(0),
        late: AtomicU64::new(0),
    };
    let base: Vec<Mutex<Vec<(Point, u32)>>> = scns.iter().map(|_| Mutex::new(Vec::new())).collect();
    vcore::par_for_each(&scns, |i, s| {
        let out = ws_exec(&cx, s, &Vec::new());
        *base[i].lock().unwrap() = out.reached;
    });
    let mut items: Vec<(usize, (Point, Dev))> = Vec::new();
    let mut points_max = 0;
    for (i, b) in base.iter().enumerate() {
        let r = b.lock().unwrap();
        points_max = points_max.max(r.len());
        for p in plans_after(&r, None) {
            items.push((i, p));
        }
    }
    items.sort_by_key(|(i, (p, d))| (p.ord, p.side, *d, *i));
    let l1 = items.len();
    let l2 = AtomicU64::new(0);
    let capped = AtomicBool::new(false);
    vcore::par_for_each(&items, |_, (i, first)| {
        if rep.elapsed() > deadline {
            capped.store(true, Ordering::Relaxed);
            return;
        }
        let scn = &scns[*i];
        let out = ws_exec(&cx, scn, &vec![*first]);
        if bound >= 2 && out.applied[0] {
            for second in plans_after(&out.reached, Some(first.0)) {
                if rep.elapsed() > deadline {
                    capped.store(true, Ordering::Relaxed);
                    break;
                }
                ws_exec(&cx, scn, &vec![*first, second]);
                l2.fetch_add(1, Ordering::Relaxed);
            }
        }
    });
    if capped.load(Ordering::Relaxed) {
        rep.cap_hit(&format!("ws: stopped at the wall-clock cap of {deadline} s"));
    }
    rep.count("ws.plan-point-unreached", cx.unreached.load(Ordering::Relaxed));
    rep.count("ws.readiness-needed-extra-harvest-rounds", cx.late.load(Ordering::Relaxed));
    json!({
        "scenarios": scns.len(),
        "message_lists": "all lists of <= 3 symbols from {empty text, 1-byte binary, 200-byte binary, ping, close} with close only in last position (106 lists), sent by the client or by the server, on the io_uring and on the polling driver",
        "deviation_bound": bound,
        "relay_deviations": ["one byte", "half", "hold for one step"],
        "relay_points_max_per_run": points_max,
        "one_deviation_runs": l1,
        "two_deviation_runs": l2.load(Ordering::Relaxed),
        "poll_horizon": WS_POLL_HORIZON,
    })
}

pub fn replay(r: &Value, plan: &Plan) -> ! {
    let scn = Scn::from_json(&r["scenario"]);
    let out = run_ws(&scn, plan, true);
    for l in &out.trace {
        println!("{l}");
    }
    println!(
        "scenario {}, plan [{}], applied {:?}; relay forwarded {} bytes client->server and {} bytes server->client",
        scn.name(),
        plan_text(plan),
        out.applied,
        out.forwarded[0],
        out.forwarded[1]
    );
    match judge_ws(&scn, &out) {
        Ok(sig) => {
            println!("HELD: {sig}");
            std::process::exit(0)
        }
        Err((o, d)) => {
            println!("VIOLATED: {o}: {d}");
            std::process::exit(1)
        }
    }
}
