use vcore::{Report, Tier, Value, json};
use crate::{Collector, sched::Plan};
pub fn run(_rep: &Report, _col: &Collector, _tier: Tier) -> Value { json!({}) }
pub fn replay(_r: &Value, _plan: &Plan) -> ! { std::process::exit(2) }
