// (included into c19.rs) -- families and sequence enumeration

#[derive(Clone, Debug, Default)]
pub struct Alphabet {
    pub spawn: bool,
    pub send: bool,
    pub send_fail: bool,
    pub call: bool,
    pub call_fail: bool,
    pub stop: bool,
    pub gjoin: bool,
    pub gleave: bool,
    pub gsend: bool,
    pub gcall: bool,
    /// only the most recently spawned actor is addressed (supervisor family)
    pub latest_only: bool,
}

pub struct Family {
    pub name: &'static str,
    pub depth: usize,
    pub max_msgs: usize,
    pub max_spawns: usize,
    pub alpha: Alphabet,
    pub cfgs: Vec<Cfg>,
}

fn enabled(f: &Family, cfg: &Cfg, m: &Model, spawns: usize) -> Vec<Step> {
    let mut v = Vec::new();
    if f.alpha.spawn && spawns < f.max_spawns {
        for i in 0..cfg.specs.len() {
            if m.can_spawn(&cfg.specs[i], cfg.workers) {
                v.push(Step::Spawn(i));
            }
        }
    }
    let nm = m.msgs.len();
    let latest = (0..m.actors.len()).rev().find(|&a| m.actors[a].has_mailbox());
    for a in 0..m.actors.len() {
        let act = &m.actors[a];
        if act.parked() {
            v.push(Step::Open(a));
        }
        if !act.has_mailbox() || (f.alpha.latest_only && Some(a) != latest) {
            continue;
        }
        if nm < f.max_msgs {
            if f.alpha.send {
                v.push(Step::Send { a, fail: false });
            }
            if f.alpha.send_fail {
                v.push(Step::Send { a, fail: true });
            }
            if f.alpha.call {
                v.push(Step::Call { a, fail: false });
            }
            if f.alpha.call_fail {
                v.push(Step::Call { a, fail: true });
            }
        }
        if f.alpha.stop && act.live() {
            v.push(Step::Stop(a));
        }
        if f.alpha.gjoin && !m.member_token[a] {
            v.push(Step::GJoin(a));
        }
        if f.alpha.gleave && m.member_token[a] {
            v.push(Step::GLeave(a));
        }
    }
    if nm < f.max_msgs {
        if f.alpha.gsend {
            v.push(Step::GSend);
        }
        if f.alpha.gcall {
            v.push(Step::GCall);
        }
    }
    v
}

fn initial_model(cfg: &Cfg) -> Model {
    let mut m = Model::new(cfg.nnames, cfg.respawns);
    for s in &cfg.prologue {
        m.spawn(s.clone(), false);
    }
    if cfg.prejoin {
        for a in 0..cfg.prologue.len() {
            m.gjoin(a);
        }
    }
    m
}

/// All step sequences up to the family depth ("stop here" is an alternative at every position);
/// enabledness is decided by the reference model only.
pub fn sequences(f: &Family, cfg: &Cfg) -> Vec<(Vec<u32>, Vec<Step>)> {
    let mut out = Vec::new();
    vcore::explore(0, u64::MAX, |ch| {
        let mut m = initial_model(cfg);
        let mut hist: Vec<Step> = Vec::new();
        let mut spawns = 0;
        for _ in 0..f.depth {
            let en = enabled(f, cfg, &m, spawns);
            let c = ch.pick(en.len() + 1);
            if c == 0 {
                break;
            }
            let s = en[c - 1].clone();
            if matches!(s, Step::Spawn(_)) {
                spawns += 1;
            }
            m.apply(&cfg.specs, &s);
            hist.push(s);
        }
        out.push((ch.choices(), hist));
        true
    });
    out
}

fn spec(name: Option<usize>, cap: usize, holds: [bool; 4]) -> SpawnSpec {
    SpawnSpec { name, cap, pre_fail: false, post_fail: false, holds, supervised: false, pre_stop_fail: false, post_stop_fail: false, hold_drop: false }
}

const NOHOLD: [bool; 4] = [false; 4];

pub fn families(tier: vcore::Tier) -> Vec<Family> {
    let mut v = families0(tier);
    if let Ok(t) = std::env::var("E_C19_TUNE") {
        for part in t.split(',') {
            let mut kv = part.split('=');
            let (Some(k), Some(val)) = (kv.next(), kv.next()) else { continue };
            let mut dm = val.split(':');
            for f in v.iter_mut().filter(|f| f.name == k) {
                if let Some(d) = dm.next().and_then(|x| x.parse().ok()) {
                    f.depth = d;
                }
                if let Some(m) = dm.next().and_then(|x| x.parse().ok()) {
                    f.max_msgs = m;
                }
            }
        }
    }
    v
}

fn families0(tier: vcore::Tier) -> Vec<Family> {
    let quick = tier == vcore::Tier::Quick;
    let mut v = Vec::new();
    let base = |family: &str, workers: usize, poll: bool| Cfg {
        family: family.into(),
        workers,
        poll_driver: poll,
        prologue: Vec::new(),
        prejoin: false,
        supervisor: false,
        nnames: 0,
        respawns: 0,
        specs: Vec::new(),
    };
    let combos: Vec<(usize, bool)> = if quick { vec![(1, false), (2, true)] } else { vec![(1, false), (1, true), (2, false), (2, true)] };

    // A. one running actor: bounded FIFO, stop, failure, calls
    {
        let mut cfgs = Vec::new();
        for (i, cap) in [1usize, 2].into_iter().enumerate() {
            for (j, &(w, poll)) in combos.iter().enumerate() {
                // quick: (cap1, w1, iour), (cap2, w2, poll); thorough: each capacity with two of the four worker/driver combinations
                if (quick && i != j) || (!quick && (i + j) % 2 != 0) {
                    continue;
                }
                let mut c = base("mailbox", w, poll);
                c.prologue = vec![spec(None, cap, NOHOLD)];
                cfgs.push(c);
            }
        }
        v.push(Family {
            name: "mailbox",
            depth: if quick { 5 } else { 6 },
            max_msgs: if quick { 3 } else { 4 },
            max_spawns: 0,
            alpha: Alphabet { send: true, send_fail: true, call: true, call_fail: !quick, stop: true, ..Default::default() },
            cfgs,
        });
    }
    // A2. messages and stop arriving before post_start has completed; held stop hooks
    {
        let mut cfgs = Vec::new();
        for (j, &(w, poll)) in combos.iter().enumerate() {
            let mut c = base("heldstart", w, poll);
            // + failing stop hooks (pre_stop, post_stop, both)
            let b = spec(None, 2, [false, true, true, true]);
            let mut f2 = b.clone();
            f2.pre_stop_fail = true;
            let mut f3 = b.clone();
            f3.post_stop_fail = true;
            let mut f23 = f2.clone();
            f23.post_stop_fail = true;
            // (thorough: all four on the first worker/driver combination, one failing variant on each other)
            c.specs = match j {
                0 => vec![b, f2, f3, f23],
                1 => vec![b, f2],
                2 => vec![b, f3],
                _ => vec![b, f23],
            };
            cfgs.push(c);
        }
        if quick {
            cfgs.truncate(1);
        }
        v.push(Family {
            name: "heldstart",
            depth: if quick { 5 } else { 7 },
            max_msgs: 3,
            max_spawns: 1,
            alpha: Alphabet { spawn: true, send: true, call: true, stop: true, ..Default::default() },
            cfgs,
        });
    }
    // B. lifecycle and the name registry: one name, start-up and stop held at gates
    {
        let mut cfgs = Vec::new();
        for &(w, poll) in &combos {
            let mut c = base("registry", w, poll);
            c.nnames = 1;
            let hold = [true, false, true, false];
            let ok = spec(Some(0), 1, hold);
            let mut pf = ok.clone();
            pf.pre_fail = true;
            let mut qf = ok.clone();
            qf.post_fail = true;
            c.specs = vec![ok, pf, qf];
            if w >= 2 {
                // failed start whose actor value parks in its Drop (blocks one worker thread): the
                // spawner has been told, the worker-side task has not finished
                let mut pfd = c.specs[1].clone();
                pfd.hold_drop = true;
                c.specs.push(pfd);
            }
            cfgs.push(c);
        }
        if quick {
            cfgs.swap(0, 1);
            cfgs.truncate(1);
        }
        v.push(Family {
            name: "registry",
            depth: if quick { 5 } else { 6 },
            max_msgs: 1,
            max_spawns: 3,
            alpha: Alphabet { spawn: true, send: true, stop: true, ..Default::default() },
            cfgs,
        });
    }
    // C. process groups over two actors
    {
        let mut cfgs = Vec::new();
        for (j, &(w, poll)) in combos.iter().enumerate() {
            if !quick && j % 3 != 0 {
                continue; // thorough: (w1, iour) and (w2, poll)
            }
            for prejoin in [true, false] {
                if quick && !prejoin {
                    continue;
                }
                let mut c = base("group", w, poll);
                c.prologue = vec![spec(None, 1, NOHOLD), spec(None, 1, NOHOLD)];
                c.prejoin = prejoin;
                cfgs.push(c);
            }
        }
        if quick {
            cfgs.truncate(1);
        }
        v.push(Family {
            name: "group",
            depth: if quick { 4 } else { 5 },
            max_msgs: 4,
            max_spawns: 0,
            alpha: Alphabet { stop: true, gjoin: !quick, gleave: true, gsend: true, gcall: true, ..Default::default() },
            cfgs,
        });
    }
    // D. supervisor: lifecycle events and replacement under the same name
    {
        let mut cfgs = Vec::new();
        for (j, &(w, poll)) in combos.iter().enumerate() {
            let mut c = base("supervisor", w, poll);
            c.supervisor = true;
            c.nnames = 1;
            c.respawns = 1;
            let mut ok = spec(Some(0), 1, NOHOLD);
            ok.supervised = true;
            let mut qf = ok.clone();
            qf.post_fail = true;
            // + a failing pre_stop on an otherwise healthy child (exit Stopped -> Failed, or an
            // earlier handler failure kept), and both stop hooks failing after a failed post_start
            let mut sf = ok.clone();
            sf.pre_stop_fail = true;
            let mut qsf = qf.clone();
            qsf.pre_stop_fail = true;
            qsf.post_stop_fail = true;
            // (thorough: both on the w2/poll combination -- the quick one --, one of them on each other)
            c.specs = if quick || j == 3 { vec![ok, qf, sf, qsf] } else if j % 2 == 0 { vec![ok, qf, sf] } else { vec![ok, qf, qsf] };
            cfgs.push(c);
        }
        if quick {
            cfgs.swap(0, 1);
            cfgs.truncate(1);
        }
        v.push(Family {
            name: "supervisor",
            depth: if quick { 4 } else { 6 },
            max_msgs: if quick { 2 } else { 3 },
            max_spawns: 2,
            alpha: Alphabet { spawn: true, send: true, send_fail: true, stop: true, latest_only: true, ..Default::default() },
            cfgs,
        });
    }
    v
}
