// (included into c19.rs) -- the executor: real cluster vs. reference model

type CallFut = Pin<Box<dyn Future<Output = Result<u64, CallError<M>>> + Send>>;
type JoinFut = Pin<Box<dyn Future<Output = std::io::Result<()>>>>;

#[derive(Clone, Debug, PartialEq, Eq)]
enum SpawnObs {
    Pending,
    Ok,
    StartErr(u32),
    NameTaken,
    Other(String),
}

#[derive(Clone, Debug, PartialEq, Eq)]
enum HandleObs {
    /// no handle exists (spawn not resolved / refused)
    None,
    Pending,
    Exit(Exit),
    WorkerGone,
}

#[derive(Clone, Debug, PartialEq, Eq)]
enum CallObs {
    NotCall,
    Pending,
    Ok(u64),
    Full(usize, u64),
    Closed(usize, u64),
    NoReply,
}

struct RActor {
    fut: Option<SpawnFuture<TA>>,
    spawn: SpawnObs,
    mailbox: Option<Mailbox<TA>>,
    handle: Option<ActorHandle<u32>>,
    hobs: HandleObs,
    mem_cast: Option<Membership<M>>,
    mem_call: Option<Membership<Call<M, u64>>>,
    #[allow(dead_code)]
    by_supervisor: bool,
}

impl RActor {
    fn empty(by_supervisor: bool) -> Self {
        RActor { fut: None, spawn: SpawnObs::Pending, mailbox: None, handle: None, hobs: HandleObs::None, mem_cast: None, mem_call: None, by_supervisor }
    }
}

struct RMsg {
    /// (result, the handed-back message was the original one)
    deliver: Deliver,
    returned_original: bool,
    call: Option<CallFut>,
    cobs: CallObs,
}

const MAX_ACTORS: usize = 10;
const MAX_MSGS: usize = 24;
static NEXT_EXEC19: AtomicU64 = AtomicU64::new(1);

fn name_of(n: usize) -> String {
    format!("name{n}")
}

fn queued_of(mb: &Mailbox<TA>) -> Option<usize> {
    let s = format!("{mb:?}");
    let i = s.find("queued: ")? + 8;
    let rest = &s[i..];
    let end = rest.find(|c: char| !c.is_ascii_digit())?;
    rest[..end].parse().ok()
}

fn deliver_of<T: Send + 'static>(r: &Result<(), DeliverError<T>>) -> Deliver {
    match r {
        Ok(()) => Deliver::Ok,
        Err(DeliverError::Full(_)) => Deliver::Full,
        Err(DeliverError::Closed(_)) => Deliver::Closed,
    }
}

struct Exec<'a> {
    cfg: &'a Cfg,
    timing: Timing,
    w: Arc<World>,
    cluster: Option<Cluster>,
    prefix: String,
    model: Model,
    ra: Vec<RActor>,
    rm: Vec<RMsg>,
    sup_mailbox: Option<Mailbox<Sup>>,
    sup_handle: Option<ActorHandle<u32>>,
    gcast: ProcessGroup<M>,
    gcall: ProcessGroup<Call<M, u64>>,
    waker: Arc<CountWaker>,
    join: Option<JoinFut>,
    join_done: Option<Result<(), String>>,
    last_stop_obs: Option<(usize, bool)>,
    res: ExecResult,
    aborted: bool,
    mismatch: bool,
    rr_divergence: u64,
    in_finale: bool,
}

impl<'a> Exec<'a> {
    fn new(cfg: &'a Cfg, timing: Timing) -> Result<Self, String> {
        let uid = NEXT_EXEC19.fetch_add(1, Ordering::Relaxed);
        let w = Arc::new(World {
            uid,
            journal: Mutex::new(Vec::new()),
            nev: AtomicU64::new(0),
            actors: (0..MAX_ACTORS)
                .map(|_| AStat {
                    pre_fail: AtomicBool::new(false),
                    post_fail: AtomicBool::new(false),
                    pre_stop_fail: AtomicBool::new(false),
                    post_stop_fail: AtomicBool::new(false),
                    hold_drop: AtomicBool::new(false),
                    gates: Default::default(),
                    gauge: AtomicI32::new(0),
                })
                .collect(),
            msgs: (0..MAX_MSGS).map(|_| MStat { gate: Gate::new(false), fail: AtomicBool::new(false) }).collect(),
            max_gauge: AtomicI32::new(0),
            sup: Mutex::new(SupState { log: Vec::new(), budget: cfg.respawns, current_child: usize::MAX, respawned: Vec::new(), next_actor: 0 }),
            exitlog: Arc::new(ExitLog::default()),
        });
        let prefix = util::new_thread_prefix();
        let mut pb = ProactorBuilder::new();
        pb.thread_pool_recv_timeout(Duration::from_millis(10));
        pb.driver_type(if cfg.poll_driver { DriverType::Poll } else { DriverType::IoUring });
        pb.capacity(16);
        let p2 = prefix.clone();
        let disp = Dispatcher::builder()
            .worker_threads(NonZeroUsize::new(cfg.workers).unwrap())
            .thread_names(move |i| format!("{p2}{i}"))
            .proactor_builder(pb)
            .build()
            .map_err(|e| format!("cannot build dispatcher: {e}"))?;
        Ok(Exec {
            cfg,
            timing,
            w,
            cluster: Some(Cluster::from_dispatcher(disp)),
            prefix,
            model: Model::new(cfg.nnames, cfg.respawns),
            ra: Vec::new(),
            rm: Vec::new(),
            sup_mailbox: None,
            sup_handle: None,
            gcast: ProcessGroup::new(),
            gcall: ProcessGroup::new(),
            waker: Arc::new(CountWaker::default()),
            join: None,
            join_done: None,
            last_stop_obs: None,
            res: ExecResult::default(),
            aborted: false,
            mismatch: false,
            rr_divergence: 0,
            in_finale: false,
        })
    }

    fn vio(&mut self, key: &str, what: String) {
        let key = key.to_string();
        if !self.res.vios.iter().any(|(k, _)| *k == key) {
            let hist = self.res.hist.join(" ; ");
            self.res.vios.push((key, format!("{what} -- configuration {} -- history: {hist}", self.cfg.label())));
        }
    }

    fn obs_journal(&self, a: usize) -> Vec<EvK> {
        self.w.journal.lock().unwrap().iter().filter(|e| e.actor == a).map(|e| e.k).collect()
    }

    // ---- observation ------------------------------------------------------------------------

    fn sweep(&mut self) {
        // replacements spawned by the supervisor
        let news: Vec<Respawned> = std::mem::take(&mut self.w.sup.lock().unwrap().respawned);
        for r in news {
            while self.ra.len() <= r.id {
                self.ra.push(RActor::empty(true));
            }
            let ra = &mut self.ra[r.id];
            match r.result {
                Ok((mb, h)) => {
                    ra.spawn = SpawnObs::Ok;
                    ra.mailbox = Some(mb);
                    ra.handle = Some(h);
                    ra.hobs = HandleObs::Pending;
                }
                Err(e) => ra.spawn = if e.starts_with("NameTaken") { SpawnObs::NameTaken } else { SpawnObs::Other(e) },
            }
        }
        for ra in self.ra.iter_mut() {
            if let Some(f) = ra.fut.as_mut() {
                if let Poll::Ready(r) = util::poll_once(Pin::new(f), &self.waker) {
                    ra.fut = None;
                    match r {
                        Ok((mb, h)) => {
                            ra.spawn = SpawnObs::Ok;
                            ra.mailbox = Some(mb);
                            ra.handle = Some(h);
                            ra.hobs = HandleObs::Pending;
                        }
                        Err(SpawnError::Start(c)) => ra.spawn = SpawnObs::StartErr(c),
                        Err(SpawnError::NameTaken(_)) => ra.spawn = SpawnObs::NameTaken,
                        Err(e) => ra.spawn = SpawnObs::Other(format!("{e:?}")),
                    }
                }
            }
            if let Some(h) = ra.handle.as_mut() {
                if let Poll::Ready(r) = util::poll_once(Pin::new(h), &self.waker) {
                    ra.handle = None;
                    ra.hobs = match r {
                        Ok(ActorExit::Stopped) => HandleObs::Exit(Exit::Stopped),
                        Ok(ActorExit::Failed(c)) => HandleObs::Exit(Exit::Failed(c)),
                        Err(ActorHandleError) => HandleObs::WorkerGone,
                    };
                }
            }
        }
        for rm in self.rm.iter_mut() {
            if let Some(f) = rm.call.as_mut() {
                if let Poll::Ready(r) = util::poll_once(f.as_mut(), &self.waker) {
                    rm.call = None;
                    rm.cobs = match r {
                        Ok(v) => CallObs::Ok(v),
                        Err(CallError::Full(m)) => CallObs::Full(m.id, m.tok),
                        Err(CallError::Closed(m)) => CallObs::Closed(m.id, m.tok),
                        Err(CallError::NoReply) => CallObs::NoReply,
                    };
                }
            }
        }
        if let Some(j) = self.join.as_mut() {
            let r = std::panic::catch_unwind(std::panic::AssertUnwindSafe(|| util::poll_once(j.as_mut(), &self.waker)));
            match r {
                Ok(Poll::Pending) => {}
                Ok(Poll::Ready(Ok(()))) => {
                    self.join = None;
                    self.join_done = Some(Ok(()));
                }
                Ok(Poll::Ready(Err(e))) => {
                    self.join = None;
                    self.join_done = Some(Err(e.to_string()));
                }
                Err(_) => {
                    self.join = None;
                    self.join_done = Some(Err("join panicked".into()));
                }
            }
        }
    }

    /// What the model promises and has not been observed yet.
    fn pending(&mut self) -> Option<String> {
        self.sweep();
        while self.ra.len() < self.model.actors.len() {
            let by = self.model.actors[self.ra.len()].spawned_by_supervisor;
            self.ra.push(RActor::empty(by));
        }
        for a in 0..self.model.actors.len() {
            // the registry refused a spawn the model lets through: nothing further will happen
            if self.ra[a].spawn == SpawnObs::NameTaken && self.model.actors[a].spawn != SpawnExp::NameTaken {
                self.mismatch = true;
                return None;
            }
            let obs = self.obs_journal(a);
            let exp = &self.model.actors[a].journal;
            let n = obs.len().min(exp.len());
            if obs[..n] != exp[..n] || obs.len() > exp.len() {
                self.mismatch = true;
                return None;
            }
            if obs.len() < exp.len() {
                // the handle (polled by `sweep` above, before the journal was read) already reported
                // the exit: the actor is gone, the missing events will never happen
                if matches!(self.ra[a].hobs, HandleObs::Exit(_)) {
                    self.mismatch = true;
                    return None;
                }
                return Some(format!("actor {a}: {} (after {} events)", exp[obs.len()].class(), obs.len()));
            }
            let ma = &self.model.actors[a];
            if ma.spawn != SpawnExp::Pending && self.ra[a].spawn == SpawnObs::Pending {
                return Some(format!("spawn of actor {a} to resolve"));
            }
            if ma.handle.is_some() && matches!(self.ra[a].hobs, HandleObs::Pending | HandleObs::None) && self.ra[a].spawn == SpawnObs::Ok {
                return Some(format!("handle of actor {a} to report the exit"));
            }
        }
        for m in 0..self.model.msgs.len() {
            let exp = self.model.msgs[m].call_exp;
            if matches!(exp, CallExp::Replied | CallExp::NoReply | CallExp::Refused(_)) && self.rm[m].cobs == CallObs::Pending {
                return Some(format!("call {m} to resolve ({exp:?})"));
            }
        }
        if self.w.sup.lock().unwrap().log.len() < self.model.sup_log.len() {
            return Some("supervisor to receive a lifecycle event".into());
        }
        if self.join.is_some() {
            return Some("cluster join to return".into());
        }
        None
    }

    fn fingerprint(&mut self) -> u64 {
        self.sweep();
        let mut h = self.w.nev.load(Ordering::SeqCst);
        util::mix(&mut h, self.w.journal.lock().unwrap().len() as u64);
        util::mix(&mut h, self.w.max_gauge.load(Ordering::SeqCst) as u64);
        for ra in &self.ra {
            util::mix(&mut h, matches!(ra.spawn, SpawnObs::Pending) as u64);
            util::mix(&mut h, matches!(ra.hobs, HandleObs::Pending | HandleObs::None) as u64);
            if let Some(mb) = &ra.mailbox {
                util::mix(&mut h, queued_of(mb).unwrap_or(99) as u64);
                util::mix(&mut h, mb.is_closed() as u64);
            }
        }
        for rm in &self.rm {
            util::mix(&mut h, (rm.cobs == CallObs::Pending) as u64);
        }
        for a in &self.w.actors {
            for g in &a.gates {
                util::mix(&mut h, g.parked.load(Ordering::SeqCst) as u64);
            }
        }
        for m in &self.w.msgs {
            util::mix(&mut h, m.gate.parked.load(Ordering::SeqCst) as u64);
        }
        h
    }

    fn settle(&mut self) -> bool {
        let timing = self.timing;
        let cell = std::cell::RefCell::new(&mut *self);
        let r = util::settle(&timing, || cell.borrow_mut().pending(), || cell.borrow_mut().fingerprint());
        match r {
            Settled::Ok => true,
            Settled::Expired(what) => {
                let class: String = what.chars().map(|c| if c.is_ascii_digit() { '#' } else { c }).collect::<String>().replace(' ', "-");
                self.vio(&format!("liveness:{class}"), format!("never happened within {:?}: {what}", timing.watchdog));
                self.aborted = true;
                false
            }
            Settled::Unstable => {
                self.res.machinery = Some("world did not become quiescent".into());
                self.aborted = true;
                false
            }
        }
    }

    // ---- comparison with the model ----------------------------------------------------------

    fn check(&mut self) {
        let joined = self.join_done.is_some();
        // journals
        for a in 0..self.model.actors.len() {
            let obs = self.obs_journal(a);
            let exp = self.model.actors[a].journal.clone();
            if obs != exp {
                let i = obs.iter().zip(exp.iter()).take_while(|(o, e)| o == e).count();
                let o = obs.get(i).map(|e| e.class()).unwrap_or("nothing".into());
                let e = exp.get(i).map(|e| e.class()).unwrap_or("nothing".into());
                let detail = self.classify_journal(a, &obs, i);
                self.vio(
                    &format!("journal:{detail}:expected={e}:observed={o}"),
                    format!("actor {a}: after {i} matching events the reference model expects {e} but the actor did {o}; observed journal {obs:?}, expected {exp:?}"),
                );
                self.aborted = true;
            }
            if let Some(msg) = self.validate_journal(a, &obs) {
                self.vio(&format!("statement:{}", msg.0), format!("actor {a}: {} (journal {obs:?})", msg.1));
                self.aborted = true;
            }
        }
        if self.w.max_gauge.load(Ordering::SeqCst) > 1 {
            self.vio("overlap:two-activations-of-one-actor", "two handlers/hooks of one actor were active at the same time".into());
            self.aborted = true;
        }
        // spawn results, handles, mailbox state
        for a in 0..self.model.actors.len() {
            let ma = self.model.actors[a].clone();
            let exp = match ma.spawn {
                SpawnExp::Pending => SpawnObs::Pending,
                SpawnExp::Ok => SpawnObs::Ok,
                SpawnExp::StartErr(c) => SpawnObs::StartErr(c),
                SpawnExp::NameTaken => SpawnObs::NameTaken,
            };
            let obs = self.ra[a].spawn.clone();
            if obs != exp {
                let cls = |s: &SpawnObs| match s {
                    SpawnObs::Pending => "Pending".to_string(),
                    SpawnObs::Ok => "Ok".into(),
                    SpawnObs::StartErr(_) => "StartErr".into(),
                    SpawnObs::NameTaken => "NameTaken".into(),
                    SpawnObs::Other(x) => x.clone(),
                };
                let who = if ma.spawned_by_supervisor { "respawn" } else { "spawn" };
                // the statement's "free again after ... failed start", named on its own
                let after_failed_start = obs == SpawnObs::NameTaken
                    && ma.spec.name.is_some()
                    && self.model.actors.iter().enumerate().any(|(b, x)| b != a && x.spec.name == ma.spec.name && matches!(x.phase, Phase::DropHeld | Phase::StartFailed))
                    && !self.model.actors.iter().enumerate().any(|(b, x)| b != a && x.spec.name == ma.spec.name && x.live());
                if after_failed_start {
                    let held = self.model.actors.iter().any(|x| x.spec.name == ma.spec.name && x.phase == Phase::DropHeld);
                    self.vio(
                        "registry:name-not-free-after-failed-start",
                        format!(
                            "{who} of actor {a} ({}) was refused with NameTaken although the only earlier holders of the name failed to start and their spawners have already received SpawnError::Start{}; the reference model (a name is free again after a failed start) expects {exp:?}",
                            ma.spec.code(),
                            if held { " (the failed actor's value is still alive: its Drop is parked at the harness gate, i.e. the worker-side task has not finished yet)" } else { "" }
                        ),
                    );
                    self.aborted = true;
                    continue;
                }
                self.vio(
                    &format!("{who}:expected={}:observed={}", cls(&exp), cls(&obs)),
                    format!("{who} of actor {a} ({}) resolved as {obs:?}, the reference model (registry: name -> reserved|active) expects {exp:?}", ma.spec.code()),
                );
                self.aborted = true;
                continue;
            }
            let hexp = match (ma.spawn, ma.handle) {
                (SpawnExp::Ok, Some(e)) => HandleObs::Exit(e),
                (SpawnExp::Ok, None) => HandleObs::Pending,
                _ => HandleObs::None,
            };
            let hobs = self.ra[a].hobs.clone();
            if hobs != hexp && !(joined && hobs == HandleObs::WorkerGone && hexp == HandleObs::Pending) {
                self.vio(
                    &format!("handle:expected={}:observed={}", hclass(&hexp), hclass(&hobs)),
                    format!("ActorHandle of actor {a} reports {hobs:?}, expected {hexp:?}"),
                );
                self.aborted = true;
            }
            if let Some(mb) = self.ra[a].mailbox.clone() {
                if mb.is_closed() != ma.closed && !joined {
                    self.vio("mailbox:is_closed", format!("actor {a}: is_closed() = {} but the model says {}", mb.is_closed(), ma.closed));
                    self.aborted = true;
                }
                // once the stop hooks have begun, what is still queued will never be handled; when
                // exactly the implementation lets go of it is not something the property states
                if ma.live() && !ma.stopping() && !joined {
                    let q = queued_of(&mb);
                    if q != Some(ma.queue.len()) {
                        self.vio("mailbox:queue-length", format!("actor {a}: {q:?} messages queued, the model has {}", ma.queue.len()));
                        self.aborted = true;
                    }
                }
            }
        }
        // sends and calls
        for m in 0..self.model.msgs.len() {
            let mm = self.model.msgs[m].clone();
            let rm_deliver = self.rm[m].deliver;
            if !mm.via_group && rm_deliver != mm.deliver {
                self.vio(
                    &format!("send:expected={:?}:observed={:?}", mm.deliver, rm_deliver),
                    format!("message {m}: the mailbox answered {rm_deliver:?}, the bounded-FIFO model expects {:?}", mm.deliver),
                );
                self.aborted = true;
            }
            if !self.rm[m].returned_original {
                self.vio("send:handed-back-a-different-message", format!("message {m} was refused but a different message was handed back"));
                self.aborted = true;
            }
            let cobs = self.rm[m].cobs.clone();
            let tok = self.tok(m);
            let ok = match mm.call_exp {
                CallExp::None => cobs == CallObs::NotCall,
                // a call still queued while its actor runs the stop hooks will never be handled: it
                // may already have been answered with the explicit error (the latest moment is
                // decided in the frozen final state)
                CallExp::Waiting if cobs == CallObs::NoReply => mm.target.is_some_and(|a| self.model.actors[a].stopping() && self.model.actors[a].queue.contains(&m)),
                CallExp::Waiting => cobs == CallObs::Pending,
                CallExp::Replied => cobs == CallObs::Ok(tok ^ 0x5555),
                CallExp::NoReply => cobs == CallObs::NoReply,
                CallExp::Refused(Deliver::Full) => cobs == CallObs::Full(m, tok),
                CallExp::Refused(_) => cobs == CallObs::Closed(m, tok),
                // decided in the frozen final state (see `frozen_checks`): explicit error or hang
                CallExp::Orphaned(_) => matches!(cobs, CallObs::Pending | CallObs::NoReply),
            };
            if !ok {
                self.vio(
                    &format!("call:expected={}:observed={}", cclass_exp(&mm.call_exp), cclass(&cobs)),
                    format!("call {m}: observed {cobs:?}, expected {:?}", mm.call_exp),
                );
                self.aborted = true;
            }
        }
        if let Some((a, obs)) = self.last_stop_obs.take() {
            if obs != self.model.last_stop {
                self.vio("stop:return-value", format!("stop() of actor {a} returned {obs}, expected {}", self.model.last_stop));
                self.aborted = true;
            }
        }
        // registry
        if !joined {
            if let Some(cluster) = self.cluster.clone() {
                for n in 0..self.cfg.nnames {
                    let (must, may) = self.model.lookup_exp(n);
                    let got = cluster.lookup::<TA, _>(name_of(n));
                    if got.is_some() && !may {
                        self.vio("lookup:visible-outside-lifetime", format!("lookup({}) returns a mailbox although no actor under that name is between successful start-up and exit (holder in the model: {:?})", name_of(n), self.model.names[n]));
                        self.aborted = true;
                    }
                    if got.is_none() && must {
                        self.vio("lookup:invisible-while-running", format!("lookup({}) returns None although actor {:?} started successfully and has not begun to stop", name_of(n), self.model.names[n]));
                        self.aborted = true;
                    }
                    if let (Some(mb), Some(holder)) = (got, self.model.names[n]) {
                        if mb.name() != Some(name_of(n).as_str()) || mb.is_closed() != self.model.actors[holder].closed || mb.capacity().get() != self.model.actors[holder].spec.cap {
                            self.vio("lookup:wrong-actor", format!("lookup({}) returned a mailbox that does not look like actor {holder}'s", name_of(n)));
                            self.aborted = true;
                        }
                    }
                }
            }
        }
        // supervisor
        let sup: Vec<(SupKind, usize, bool, bool)> = self.w.sup.lock().unwrap().log.iter().map(|r| (r.kind, r.child, r.name_visible, r.closed)).collect();
        let exp = self.model.sup_log.clone();
        let obs_ev: Vec<SupEv> = sup.iter().map(|r| SupEv { kind: r.0, child: r.1 }).collect();
        if obs_ev != exp {
            self.vio(
                "supervisor:events",
                format!("the supervisor received {obs_ev:?}, expected {exp:?} (Started after post_start, then exactly one terminal event per child)"),
            );
            self.aborted = true;
        }
        for r in &sup {
            if r.0 != SupKind::Started && r.2 {
                self.vio("supervisor:name-not-released-before-terminal-event", format!("when the terminal event of child {} was delivered its name was still registered", r.1));
                self.aborted = true;
            }
        }
    }

    fn tok(&self, m: usize) -> u64 {
        (self.w.uid << 8) | m as u64
    }

    /// which statement-level rule a journal deviation breaks (for the violation key)
    fn classify_journal(&self, a: usize, obs: &[EvK], i: usize) -> String {
        match obs.get(i) {
            Some(EvK::HandleBegin(m)) => {
                let mm = self.model.msgs.get(*m);
                if obs[..i].iter().any(|e| *e == EvK::HandleBegin(*m)) {
                    "handled-twice".into()
                } else if mm.map(|x| x.target != Some(a)).unwrap_or(true) {
                    "handled-unaccepted-message".into()
                } else if self.model.actors[a].closed {
                    "handled-after-stop-or-failure".into()
                } else {
                    "order".into()
                }
            }
            Some(EvK::Dropped) => "activation-dropped".into(),
            Some(_) => "lifecycle".into(),
            None => "missing".into(),
        }
    }

    /// Second, model-independent oracle: the statement's rules checked directly on the journal.
    fn validate_journal(&self, a: usize, obs: &[EvK]) -> Option<(String, String)> {
        // serial: Begin/End strictly alternate
        let mut open: Option<EvK> = None;
        let mut hooks: Vec<Hook> = Vec::new();
        let mut handled: Vec<usize> = Vec::new();
        for e in obs {
            match e {
                EvK::HookBegin(_) | EvK::HandleBegin(_) => {
                    if open.is_some() {
                        return Some(("not-serial".into(), format!("{e:?} began while {open:?} was still active")));
                    }
                    open = Some(*e);
                    match e {
                        EvK::HookBegin(h) => hooks.push(*h),
                        EvK::HandleBegin(m) => {
                            if handled.contains(m) {
                                return Some(("handled-twice".into(), format!("message {m} was handled twice")));
                            }
                            if !hooks.contains(&Hook::PostStart) || hooks.contains(&Hook::PreStop) {
                                return Some(("handler-outside-running-phase".into(), format!("message {m} was handled before post_start or after pre_stop")));
                            }
                            handled.push(*m);
                        }
                        _ => {}
                    }
                }
                EvK::ValueDropBegin => {
                    if open.is_some() {
                        return Some(("not-serial".into(), format!("the actor value was dropped while {open:?} was still active")));
                    }
                    open = Some(*e);
                }
                EvK::HookEnd(..) | EvK::HandleEnd(..) | EvK::Dropped | EvK::ValueDropEnd => {
                    if open.is_none() {
                        return Some(("not-serial".into(), format!("{e:?} without a begin")));
                    }
                    open = None;
                }
            }
        }
        // hooks: a prefix of pre_start, post_start, pre_stop, post_stop, each at most once
        let order = [Hook::PreStart, Hook::PostStart, Hook::PreStop, Hook::PostStop];
        if hooks.len() > 4 || hooks.iter().zip(order.iter()).any(|(h, o)| h != o) {
            return Some(("hook-order".into(), format!("lifecycle hooks ran as {hooks:?}")));
        }
        // handled messages: a subsequence of the accepted ones, in acceptance order
        let accepted: Vec<usize> = (0..self.model.msgs.len()).filter(|&m| self.rm.get(m).map(|r| r.deliver == Deliver::Ok).unwrap_or(false) && self.model.msgs[m].target == Some(a)).collect();
        let mut pos = 0;
        for m in &handled {
            match accepted[pos..].iter().position(|x| x == m) {
                Some(p) => pos += p + 1,
                None => {
                    return Some(("fifo".into(), format!("handled {handled:?} is not a subsequence of the accepted messages {accepted:?} in acceptance order")));
                }
            }
        }
        None
    }
}

fn hclass(h: &HandleObs) -> &'static str {
    match h {
        HandleObs::None => "None",
        HandleObs::Pending => "Pending",
        HandleObs::Exit(Exit::Stopped) => "Stopped",
        HandleObs::Exit(Exit::Failed(_)) => "Failed",
        HandleObs::WorkerGone => "WorkerGone",
    }
}

fn cclass(c: &CallObs) -> &'static str {
    match c {
        CallObs::NotCall => "NotCall",
        CallObs::Pending => "Pending",
        CallObs::Ok(_) => "Reply",
        CallObs::Full(..) => "Full",
        CallObs::Closed(..) => "Closed",
        CallObs::NoReply => "NoReply",
    }
}

fn cclass_exp(c: &CallExp) -> &'static str {
    match c {
        CallExp::None => "NotCall",
        CallExp::Refused(Deliver::Full) => "Full",
        CallExp::Refused(_) => "Closed",
        CallExp::Waiting => "Pending",
        CallExp::Replied => "Reply",
        CallExp::NoReply => "NoReply",
        CallExp::Orphaned(_) => "ErrorOnceActorGone",
    }
}

include!("c19s.rs");
