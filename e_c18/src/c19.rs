//! C19 — actors: serial FIFO handling, ordered lifecycle, unique names.
//!
//! One execution = one fresh `compio_actor::Cluster` on a fresh 1-2 worker dispatcher, driven
//! through serialized harness steps; every handler (and the configured lifecycle hooks) parks at
//! a harness gate. After every step the harness waits until the real actors' journals have caught
//! up with the reference model (`c19m`), settles, and compares everything it can observe.

use std::{
    future::{Future, IntoFuture},
    num::NonZeroUsize,
    pin::Pin,
    sync::{
        Arc, Mutex,
        atomic::{AtomicBool, AtomicI32, AtomicU64, Ordering},
    },
    task::Poll,
    time::Duration,
};

use compio_actor::{
    Actor, ActorExit, ActorHandle, Call, Cluster, Handler, Mailbox,
    actor::ActorHandleError,
    cluster::{SpawnError, SpawnFuture},
    mailbox::{CallError, DeliverError},
    process_group::{Membership, ProcessGroup},
    supervisor::SupervisionEvent,
};
use compio_dispatcher::Dispatcher;
use compio_driver::{DriverType, ProactorBuilder};
use vcore::{Value, json};

pub use crate::c19m::{Step, SpawnSpec};
use crate::{
    c19m::{self, CallExp, Deliver, EvK, Exit, HOOKS, Hook, Model, Phase, SpawnExp, SupEv, SupKind},
    util::{self, CountWaker, ExecResult, ExitLog, Gate, Settled, Timing},
};

// ---------------------------------------------------------------------------------------------
// Subject: the actors the cluster runs
// ---------------------------------------------------------------------------------------------

pub struct M {
    id: usize,
    tok: u64,
}

struct AStat {
    pre_fail: AtomicBool,
    post_fail: AtomicBool,
    pre_stop_fail: AtomicBool,
    post_stop_fail: AtomicBool,
    /// the actor value's Drop is journalled and parks at `gates[DROP_GATE]`
    hold_drop: AtomicBool,
    /// one gate per hook, plus the gate of the actor value's Drop
    gates: [Gate; 5],
    /// activations (hooks + handlers) of this actor alive right now
    gauge: AtomicI32,
}

const DROP_GATE: usize = 4;

struct MStat {
    gate: Gate,
    fail: AtomicBool,
}

struct Ev {
    actor: usize,
    k: EvK,
}

struct SupRec {
    kind: SupKind,
    child: usize,
    /// `lookup(name)` at the time the event was handled
    name_visible: bool,
    closed: bool,
}

struct Respawned {
    id: usize,
    /// None = the respawn under the same name failed, with this description
    result: Result<(Mailbox<TA>, ActorHandle<u32>), String>,
}

struct SupState {
    log: Vec<SupRec>,
    budget: usize,
    current_child: usize,
    respawned: Vec<Respawned>,
    next_actor: usize,
}

struct World {
    uid: u64,
    journal: Mutex<Vec<Ev>>,
    nev: AtomicU64,
    actors: Vec<AStat>,
    msgs: Vec<MStat>,
    max_gauge: AtomicI32,
    sup: Mutex<SupState>,
    exitlog: Arc<ExitLog>,
}

impl World {
    fn log(&self, actor: usize, k: EvK) {
        self.journal.lock().unwrap().push(Ev { actor, k });
        self.nev.fetch_add(1, Ordering::SeqCst);
    }
}

/// One activation of actor code (a hook or a handler).
struct Span<'a> {
    w: &'a World,
    actor: usize,
    ended: bool,
}

impl<'a> Span<'a> {
    fn begin(w: &'a Arc<World>, actor: usize, k: EvK) -> Self {
        util::thread_uid(&w.exitlog);
        let g = w.actors[actor].gauge.fetch_add(1, Ordering::SeqCst) + 1;
        w.max_gauge.fetch_max(g, Ordering::SeqCst);
        w.log(actor, k);
        Span { w, actor, ended: false }
    }

    fn end(mut self, k: EvK) {
        self.ended = true;
        self.w.actors[self.actor].gauge.fetch_sub(1, Ordering::SeqCst);
        self.w.log(self.actor, k);
    }
}

impl Drop for Span<'_> {
    fn drop(&mut self) {
        if !self.ended {
            self.w.actors[self.actor].gauge.fetch_sub(1, Ordering::SeqCst);
            self.w.log(self.actor, EvK::Dropped);
        }
    }
}

pub struct TA {
    w: Arc<World>,
    id: usize,
}

impl TA {
    async fn hook(&self, h: Hook, fail: bool, code: u32) -> Result<(), u32> {
        let sp = Span::begin(&self.w, self.id, EvK::HookBegin(h));
        self.w.actors[self.id].gates[h as usize].wait_async().await;
        if h == Hook::PreStart && !fail {
            // the incarnation lifecycle events refer to from now on
            self.w.sup.lock().unwrap().current_child = self.id;
        }
        sp.end(EvK::HookEnd(h, !fail));
        if fail { Err(code) } else { Ok(()) }
    }
}

/// The actor VALUE outlives the delivery of a start failure to the spawner: it is dropped when the
/// worker-side task finishes. With `hold_drop` the harness owns that window (the Drop parks the
/// worker thread at a gate until the harness opens it).
impl Drop for TA {
    fn drop(&mut self) {
        let st = &self.w.actors[self.id];
        if st.hold_drop.load(Ordering::SeqCst) {
            self.w.log(self.id, EvK::ValueDropBegin);
            st.gates[DROP_GATE].wait_blocking();
            self.w.log(self.id, EvK::ValueDropEnd);
        }
    }
}

impl Actor for TA {
    type Arguments = ();
    type Error = u32;
    type State = ();

    async fn pre_start(&self, _myself: &Mailbox<Self>, (): ()) -> Result<(), u32> {
        let fail = self.w.actors[self.id].pre_fail.load(Ordering::SeqCst);
        self.hook(Hook::PreStart, fail, c19m::code_pre(self.id)).await
    }

    async fn post_start(&self, _myself: &Mailbox<Self>, _state: &mut ()) -> Result<(), u32> {
        let fail = self.w.actors[self.id].post_fail.load(Ordering::SeqCst);
        self.hook(Hook::PostStart, fail, c19m::code_post(self.id)).await
    }

    async fn pre_stop(&self, _myself: &Mailbox<Self>, _state: &mut ()) -> Result<(), u32> {
        let fail = self.w.actors[self.id].pre_stop_fail.load(Ordering::SeqCst);
        self.hook(Hook::PreStop, fail, c19m::code_pre_stop(self.id)).await
    }

    async fn post_stop(&self, _myself: &Mailbox<Self>, _state: &mut ()) -> Result<(), u32> {
        let fail = self.w.actors[self.id].post_stop_fail.load(Ordering::SeqCst);
        self.hook(Hook::PostStop, fail, c19m::code_post_stop(self.id)).await
    }
}

impl Handler<M> for TA {
    async fn handle(&self, _myself: &Mailbox<Self>, m: M, _state: &mut ()) -> Result<(), u32> {
        let sp = Span::begin(&self.w, self.id, EvK::HandleBegin(m.id));
        self.w.msgs[m.id].gate.wait_async().await;
        let fail = self.w.msgs[m.id].fail.load(Ordering::SeqCst);
        sp.end(EvK::HandleEnd(m.id, !fail));
        if fail { Err(c19m::code_msg(m.id)) } else { Ok(()) }
    }
}

impl Handler<Call<M, u64>> for TA {
    async fn handle(&self, _myself: &Mailbox<Self>, call: Call<M, u64>, _state: &mut ()) -> Result<(), u32> {
        let id = call.message().id;
        let tok = call.message().tok;
        let sp = Span::begin(&self.w, self.id, EvK::HandleBegin(id));
        self.w.msgs[id].gate.wait_async().await;
        let fail = self.w.msgs[id].fail.load(Ordering::SeqCst);
        if !fail {
            call.reply(tok ^ 0x5555).ok();
        } else {
            drop(call);
        }
        sp.end(EvK::HandleEnd(id, !fail));
        if fail { Err(c19m::code_msg(id)) } else { Ok(()) }
    }
}

/// A task that only makes the dispatcher wake one more waiting worker (its start fails at once, so
/// no actor ever exists). Used while a worker THREAD is parked in an actor value's Drop: the
/// dispatcher's queue is shared, a new task wakes only the worker that has been waiting longest,
/// and that may be the parked one; each further task wakes the next one, and any worker that is
/// awake takes everything that is queued.
pub struct Kick;

impl Actor for Kick {
    type Arguments = ();
    type Error = u32;
    type State = ();

    async fn pre_start(&self, _myself: &Mailbox<Self>, (): ()) -> Result<(), u32> {
        Err(0)
    }
}

/// The supervisor: logs every event and replaces a terminated child under the same name.
pub struct Sup {
    w: Arc<World>,
}

impl Actor for Sup {
    type Arguments = ();
    type Error = u32;
    type State = ();

    async fn pre_start(&self, _myself: &Mailbox<Self>, (): ()) -> Result<(), u32> {
        util::thread_uid(&self.w.exitlog);
        Ok(())
    }
}

impl Handler<SupervisionEvent<TA>> for Sup {
    async fn handle(&self, myself: &Mailbox<Self>, event: SupervisionEvent<TA>, _state: &mut ()) -> Result<(), u32> {
        let kind = match &event {
            SupervisionEvent::ActorStarted(_) => SupKind::Started,
            SupervisionEvent::ActorTerminated(_) => SupKind::Terminated,
            SupervisionEvent::ActorFailed(_) => SupKind::Failed,
        };
        let name = event.actor().name().map(str::to_string);
        let cap = event.actor().capacity();
        let closed = event.actor().is_closed();
        let cluster = Cluster::current();
        let visible = name.as_ref().map(|n| cluster.lookup::<TA, _>(n.clone()).is_some()).unwrap_or(false);
        let respawn = {
            let mut s = self.w.sup.lock().unwrap();
            let child = s.current_child;
            s.log.push(SupRec { kind, child, name_visible: visible, closed });
            if kind != SupKind::Started && s.budget > 0 {
                s.budget -= 1;
                let id = s.next_actor;
                s.next_actor += 1;
                Some(id)
            } else {
                None
            }
        };
        self.w.nev.fetch_add(1, Ordering::SeqCst);
        if let (Some(id), Some(name)) = (respawn, name) {
            // hooks of a replacement are never held
            for g in &self.w.actors[id].gates {
                g.open();
            }
            let w = self.w.clone();
            let r = cluster.spawn(move || TA { w, id }, ()).with_name(name).with_capacity(cap).with_supervisor(myself).await;
            let result = r.map_err(|e| match e {
                SpawnError::NameTaken(n) => format!("NameTaken({n})"),
                SpawnError::Unavailable => "Unavailable".to_string(),
                SpawnError::WorkerStopped => "WorkerStopped".to_string(),
                SpawnError::Start(c) => format!("Start({c})"),
            });
            self.w.sup.lock().unwrap().respawned.push(Respawned { id, result });
            self.w.nev.fetch_add(1, Ordering::SeqCst);
        }
        Ok(())
    }
}

// ---------------------------------------------------------------------------------------------
// Configuration
// ---------------------------------------------------------------------------------------------

#[derive(Clone, Debug)]
pub struct Cfg {
    pub family: String,
    pub workers: usize,
    pub poll_driver: bool,
    /// actors spawned (and run to quiescence) before the enumerated steps
    pub prologue: Vec<SpawnSpec>,
    /// both prologue actors are members of the groups from the start
    pub prejoin: bool,
    pub supervisor: bool,
    pub nnames: usize,
    pub respawns: usize,
    /// spawn specs the Spawn step may use
    pub specs: Vec<SpawnSpec>,
}

impl Cfg {
    pub fn label(&self) -> String {
        let pro: Vec<String> = self.prologue.iter().map(|s| s.code()).collect();
        format!("{}:w{}:{}:[{}]{}", self.family, self.workers, if self.poll_driver { "poll" } else { "iour" }, pro.join("+"), if self.prejoin { ":prejoined" } else { "" })
    }

    pub fn to_json(&self) -> Value {
        json!({"family": self.family, "workers": self.workers, "poll_driver": self.poll_driver,
               "prologue": self.prologue.iter().map(|s| s.to_json()).collect::<Vec<_>>(), "prejoin": self.prejoin,
               "supervisor": self.supervisor, "nnames": self.nnames, "respawns": self.respawns,
               "specs": self.specs.iter().map(|s| s.to_json()).collect::<Vec<_>>()})
    }

    pub fn from_json(v: &Value) -> Option<Cfg> {
        let specs = |k: &str| -> Option<Vec<SpawnSpec>> { v[k].as_array()?.iter().map(SpawnSpec::from_json).collect() };
        Some(Cfg {
            family: v["family"].as_str()?.to_string(),
            workers: v["workers"].as_u64()? as usize,
            poll_driver: v["poll_driver"].as_bool()?,
            prologue: specs("prologue")?,
            prejoin: v["prejoin"].as_bool()?,
            supervisor: v["supervisor"].as_bool()?,
            nnames: v["nnames"].as_u64()? as usize,
            respawns: v["respawns"].as_u64()? as usize,
            specs: specs("specs")?,
        })
    }
}

include!("c19x.rs");
include!("c19f.rs");
