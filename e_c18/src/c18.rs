//! C18 — the dispatcher starts every accepted task exactly once.
//!
//! One execution = one fresh `compio_dispatcher::Dispatcher` (real worker threads, each with its
//! own compio runtime) driven through a sequence of serialized harness steps. Every task body
//! parks at a harness gate, the harness settles after every step (see `util::settle`).

use std::{
    cell::Cell,
    collections::BTreeSet,
    future::Future,
    num::NonZeroUsize,
    panic::AssertUnwindSafe,
    pin::Pin,
    sync::{
        Arc,
        atomic::{AtomicBool, AtomicU32, AtomicU64, Ordering},
    },
    task::Poll,
    time::{Duration, Instant},
};

use compio_dispatcher::Dispatcher;
use compio_driver::{DriverType, ProactorBuilder};
use futures_channel::oneshot;
use vcore::{Value, json};

use crate::util::{self, CountWaker, ExitLog, Gate, Settled, Timing};

#[derive(Clone, Copy, PartialEq, Eq, Debug)]
pub enum Kind {
    /// `async` body awaiting a harness gate (the worker's runtime keeps running)
    Async,
    /// body blocking the worker thread on a Mutex+Condvar gate
    Block,
    /// body that panics as soon as it is started
    Panic,
}

impl Kind {
    fn code(self) -> &'static str {
        match self {
            Kind::Async => "A",
            Kind::Block => "B",
            Kind::Panic => "P",
        }
    }

    fn parse(s: &str) -> Option<Kind> {
        Some(match s {
            "A" => Kind::Async,
            "B" => Kind::Block,
            "P" => Kind::Panic,
            _ => return None,
        })
    }
}

#[derive(Clone, Copy, PartialEq, Eq, Debug)]
pub enum Step {
    Dispatch(Kind),
    Open(usize),
    Join,
}

impl Step {
    pub fn code(&self) -> String {
        match self {
            Step::Dispatch(k) => format!("D{}", k.code()),
            Step::Open(t) => format!("O{t}"),
            Step::Join => "J".into(),
        }
    }

    pub fn parse(s: &str) -> Option<Step> {
        if s == "J" {
            return Some(Step::Join);
        }
        let (h, r) = s.split_at(1);
        match h {
            "D" => Kind::parse(r).map(Step::Dispatch),
            "O" => r.parse().ok().map(Step::Open),
            _ => None,
        }
    }
}

#[derive(Clone, Copy, PartialEq, Eq, Debug)]
pub enum Drv {
    IoUring,
    Poll,
}

impl Drv {
    pub fn name(self) -> &'static str {
        match self {
            Drv::IoUring => "iour",
            Drv::Poll => "poll",
        }
    }
}

#[derive(Clone, Debug)]
pub struct Cfg {
    pub family: String,
    pub workers: usize,
    pub concurrent: bool,
    pub drv: Drv,
    /// workers die at start-up (their runtime cannot be built): the worker-panic family
    pub dead_workers: bool,
}

impl Cfg {
    pub fn label(&self) -> String {
        format!(
            "{}:w{}:{}:{}{}",
            self.family,
            self.workers,
            if self.concurrent { "conc" } else { "seq" },
            self.drv.name(),
            if self.dead_workers { ":deadworkers" } else { "" }
        )
    }

    pub fn to_json(&self) -> Value {
        json!({"family": self.family, "workers": self.workers, "concurrent": self.concurrent, "driver": self.drv.name(), "dead_workers": self.dead_workers})
    }

    pub fn from_json(v: &Value) -> Option<Cfg> {
        Some(Cfg {
            family: v["family"].as_str()?.to_string(),
            workers: v["workers"].as_u64()? as usize,
            concurrent: v["concurrent"].as_bool()?,
            drv: match v["driver"].as_str()? {
                "iour" => Drv::IoUring,
                "poll" => Drv::Poll,
                _ => return None,
            },
            dead_workers: v["dead_workers"].as_bool().unwrap_or(false),
        })
    }
}

// ---------------------------------------------------------------------------------------------
// World shared with the task bodies
// ---------------------------------------------------------------------------------------------

struct TaskSt {
    starts: AtomicU32,
    thread: AtomicU64,
    finished: AtomicBool,
    dropped: AtomicBool,
    gate: Gate,
}

struct World {
    tasks: Vec<TaskSt>,
    exitlog: Arc<ExitLog>,
    /// largest number of task bodies alive at once on one worker thread
    max_gauge: AtomicU32,
    uid: u64,
}

thread_local! {
    static GAUGE: Cell<u32> = const { Cell::new(0) };
}

static NEXT_EXEC: AtomicU64 = AtomicU64::new(1);

fn token(uid: u64, t: usize) -> u64 {
    (uid << 8) | t as u64
}

struct BodyGuard {
    w: Arc<World>,
    t: usize,
    done: bool,
}

impl BodyGuard {
    fn enter(w: &Arc<World>, t: usize) -> Self {
        let uid = util::thread_uid(&w.exitlog);
        let g = GAUGE.with(|g| {
            g.set(g.get() + 1);
            g.get()
        });
        w.max_gauge.fetch_max(g, Ordering::SeqCst);
        w.tasks[t].thread.store(uid, Ordering::SeqCst);
        w.tasks[t].starts.fetch_add(1, Ordering::SeqCst);
        BodyGuard { w: w.clone(), t, done: false }
    }

    fn finish(&mut self) {
        self.done = true;
        self.w.tasks[self.t].finished.store(true, Ordering::SeqCst);
    }
}

impl Drop for BodyGuard {
    fn drop(&mut self) {
        GAUGE.with(|g| g.set(g.get().saturating_sub(1)));
        if !self.done {
            self.w.tasks[self.t].dropped.store(true, Ordering::SeqCst);
        }
    }
}

// ---------------------------------------------------------------------------------------------
// One execution
// ---------------------------------------------------------------------------------------------

#[derive(Clone, Debug, PartialEq, Eq)]
enum Rx {
    Pending,
    Ok(u64),
    Canceled,
}

#[derive(Clone, Debug, PartialEq, Eq)]
enum JoinSt {
    NotStarted,
    Pending,
    Ok,
    Err(String),
    Panicked(String),
}

pub use crate::util::ExecResult;

type JoinFut = Pin<Box<dyn Future<Output = std::io::Result<()>>>>;

struct Exec<'a> {
    cfg: &'a Cfg,
    timing: Timing,
    w: Arc<World>,
    disp: Option<Arc<Dispatcher>>,
    prefix: String,
    kinds: Vec<Kind>,
    accepted: Vec<bool>,
    gate_open: Vec<bool>,
    rx: Vec<Option<oneshot::Receiver<u64>>>,
    rxres: Vec<Rx>,
    rxwaker: Arc<CountWaker>,
    join: Option<JoinFut>,
    joinst: JoinSt,
    joinwaker: Arc<CountWaker>,
    /// receivers still pending at the instant `join` was seen to have returned
    hung_at_join: Vec<usize>,
    /// observations made at the instant `join` was seen to have returned
    join_checked: bool,
    res: ExecResult,
    aborted: bool,
}

fn payload_text(e: Box<dyn std::any::Any + Send>) -> String {
    if let Some(s) = e.downcast_ref::<&str>() {
        s.to_string()
    } else if let Some(s) = e.downcast_ref::<String>() {
        s.clone()
    } else {
        "non-string payload".into()
    }
}

impl<'a> Exec<'a> {
    fn new(cfg: &'a Cfg, timing: Timing, max_tasks: usize) -> Result<Self, String> {
        let uid = NEXT_EXEC.fetch_add(1, Ordering::Relaxed);
        let w = Arc::new(World {
            tasks: (0..max_tasks)
                .map(|_| TaskSt {
                    starts: AtomicU32::new(0),
                    thread: AtomicU64::new(0),
                    finished: AtomicBool::new(false),
                    dropped: AtomicBool::new(false),
                    gate: Gate::new(false),
                })
                .collect(),
            exitlog: Arc::new(ExitLog::default()),
            max_gauge: AtomicU32::new(0),
            uid,
        });
        let prefix = util::new_thread_prefix();
        let mut pb = ProactorBuilder::new();
        pb.thread_pool_recv_timeout(Duration::from_millis(10));
        if cfg.dead_workers {
            // io_uring refuses more than 32768 entries: Runtime::build fails inside the worker,
            // whose `expect` then panics -- a genuine worker panic owned by the configuration
            pb.driver_type(DriverType::IoUring);
            pb.capacity(1 << 24);
        } else {
            pb.driver_type(match cfg.drv {
                Drv::IoUring => DriverType::IoUring,
                Drv::Poll => DriverType::Poll,
            });
            pb.capacity(16);
        }
        let p2 = prefix.clone();
        let disp = Dispatcher::builder()
            .worker_threads(NonZeroUsize::new(cfg.workers).unwrap())
            .concurrent(cfg.concurrent)
            .thread_names(move |i| format!("{p2}{i}"))
            .proactor_builder(pb)
            .build()
            .map_err(|e| format!("cannot build dispatcher: {e}"))?;
        Ok(Exec {
            cfg,
            timing,
            w,
            disp: Some(Arc::new(disp)),
            prefix,
            kinds: Vec::new(),
            accepted: Vec::new(),
            gate_open: Vec::new(),
            rx: Vec::new(),
            rxres: Vec::new(),
            rxwaker: Arc::new(CountWaker::default()),
            join: None,
            joinst: JoinSt::NotStarted,
            joinwaker: Arc::new(CountWaker::default()),
            hung_at_join: Vec::new(),
            join_checked: false,
            res: ExecResult::default(),
            aborted: false,
        })
    }

    fn vio(&mut self, key: &str, what: String) {
        let key = format!("{}:{}", if self.cfg.dead_workers { "deadworkers" } else if self.cfg.concurrent { "concurrent" } else { "sequential" }, key);
        if !self.res.vios.iter().any(|(k, _)| *k == key) {
            let hist = self.res.hist.join(" ; ");
            self.res.vios.push((key, format!("{what} -- configuration {} -- history: {hist}", self.cfg.label())));
        }
    }

    fn n(&self) -> usize {
        self.kinds.len()
    }

    fn started(&self, t: usize) -> u32 {
        self.w.tasks[t].starts.load(Ordering::SeqCst)
    }

    fn finished(&self, t: usize) -> bool {
        self.w.tasks[t].finished.load(Ordering::SeqCst)
    }

    fn dropped(&self, t: usize) -> bool {
        self.w.tasks[t].dropped.load(Ordering::SeqCst)
    }

    fn joined(&self) -> bool {
        self.joinst != JoinSt::NotStarted
    }

    /// poll the join future and every unresolved receiver once (pure observation)
    fn sweep(&mut self) {
        if let Some(j) = self.join.as_mut() {
            let r = std::panic::catch_unwind(AssertUnwindSafe(|| util::poll_once(j.as_mut(), &self.joinwaker)));
            match r {
                Ok(Poll::Pending) => {}
                Ok(Poll::Ready(Ok(()))) => {
                    self.joinst = JoinSt::Ok;
                    self.join = None;
                }
                Ok(Poll::Ready(Err(e))) => {
                    self.joinst = JoinSt::Err(e.to_string());
                    self.join = None;
                }
                Err(p) => {
                    self.joinst = JoinSt::Panicked(payload_text(p));
                    self.join = None;
                }
            }
        }
        let join_returned = matches!(self.joinst, JoinSt::Ok | JoinSt::Err(_) | JoinSt::Panicked(_));
        for t in 0..self.n() {
            if let Some(rx) = self.rx[t].as_mut() {
                match util::poll_once(Pin::new(rx), &self.rxwaker) {
                    Poll::Pending => {}
                    Poll::Ready(Ok(v)) => {
                        self.rxres[t] = Rx::Ok(v);
                        self.rx[t] = None;
                    }
                    Poll::Ready(Err(_)) => {
                        self.rxres[t] = Rx::Canceled;
                        self.rx[t] = None;
                    }
                }
            }
        }
        if join_returned && !self.join_checked {
            // the instant join was seen to have returned: nothing may be outstanding any more
            self.join_checked = true;
            self.hung_at_join = (0..self.n()).filter(|&t| self.accepted[t] && self.rxres[t] == Rx::Pending).collect();
            self.check_join_return();
        }
    }

    fn blocked_threads(&self) -> BTreeSet<u64> {
        let mut s = BTreeSet::new();
        for t in 0..self.n() {
            if self.kinds[t] == Kind::Block && self.started(t) >= 1 && !self.gate_open[t] && !self.finished(t) {
                s.insert(self.w.tasks[t].thread.load(Ordering::SeqCst));
            }
        }
        s
    }

    fn done_count(&self) -> usize {
        (0..self.n()).filter(|&t| self.finished(t) || self.dropped(t)).count()
    }

    fn started_count(&self) -> usize {
        (0..self.n()).filter(|&t| self.started(t) >= 1).count()
    }

    fn accepted_count(&self) -> usize {
        self.accepted.iter().filter(|a| **a).count()
    }

    /// What the specification promises to happen without any further harness step, and has not
    /// been observed yet. `None` = every promised effect has been observed.
    fn pending(&mut self) -> Option<String> {
        self.sweep();
        if self.cfg.dead_workers {
            if self.joined() && self.joinst == JoinSt::Pending {
                return Some("join to return (all workers are dead)".into());
            }
            return None;
        }
        let join_returned = matches!(self.joinst, JoinSt::Ok | JoinSt::Err(_) | JoinSt::Panicked(_));
        if join_returned {
            return None; // the world is frozen
        }
        let blocked = self.blocked_threads();
        for t in 0..self.n() {
            if !self.accepted[t] || self.started(t) == 0 {
                continue;
            }
            let ts = &self.w.tasks[t];
            if self.finished(t) || self.dropped(t) {
                if self.rxres[t] == Rx::Pending {
                    return Some(format!("receiver of task {t} to resolve (its body has ended)"));
                }
                continue;
            }
            if self.kinds[t] == Kind::Panic {
                return Some(format!("panicking task {t} to unwind"));
            }
            if self.gate_open[t] {
                let host = ts.thread.load(Ordering::SeqCst);
                if !blocked.contains(&host) {
                    return Some(format!("task {t} to run to completion (gate open, its worker is not blocked)"));
                }
            } else if !ts.gate.parked.load(Ordering::SeqCst) {
                return Some(format!("task {t} to reach its gate"));
            }
        }
        let acc = self.accepted_count();
        let started = self.started_count();
        if !self.cfg.concurrent {
            let expect = acc.min(self.done_count() + self.cfg.workers);
            if started < expect {
                return Some(format!("a queued task to be started by a free sequential worker (started {started}, expected {expect})"));
            }
        } else if !self.joined() && blocked.is_empty() && started < acc {
            return Some(format!("every accepted task to be started (no worker is blocked; started {started} of {acc})"));
        }
        if self.joinst == JoinSt::Pending {
            if !self.cfg.concurrent {
                if self.done_count() == acc {
                    return Some("join to return (sequential mode, every accepted task has finished)".into());
                }
            } else if blocked.is_empty() {
                return Some("join to return (concurrent mode, no worker is blocked)".into());
            }
        }
        None
    }

    fn fingerprint(&mut self) -> u64 {
        self.sweep();
        let mut h = 0u64;
        for t in 0..self.n() {
            let ts = &self.w.tasks[t];
            util::mix(&mut h, ts.starts.load(Ordering::SeqCst) as u64);
            util::mix(&mut h, ts.finished.load(Ordering::SeqCst) as u64);
            util::mix(&mut h, ts.dropped.load(Ordering::SeqCst) as u64);
            util::mix(&mut h, ts.gate.parked.load(Ordering::SeqCst) as u64);
            util::mix(&mut h, ts.gate.arrivals.load(Ordering::SeqCst));
            util::mix(
                &mut h,
                match self.rxres[t] {
                    Rx::Pending => 0,
                    Rx::Ok(_) => 1,
                    Rx::Canceled => 2,
                },
            );
        }
        util::mix(&mut h, self.w.max_gauge.load(Ordering::SeqCst) as u64);
        util::mix(&mut h, self.w.exitlog.exited.lock().unwrap().len() as u64);
        util::mix(&mut h, self.joinwaker.wakes.load(Ordering::SeqCst));
        util::mix(&mut h, matches!(self.joinst, JoinSt::Pending | JoinSt::NotStarted) as u64);
        h
    }

    fn settle(&mut self) -> bool {
        let timing = self.timing;
        // `settle` wants two closures over `self`; a RefCell keeps the borrow checker content
        let cell = std::cell::RefCell::new(&mut *self);
        let r = util::settle(&timing, || cell.borrow_mut().pending(), || cell.borrow_mut().fingerprint());
        match r {
            Settled::Ok => true,
            Settled::Expired(what) => {
                let class = what.split(" (").next().unwrap_or("").to_string();
                let class = class.chars().map(|c| if c.is_ascii_digit() { '#' } else { c }).collect::<String>().replace(' ', "-");
                self.vio(&format!("liveness:{class}"), format!("never happened within {:?}: {what}", timing.watchdog));
                self.aborted = true;
                false
            }
            Settled::Unstable => {
                self.res.machinery = Some("world did not become quiescent".into());
                self.aborted = true;
                false
            }
        }
    }

    /// exact checks at the instant join is seen to have returned
    fn check_join_return(&mut self) {
        let js = self.joinst.clone();
        if self.cfg.dead_workers {
            match js {
                JoinSt::Panicked(p) => {
                    self.res.hist.push(format!("join re-raised the worker panic ({p})"));
                    self.res.counters.push(("c18_worker_panic_propagated", 1));
                }
                other => self.vio("join:worker-panic-not-propagated", format!("every worker panicked at start-up but join returned {other:?}")),
            }
        } else {
            match js {
                JoinSt::Ok => {}
                other => self.vio("join:failed", format!("join returned {other:?} although no worker panicked")),
            }
        }
        // all worker threads that ever ran a body must have exited (thread-local destructor noted)
        let exited: BTreeSet<u64> = self.w.exitlog.exited.lock().unwrap().iter().copied().collect();
        let hosts: BTreeSet<u64> = (0..self.n()).filter(|&t| self.started(t) >= 1).map(|t| self.w.tasks[t].thread.load(Ordering::SeqCst)).collect();
        let alive: Vec<u64> = hosts.difference(&exited).copied().collect();
        if !alive.is_empty() {
            self.vio("join:returned-before-worker-exit", format!("join returned while {} worker thread(s) that ran tasks had not exited", alive.len()));
        }
        if !self.hung_at_join.is_empty() {
            let h = self.hung_at_join.clone();
            self.vio(
                "join:receiver-pending-after-join",
                format!("join returned but the receivers of tasks {h:?} neither yielded a value nor reported cancellation"),
            );
        }
        if !self.cfg.concurrent && !self.cfg.dead_workers {
            let unfinished: Vec<usize> = (0..self.n()).filter(|&t| self.accepted[t] && !(self.finished(t) || (self.kinds[t] == Kind::Panic && self.dropped(t)))).collect();
            if !unfinished.is_empty() {
                self.vio(
                    "join:sequential-returned-before-tasks-finished",
                    format!("sequential mode: join returned although accepted tasks {unfinished:?} had not finished"),
                );
            }
        }
    }

    /// safety checks valid in every quiescent state
    fn check(&mut self) {
        for t in 0..self.n() {
            let st = self.started(t);
            if st > 1 {
                self.vio("start:more-than-once", format!("task {t} was started {st} times"));
            }
            if !self.accepted[t] && st > 0 {
                self.vio("start:rejected-task-started", format!("task {t} was handed back by dispatch but was started"));
            }
            match self.rxres[t].clone() {
                Rx::Ok(v) => {
                    if v != token(self.w.uid, t) {
                        self.vio("result:foreign", format!("receiver of task {t} yielded {v:#x}, not its own token"));
                    }
                    if st != 1 || !self.finished(t) {
                        self.vio("result:without-completion", format!("receiver of task {t} yielded Ok although its body started {st} times, finished={}", self.finished(t)));
                    }
                }
                Rx::Canceled => {
                    if self.finished(t) {
                        self.vio("result:completed-task-cancelled", format!("task {t} ran to completion but its receiver reports cancellation"));
                    } else if !(self.joined() || (self.kinds[t] == Kind::Panic && st >= 1) || self.cfg.dead_workers) {
                        self.vio("result:cancelled-without-join", format!("receiver of task {t} reports cancellation although the dispatcher was not joined and the task did not panic"));
                    }
                }
                Rx::Pending => {}
            }
        }
        if !self.cfg.concurrent {
            let g = self.w.max_gauge.load(Ordering::SeqCst);
            if g > 1 {
                self.vio("sequential:overlap", format!("sequential mode: {g} task bodies were alive at once on one worker thread"));
            }
            let live = self.started_count().saturating_sub(self.done_count());
            if live > self.cfg.workers {
                self.vio("sequential:overlap", format!("sequential mode: {live} tasks in progress on {} workers", self.cfg.workers));
            }
        }
    }

    fn observe(&self) -> String {
        let mut s = String::new();
        for t in 0..self.n() {
            let st = self.started(t);
            let c = if !self.accepted[t] {
                'r'
            } else if self.finished(t) {
                'f'
            } else if self.dropped(t) {
                'x'
            } else if st >= 1 {
                's'
            } else {
                'q'
            };
            let r = match self.rxres[t] {
                Rx::Pending => 'p',
                Rx::Ok(_) => 'o',
                Rx::Canceled => 'c',
            };
            s.push(c);
            s.push(r);
            s.push(' ');
        }
        let j = match &self.joinst {
            JoinSt::NotStarted => "-",
            JoinSt::Pending => "jp",
            JoinSt::Ok => "jok",
            JoinSt::Err(_) => "jerr",
            JoinSt::Panicked(_) => "jpanic",
        };
        format!("[{}{}]", s, j)
    }

    fn do_step(&mut self, step: Step) {
        self.res.steps += 1;
        match step {
            Step::Dispatch(kind) => {
                let t = self.n();
                assert!(t < self.w.tasks.len());
                self.kinds.push(kind);
                self.gate_open.push(false);
                let w = self.w.clone();
                let disp = self.disp.as_ref().expect("dispatch after join").clone();
                let h = util::helpers();
                let job = move || {
                    let r = disp.dispatch(move || {
                        let mut guard = BodyGuard::enter(&w, t);
                        async move {
                            match kind {
                                Kind::Async => w.tasks[t].gate.wait_async().await,
                                Kind::Block => w.tasks[t].gate.wait_blocking(),
                                Kind::Panic => panic!("task body panics"),
                            }
                            guard.finish();
                            drop(guard);
                            token(w.uid, t)
                        }
                    });
                    drop(disp);
                    r.map_err(|_| ())
                };
                let r = if t % 2 == 0 { h.a.call(job) } else { h.b.call(job) };
                match r {
                    Ok(rx) => {
                        self.accepted.push(true);
                        self.rx.push(Some(rx));
                        self.rxres.push(Rx::Pending);
                    }
                    Err(()) => {
                        self.accepted.push(false);
                        self.rx.push(None);
                        self.rxres.push(Rx::Pending);
                        if !self.cfg.dead_workers {
                            self.vio("dispatch:rejected", format!("dispatch of task {t} was refused although workers are alive"));
                        }
                    }
                }
            }
            Step::Open(t) => {
                self.gate_open[t] = true;
                self.w.tasks[t].gate.open();
            }
            Step::Join => {
                let d = self.disp.take().expect("join twice");
                let d = match Arc::try_unwrap(d) {
                    Ok(d) => d,
                    Err(_) => {
                        self.res.machinery = Some("dispatcher still shared at join".into());
                        self.aborted = true;
                        return;
                    }
                };
                self.join = Some(Box::pin(d.join()));
                self.joinst = JoinSt::Pending;
            }
        }
    }

    fn step(&mut self, step: Step) -> bool {
        self.do_step(step);
        if self.aborted {
            return false;
        }
        let ok = self.settle();
        let o = self.observe();
        self.res.hist.push(format!("{} {}", step.code(), o));
        self.check();
        ok && !self.aborted
    }

    fn wait_workers_dead(&mut self) -> bool {
        // a freshly spawned thread names itself: it may not be visible under its name yet. Wait
        // until the workers have been seen (or 50 ms passed), then until none is left.
        let start = Instant::now();
        let mut seen = false;
        loop {
            let live = util::live_threads_with_prefix(&self.prefix);
            if !live.is_empty() {
                seen = true;
            } else if seen || start.elapsed() > Duration::from_millis(50) {
                return true;
            }
            if start.elapsed() > self.timing.watchdog {
                self.res.machinery = Some("dead-workers family: workers did not die".into());
                return false;
            }
            std::thread::sleep(Duration::from_micros(200));
        }
    }

    fn finale(&mut self) {
        if self.aborted {
            return;
        }
        if !self.joined() && !self.step(Step::Join) {
            return;
        }
        for t in 0..self.n() {
            if !self.gate_open[t] && self.kinds[t] != Kind::Panic && !self.step(Step::Open(t)) {
                return;
            }
        }
        // every gate is open and join was started: the model promises that join returns
        if self.joinst == JoinSt::Pending {
            self.vio("liveness:join-to-return", "every gate is open, yet join has not returned after settling".into());
            return;
        }
        // frozen world: the worker threads are gone
        let start = Instant::now();
        loop {
            let live = util::live_threads_with_prefix(&self.prefix);
            if live.is_empty() {
                break;
            }
            if start.elapsed() > Duration::from_secs(2) {
                self.vio("join:returned-before-worker-exit", format!("2 s after join returned the worker threads {live:?} still exist"));
                break;
            }
            std::thread::sleep(Duration::from_micros(200));
        }
        self.sweep();
        self.check();
        for t in 0..self.n() {
            if self.accepted[t] && self.rxres[t] == Rx::Pending {
                self.vio("join:receiver-pending-after-join", format!("receiver of task {t} is still pending after join returned and all workers exited"));
            }
        }
    }

    fn cleanup(&mut self) {
        for t in 0..self.w.tasks.len() {
            self.w.tasks[t].gate.open();
        }
        self.join = None;
        self.disp = None;
    }

    fn signature(&self) -> String {
        let mut parts: Vec<String> = Vec::new();
        for t in 0..self.n() {
            let st = if self.started(t) >= 1 { "s" } else { "n" };
            let r = match self.rxres[t] {
                Rx::Pending => "pend",
                Rx::Ok(_) => "ok",
                Rx::Canceled => "canc",
            };
            parts.push(format!("{}{}{}", self.kinds[t].code(), st, r));
        }
        let j = match &self.joinst {
            JoinSt::NotStarted => "nojoin",
            JoinSt::Pending => "joinpending",
            JoinSt::Ok => "joinok",
            JoinSt::Err(_) => "joinerr",
            JoinSt::Panicked(_) => "joinpanic",
        };
        if parts.len() > 8 {
            // bulk runs: summarise by class counts
            let mut m = std::collections::BTreeMap::new();
            for p in parts {
                *m.entry(p).or_insert(0u32) += 1;
            }
            return format!("{}|{:?}|{}", self.cfg.label(), m, j);
        }
        format!("{}|{}|{}", self.cfg.label(), parts.join(","), j)
    }

    fn tally(&mut self) {
        let mut ok = 0;
        let mut canc_started = 0;
        let mut canc_never = 0;
        for t in 0..self.n() {
            match self.rxres[t] {
                Rx::Ok(_) => ok += 1,
                Rx::Canceled => {
                    if self.started(t) >= 1 {
                        canc_started += 1
                    } else {
                        canc_never += 1
                    }
                }
                Rx::Pending => {}
            }
        }
        self.res.counters.push(("c18_results_ok", ok));
        self.res.counters.push(("c18_cancelled_after_start", canc_started));
        self.res.counters.push(("c18_cancelled_never_started", canc_never));
        if self.joinst == JoinSt::Ok {
            self.res.counters.push(("c18_join_returned_ok", 1));
        }
        if self.accepted.iter().any(|a| !a) {
            self.res.counters.push(("c18_dispatch_rejected", 1));
        }
    }
}

/// Run `steps` (then the canonical finale: join if not joined, open every gate, wait for join)
/// on a fresh dispatcher.
pub fn execute(cfg: &Cfg, steps: &[Step], timing: Timing) -> ExecResult {
    let max_tasks = steps.iter().filter(|s| matches!(s, Step::Dispatch(_))).count().max(1);
    let mut ex = match Exec::new(cfg, timing, max_tasks) {
        Ok(e) => e,
        Err(m) => {
            return ExecResult { machinery: Some(m), ..Default::default() };
        }
    };
    let mut ok = true;
    if cfg.dead_workers {
        ok = ex.wait_workers_dead();
    }
    if ok {
        for s in steps {
            if !ex.step(*s) {
                break;
            }
        }
        ex.finale();
    }
    ex.tally();
    ex.res.sig = ex.signature();
    ex.cleanup();
    let mut res = std::mem::take(&mut ex.res);
    drop(ex);
    res.hist.shrink_to_fit();
    res
}

// ---------------------------------------------------------------------------------------------
// Enumeration
// ---------------------------------------------------------------------------------------------

pub struct Family {
    pub name: &'static str,
    pub depth: usize,
    pub max_tasks: usize,
    pub kinds: Vec<Kind>,
    /// at most this many panicking tasks per sequence
    pub max_panics: usize,
    pub cfgs: Vec<Cfg>,
}

/// Harness-side state that decides which steps are enabled (never depends on observations).
fn enabled(f: &Family, hist: &[Step], pos: usize) -> Vec<Step> {
    let mut kinds = Vec::new();
    let mut open = Vec::new();
    let mut joined = false;
    for s in hist {
        match s {
            Step::Dispatch(k) => {
                kinds.push(*k);
                open.push(false);
            }
            Step::Open(t) => open[*t] = true,
            Step::Join => joined = true,
        }
    }
    let mut v = Vec::new();
    if !joined && kinds.len() < f.max_tasks {
        let panics = kinds.iter().filter(|k| **k == Kind::Panic).count();
        for k in &f.kinds {
            if *k == Kind::Panic && panics >= f.max_panics {
                continue;
            }
            v.push(Step::Dispatch(*k));
        }
    }
    for t in 0..kinds.len() {
        if !open[t] && kinds[t] != Kind::Panic {
            v.push(Step::Open(t));
        }
    }
    // a Join at the very last position is what the finale does anyway
    if !joined && pos + 1 < f.depth {
        v.push(Step::Join);
    }
    v
}

/// All step sequences of the family up to its depth ("stop here" is an alternative at every
/// position), as (choice list, steps).
pub fn sequences(f: &Family) -> Vec<(Vec<u32>, Vec<Step>)> {
    let mut out = Vec::new();
    vcore::explore(0, u64::MAX, |ch| {
        let mut hist: Vec<Step> = Vec::new();
        for pos in 0..f.depth {
            let en = enabled(f, &hist, pos);
            // alternative 0 = stop here
            let c = ch.pick(en.len() + 1);
            if c == 0 {
                break;
            }
            hist.push(en[c - 1]);
        }
        out.push((ch.choices(), hist));
        true
    });
    out
}

#[allow(dead_code)]
pub fn steps_from_choices(f: &Family, choices: &[u32]) -> Option<Vec<Step>> {
    let mut hist = Vec::new();
    for (pos, &c) in choices.iter().enumerate() {
        if pos >= f.depth {
            return None;
        }
        let en = enabled(f, &hist, pos);
        if c == 0 {
            break;
        }
        hist.push(*en.get(c as usize - 1)?);
    }
    Some(hist)
}

fn cfgs(family: &str, drvs: &[Drv]) -> Vec<Cfg> {
    let forced = match std::env::var("E_C18_DRIVER").ok().as_deref() {
        Some("iour") => Some([Drv::IoUring]),
        Some("poll") => Some([Drv::Poll]),
        _ => None,
    };
    let drvs: &[Drv] = match &forced {
        Some(f) => f,
        None => drvs,
    };
    let mut v = Vec::new();
    for &workers in &[1usize, 2] {
        for &concurrent in &[true, false] {
            for &drv in drvs {
                v.push(Cfg { family: family.into(), workers, concurrent, drv, dead_workers: false });
            }
        }
    }
    v
}

pub fn families(tier: vcore::Tier) -> Vec<Family> {
    let quick = tier == vcore::Tier::Quick;
    let mut v = Vec::new();
    v.push(Family {
        name: "main",
        depth: if quick { 6 } else { 8 },
        max_tasks: if quick { 3 } else { 4 },
        kinds: vec![Kind::Async, Kind::Block],
        max_panics: 0,
        cfgs: cfgs("main", if quick { &[Drv::IoUring] } else { &[Drv::IoUring, Drv::Poll] }),
    });
    v.push(Family {
        name: "panic",
        depth: if quick { 5 } else { 6 },
        max_tasks: 3,
        kinds: vec![Kind::Async, Kind::Panic],
        max_panics: 1,
        cfgs: cfgs("panic", &[Drv::IoUring]),
    });
    v.push(Family {
        name: "wide",
        depth: if quick { 5 } else { 7 },
        max_tasks: 4,
        kinds: vec![Kind::Async],
        max_panics: 0,
        cfgs: cfgs("wide", if quick { &[Drv::Poll] } else { &[Drv::IoUring, Drv::Poll] }),
    });
    v
}

/// The scripted 70-task programs (more than one executor tick's `max_interval` = 61 tasks queued
/// when the dispatcher is joined).
pub fn bulk_programs() -> Vec<(Cfg, String, Vec<Step>)> {
    let mut v = Vec::new();
    const N: usize = 70;
    for &workers in &[1usize, 2] {
        for &concurrent in &[true, false] {
            for &blockers in &[true, false] {
                for &preopen in &[true, false] {
                    for &join_first in &[true, false] {
                        let cfg = Cfg { family: "bulk70".into(), workers, concurrent, drv: Drv::IoUring, dead_workers: false };
                        let nb = if blockers { workers } else { 0 };
                        let mut steps = Vec::new();
                        for t in 0..N {
                            steps.push(Step::Dispatch(if t < nb { Kind::Block } else { Kind::Async }));
                        }
                        let opens: Vec<Step> = (nb..N).map(Step::Open).collect();
                        if preopen && !join_first {
                            steps.extend(opens.iter().copied());
                        }
                        steps.push(Step::Join);
                        if preopen && join_first {
                            steps.extend(opens.iter().copied());
                        }
                        // the finale opens the remaining gates in index order (blockers first)
                        let name = format!(
                            "blockers={nb},async-gates={},{}",
                            if preopen { "opened" } else { "closed" },
                            if join_first { "join-then-open" } else { "open-then-join" }
                        );
                        if !preopen && join_first {
                            continue; // same program as open-then-join with closed gates
                        }
                        v.push((cfg, name, steps));
                    }
                }
            }
        }
    }
    v
}

pub fn dead_worker_programs() -> Vec<(Cfg, Vec<Step>)> {
    let mut v = Vec::new();
    for &workers in &[1usize, 2] {
        for &concurrent in &[true, false] {
            let cfg = Cfg { family: "deadworkers".into(), workers, concurrent, drv: Drv::IoUring, dead_workers: true };
            v.push((cfg.clone(), vec![Step::Join]));
            v.push((cfg.clone(), vec![Step::Dispatch(Kind::Async), Step::Join]));
            v.push((cfg.clone(), vec![Step::Dispatch(Kind::Async), Step::Dispatch(Kind::Block), Step::Join]));
        }
    }
    v
}
