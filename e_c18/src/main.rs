//! e_c18 — gated serialized-step explorer (DESIGN.md engine E4) for
//!   C18 (compio-dispatcher) and C19 (compio-actor).
//!
//! `e_c18 <C18|C19> <quick|thorough> [--replay file]`
//! `e_c18 --count`   number of sequences per family (no execution)
mod c18;
mod c19;
mod c19m;
mod util;

use std::{
    collections::{BTreeMap, BTreeSet},
    sync::{
        Mutex,
        atomic::{AtomicBool, Ordering},
    },
    time::Duration,
};

use util::{ExecResult, Timing};
use vcore::{Report, Tier, Value, Violation, json};

pub fn timing(tier: Tier) -> Timing {
    Timing {
        watchdog: Duration::from_secs(tier.pick(4, 8)),
        stable_n: tier.pick(2, 4),
        stable_gap: Duration::from_micros(tier.pick(100, 200)),
    }
}

/// One unit of work: a label, the replay value, and how to run it.
pub struct Item {
    pub label: String,
    pub replay: Value,
    pub run: Box<dyn Fn() -> ExecResult + Send + Sync>,
}

/// Everything a (part of an) exploration produced; serialisable, because the work is sharded over
/// sub-processes (thread creation and io_uring set-up contend badly inside one address space).
#[derive(Default)]
pub struct Agg {
    executions: u64,
    steps: u64,
    outcomes: BTreeSet<String>,
    counters: BTreeMap<String, u64>,
    samples: Vec<Value>,
    /// key -> (what, replay, occurrences)
    violations: BTreeMap<String, (String, Value, u64)>,
    machinery: Vec<String>,
    nondet: Vec<String>,
    skipped: u64,
    stopped: bool,
    time_capped: bool,
}

impl Agg {
    fn to_json(&self) -> Value {
        json!({
            "executions": self.executions, "steps": self.steps,
            "outcomes": self.outcomes.iter().collect::<Vec<_>>(),
            "counters": self.counters, "samples": self.samples,
            "violations": self.violations.iter().map(|(k, (w, r, c))| json!({"key": k, "what": w, "replay": r, "count": c})).collect::<Vec<_>>(),
            "machinery": self.machinery, "nondet": self.nondet, "skipped": self.skipped, "stopped": self.stopped, "time_capped": self.time_capped,
        })
    }

    fn merge_json(&mut self, v: &Value) {
        let strs = |x: &Value| -> Vec<String> { x.as_array().map(|a| a.iter().filter_map(|s| s.as_str().map(str::to_string)).collect()).unwrap_or_default() };
        self.executions += v["executions"].as_u64().unwrap_or(0);
        self.steps += v["steps"].as_u64().unwrap_or(0);
        self.outcomes.extend(strs(&v["outcomes"]));
        if let Some(o) = v["counters"].as_object() {
            for (k, n) in o {
                *self.counters.entry(k.clone()).or_insert(0) += n.as_u64().unwrap_or(0);
            }
        }
        if let Some(a) = v["samples"].as_array() {
            for x in a {
                if self.samples.len() < 6 {
                    self.samples.push(x.clone());
                }
            }
        }
        if let Some(a) = v["violations"].as_array() {
            for x in a {
                let key = x["key"].as_str().unwrap_or("").to_string();
                let e = self.violations.entry(key).or_insert_with(|| (x["what"].as_str().unwrap_or("").to_string(), x["replay"].clone(), 0));
                e.2 += x["count"].as_u64().unwrap_or(1);
                // keep the shortest failing history as the representative
                let len = |r: &Value| r["steps"].as_array().map(|a| a.len()).unwrap_or(usize::MAX);
                if len(&x["replay"]) < len(&e.1) {
                    e.0 = x["what"].as_str().unwrap_or("").to_string();
                    e.1 = x["replay"].clone();
                }
            }
        }
        self.machinery.extend(strs(&v["machinery"]));
        self.nondet.extend(strs(&v["nondet"]));
        self.skipped += v["skipped"].as_u64().unwrap_or(0);
        self.stopped |= v["stopped"].as_bool().unwrap_or(false);
        self.time_capped |= v["time_capped"].as_bool().unwrap_or(false);
    }
}

pub struct Driver {
    /// where the aggregate is saved whenever a new violation class is confirmed (a violating
    /// execution can leave threads of the code under test behind that abort the process later)
    pub partial: Option<std::path::PathBuf>,
    pub agg: Mutex<Agg>,
    pub stop: AtomicBool,
    /// wall-clock cap of the exploration (a hit cap is reported, never passed off as exhaustive)
    pub deadline: std::time::Instant,
}

impl Driver {
    pub fn new(budget: Duration) -> Self {
        Driver { partial: None, agg: Mutex::new(Agg::default()), stop: AtomicBool::new(false), deadline: std::time::Instant::now() + budget }
    }

    /// run the items with index = shard (mod nshards) on this process's threads
    pub fn run_items(&self, items: &[Item], shard: usize, nshards: usize) {
        let mine: Vec<&Item> = items.iter().enumerate().filter(|(i, _)| i % nshards == shard).map(|(_, it)| it).collect();
        let journal = std::env::var_os("E_C18_INFLIGHT_DIR").map(std::path::PathBuf::from);
        let seq = std::sync::atomic::AtomicU64::new(0);
        vcore::par_for_each(&mine, |_, it| {
            // in-flight journal: if this process dies inside an execution (abort, double panic in
            // the code under test), the parent learns which sequences were running
            let mark = journal.as_ref().map(|d| d.join(format!("inflight-{shard}-{}", seq.fetch_add(1, Ordering::SeqCst))));
            if let Some(m) = &mark {
                let _ = std::fs::write(m, it.label.as_bytes());
            }
            struct Unmark(Option<std::path::PathBuf>);
            impl Drop for Unmark {
                fn drop(&mut self) {
                    if let Some(m) = &self.0 {
                        let _ = std::fs::remove_file(m);
                    }
                }
            }
            let _unmark = Unmark(mark);
            if self.stop.load(Ordering::SeqCst) {
                self.agg.lock().unwrap().skipped += 1;
                return;
            }
            if std::time::Instant::now() > self.deadline {
                let mut a = self.agg.lock().unwrap();
                a.skipped += 1;
                a.time_capped = true;
                return;
            }
            // "did not become quiescent" is the harness's own settling giving up (the fingerprint
            // kept changing for 64 rounds: other processes starving the worker threads); the
            // execution is simply repeated, up to three times, before it counts as a machinery failure
            let mut res = (it.run)();
            for _ in 0..3 {
                if !res.machinery.as_deref().is_some_and(|m| m.contains("quiescent")) {
                    break;
                }
                self.agg.lock().unwrap().counters.entry("executions_repeated_after_unstable_settle".into()).and_modify(|n| *n += 1).or_insert(1);
                std::thread::sleep(Duration::from_millis(50));
                res = (it.run)();
            }
            self.process(it, res);
            util::drop_helpers_if_idle();
        });
    }

    fn process(&self, it: &Item, res: ExecResult) {
        if let Some(m) = &res.machinery {
            self.agg.lock().unwrap().machinery.push(format!("{}: {m}", it.label));
            return;
        }
        {
            let mut a = self.agg.lock().unwrap();
            a.executions += 1;
            a.steps += res.steps;
            if a.outcomes.len() < 100_000 {
                a.outcomes.insert(res.sig.clone());
            }
            for (k, n) in &res.counters {
                if *n > 0 {
                    *a.counters.entry(k.to_string()).or_insert(0) += *n;
                }
            }
            if a.samples.len() < 6 && res.vios.is_empty() {
                a.samples.push(json!({"item": it.label, "history": res.hist, "signature": res.sig}));
            }
        }
        if res.vios.is_empty() {
            return;
        }
        // every violation is re-executed twice from its recorded steps before it is reported
        let known_already = {
            let a = self.agg.lock().unwrap();
            res.vios.iter().all(|(k, _)| a.violations.contains_key(k))
        };
        let again: Vec<ExecResult> = if known_already { Vec::new() } else { (0..2).map(|_| (it.run)()).collect() };
        for (key, what) in &res.vios {
            {
                // a class that was already confirmed by re-execution is only counted
                let mut a = self.agg.lock().unwrap();
                if let Some(e) = a.violations.get_mut(key) {
                    e.2 += 1;
                    let len = |r: &Value| r["steps"].as_array().map(|a| a.len()).unwrap_or(usize::MAX);
                    if len(&it.replay) < len(&e.1) {
                        e.0 = what.clone();
                        e.1 = it.replay.clone();
                    }
                    continue;
                }
            }
            let reproduced = again.iter().all(|r| r.machinery.is_none() && r.vios.iter().any(|(k, _)| k == key));
            let mut a = self.agg.lock().unwrap();
            if reproduced {
                let len = |r: &Value| r["steps"].as_array().map(|a| a.len()).unwrap_or(usize::MAX);
                let e = a.violations.entry(key.clone()).or_insert_with(|| (what.clone(), it.replay.clone(), 0));
                e.2 += 1;
                if len(&it.replay) < len(&e.1) {
                    e.0 = what.clone();
                    e.1 = it.replay.clone();
                }
                if let Some(p) = &self.partial {
                    let _ = std::fs::write(p, vcore::serde_json::to_vec(&a.to_json()).unwrap_or_default());
                }
                if key.contains(":liveness:") {
                    // each further occurrence costs three watchdog periods: stop exploring
                    self.stop.store(true, Ordering::SeqCst);
                    a.stopped = true;
                }
            } else {
                a.nondet.push(format!("{}: {key} did not reproduce in 2 re-executions ({what})", it.label));
            }
        }
    }
}

fn tmp_dir() -> std::path::PathBuf {
    let base = std::env::var_os("TMPDIR").map(std::path::PathBuf::from).unwrap_or_else(|| "/tmp".into());
    base.join(format!("e_c18-{}", std::process::id()))
}

/// Runs all items (sharded over sub-processes unless told otherwise), fills the report, finishes.
fn explore_and_finish(report: Report, prop: &str, tier: Tier, items: Vec<Item>, shard: Option<(usize, usize, std::path::PathBuf)>) -> ! {
    let items: Vec<Item> = match std::env::var("E_C18_ONLY") {
        Ok(f) if !f.is_empty() => items.into_iter().filter(|i| i.label.contains(&f)).collect(),
        _ => items,
    };
    let items: Vec<Item> = match std::env::var("E_C18_EXACT") {
        Ok(f) if !f.is_empty() => items.into_iter().filter(|i| i.label == f).collect(),
        _ => items,
    };
    let budget_s: u64 = std::env::var("E_C18_BUDGET_S").ok().and_then(|s| s.parse().ok()).unwrap_or(tier.pick(38, 14 * 60));
    let budget = Duration::from_secs(budget_s);
    if let Some((i, k, out)) = shard {
        // sub-process: run one shard, write the aggregate, exit
        let mut d = Driver::new(budget);
        d.partial = Some(out.with_extension("partial"));
        d.run_items(&items, i, k);
        util::drop_helpers();
        let a = d.agg.into_inner().unwrap();
        std::fs::write(&out, vcore::serde_json::to_vec(&a.to_json()).unwrap()).unwrap_or_else(|e| vcore::machinery_error(&format!("cannot write {out:?}: {e}")));
        std::process::exit(0);
    }
    let items: Vec<Item> = match std::env::var("E_C18_ONLY") {
        Ok(f) if !f.is_empty() => items.into_iter().filter(|i| i.label.contains(&f)).collect(),
        _ => items,
    };
    let threads = vcore::threads();
    let nproc: usize = std::env::var("E_C18_PROCS").ok().and_then(|s| s.parse().ok()).unwrap_or_else(|| (threads / 2).clamp(1, 8));
    let mut agg = Agg::default();
    let mut shards_died = 0u64;
    if nproc <= 1 {
        let d = Driver::new(budget);
        d.run_items(&items, 0, 1);
        util::drop_helpers();
        agg = d.agg.into_inner().unwrap();
    } else {
        let dir = tmp_dir();
        std::fs::create_dir_all(&dir).unwrap_or_else(|e| vcore::machinery_error(&format!("cannot create {dir:?}: {e}")));
        let exe = std::env::current_exe().unwrap_or_else(|e| vcore::machinery_error(&format!("current_exe: {e}")));
        // the executions are latency-bound (cross-thread hand-offs), not CPU-bound: oversubscribe
        let over: usize = std::env::var("E_C18_OVERSUB").ok().and_then(|s| s.parse().ok()).unwrap_or(2);
        let per = (threads * over).div_ceil(nproc).max(1);
        let mut kids = Vec::new();
        for i in 0..nproc {
            let out = dir.join(format!("shard{i}.json"));
            let child = std::process::Command::new(&exe)
                .arg(prop)
                .arg(tier.name())
                .arg("--shard")
                .arg(format!("{i}/{nproc}"))
                .arg("--out")
                .arg(&out)
                .env("VERIF_THREADS", per.to_string())
                .env("E_C18_INFLIGHT_DIR", &dir)
                .env("E_C18_BUDGET_S", budget_s.saturating_sub(report.elapsed() as u64).max(1).to_string())
                .spawn()
                .unwrap_or_else(|e| vcore::machinery_error(&format!("cannot start shard {i}: {e}")));
            kids.push((child, out));
        }
        let mut failed = Vec::new();
        for (i, (mut c, out)) in kids.into_iter().enumerate() {
            let st = c.wait();
            match (st, std::fs::read(&out)) {
                (Ok(s), Ok(bytes)) if s.success() => match vcore::serde_json::from_slice::<Value>(&bytes) {
                    Ok(v) => agg.merge_json(&v),
                    Err(e) => failed.push(format!("shard {i}: bad aggregate: {e}")),
                },
                (st, _) => {
                    // The shard died inside an execution. The sequences it was running are in the
                    // journal: each is re-run twice in a process of its own; a sequence that kills
                    // its process both times is a violation (the code under test aborted), with
                    // that sequence as the replay. A death nobody reproduces is a machinery failure.
                    let mut labels: Vec<String> = Vec::new();
                    if let Ok(rd) = std::fs::read_dir(&dir) {
                        for e in rd.flatten() {
                            if e.file_name().to_string_lossy().starts_with(&format!("inflight-{i}-")) {
                                if let Ok(l) = std::fs::read_to_string(e.path()) {
                                    labels.push(l);
                                }
                                let _ = std::fs::remove_file(e.path());
                            }
                        }
                    }
                    labels.sort();
                    let mut attributed = 0;
                    // violations the shard had confirmed before it died
                    if let Ok(bytes) = std::fs::read(out.with_extension("partial")) {
                        if let Ok(v) = vcore::serde_json::from_slice::<Value>(&bytes) {
                            attributed += v["violations"].as_array().map(|a| a.len()).unwrap_or(0);
                            agg.merge_json(&v);
                        }
                    }
                    for l in labels.iter().take(64) {
                        let mut deaths = Vec::new();
                        for round in 0..2 {
                            let out1 = dir.join(format!("single-{i}-{round}.json"));
                            let r = std::process::Command::new(&exe)
                                .arg(prop)
                                .arg(tier.name())
                                .arg("--shard")
                                .arg("0/1")
                                .arg("--out")
                                .arg(&out1)
                                .env("VERIF_THREADS", "1")
                                .env("E_C18_EXACT", l)
                                .env_remove("E_C18_INFLIGHT_DIR")
                                .stderr(std::process::Stdio::null())
                                .status();
                            match r {
                                Ok(s1) if s1.success() => {
                                    if let Ok(bytes) = std::fs::read(&out1) {
                                        if let Ok(v) = vcore::serde_json::from_slice::<Value>(&bytes) {
                                            if round == 0 {
                                                agg.merge_json(&v);
                                            }
                                        }
                                    }
                                }
                                Ok(s1) => deaths.push(format!("{s1:?}")),
                                Err(e) => failed.push(format!("cannot re-run {l}: {e}")),
                            }
                        }
                        if deaths.len() == 2 {
                            attributed += 1;
                            let family = l.split([':', ' ']).next().unwrap_or("?").to_string();
                            let replay = items.iter().find(|it| &it.label == l).map(|it| it.replay.clone()).unwrap_or(Value::Null);
                            let e = agg
                                .violations
                                .entry(format!("{family}:process-aborted"))
                                .or_insert_with(|| (format!("the process executing this sequence died ({}), twice more when re-run alone: a panic that cannot unwind or an abort inside the code under test -- {l}", deaths[0]), replay, 0));
                            e.2 += 1;
                        }
                    }
                    if attributed == 0 {
                        failed.push(format!("shard {i} failed: {st:?} (in flight: {} sequences, none dies when re-run alone)", labels.len()));
                    } else {
                        shards_died += 1;
                        eprintln!("note: shard {i} died ({st:?}) with {attributed} confirmed violation class(es) / in-flight sequences that die when re-run alone; the rest of that shard was not executed");
                    }
                }
            }
        }
        let _ = std::fs::remove_dir_all(&dir);
        if !failed.is_empty() {
            if agg.violations.is_empty() {
                vcore::machinery_error(&failed.join("; "));
            }
            // other worker processes confirmed violations: those are the verdict; a process that
            // died before it could confirm anything (threads left behind by a violating execution
            // abort it) only means that its share of the sequences was not executed
            for f in failed.iter().take(8) {
                eprintln!("note: {f}");
            }
            shards_died += failed.len() as u64;
        }
        report.extra("processes", json!({"shards": nproc, "threads_per_shard": per}));
    }
    // into the report
    report.evaluations.fetch_add(agg.executions, Ordering::Relaxed);
    report.traces_validated.fetch_add(agg.executions, Ordering::Relaxed);
    report.transitions.fetch_add(agg.steps, Ordering::Relaxed);
    for o in &agg.outcomes {
        report.outcome(o.clone());
    }
    for (k, n) in &agg.counters {
        report.count(k, *n);
    }
    for smp in agg.samples.iter().cloned() {
        report.sample(6, move || smp);
    }
    for (key, (what, replay, count)) in &agg.violations {
        for _ in 0..(*count).min(100_000) {
            report.violation(Violation { key: key.clone(), what: what.clone(), replay: replay.clone() });
        }
    }
    if agg.stopped {
        report.cap_hit("exploration stopped early after a confirmed liveness violation (every further occurrence costs three watchdog periods)");
    }
    if shards_died > 0 {
        report.cap_hit(&format!("{shards_died} worker process(es) died inside an execution (reported as a violation); the sequences they had not yet run were not executed"));
    }
    if agg.time_capped {
        report.cap_hit(&format!("wall-clock cap of {budget_s} s reached: {} of the enumerated sequences were not executed", agg.skipped));
    }
    if agg.skipped > 0 {
        report.count("executions_skipped_after_stop", agg.skipped);
    }
    if !agg.machinery.is_empty() {
        for x in agg.machinery.iter().take(5) {
            eprintln!("MACHINERY-ERROR: {x}");
        }
        vcore::machinery_error(&format!("{} execution(s) failed for machinery reasons", agg.machinery.len()));
    }
    if !agg.nondet.is_empty() {
        for x in agg.nondet.iter().take(5) {
            eprintln!("NONDETERMINISM: {x}");
        }
        // A candidate that does not reproduce in two immediate re-executions of the same sequence is
        // not a verdict (the watchdogs are real time on a shared machine): recorded, never reported.
        // reproducible violations exist: they are the verdict; the unreproducible candidates are recorded
        report.count("violation_candidates_not_reproduced", agg.nondet.len() as u64);
        report.extra("nondeterministic_candidates", json!(agg.nondet.iter().take(10).collect::<Vec<_>>()));
    }
    report.finish()
}

fn run_c18(tier: Tier, shard: Shard) -> ! {
    let report = Report::new("C18", tier);
    let tm = timing(tier);
    let mut items: Vec<Item> = Vec::new();
    let mut bounds = serde_map();
    for f in c18::families(tier) {
        let seqs = c18::sequences(&f);
        bounds.insert(
            f.name.to_string(),
            json!({"depth": f.depth, "max_tasks": f.max_tasks, "task_kinds": f.kinds.iter().map(|k| format!("{k:?}")).collect::<Vec<_>>(),
                   "sequences": seqs.len(), "configurations": f.cfgs.iter().map(|c| c.label()).collect::<Vec<_>>()}),
        );
        for cfg in &f.cfgs {
            for (choices, steps) in &seqs {
                let cfg2 = cfg.clone();
                let steps2 = steps.clone();
                let codes: Vec<String> = steps.iter().map(|s| s.code()).collect();
                items.push(Item {
                    label: format!("{} {}", cfg.label(), codes.join(",")),
                    replay: json!({"engine": "e_c18", "property": "C18", "cfg": cfg.to_json(), "choices": choices, "steps": codes, "tier": tier.name()}),
                    run: Box::new(move || c18::execute(&cfg2, &steps2, tm)),
                });
            }
        }
    }
    let bulk = c18::bulk_programs();
    bounds.insert("bulk70".into(), json!({"tasks": 70, "programs": bulk.len()}));
    for (cfg, name, steps) in bulk {
        let codes: Vec<String> = steps.iter().map(|s| s.code()).collect();
        let cfg2 = cfg.clone();
        items.push(Item {
            label: format!("{} {}", cfg.label(), name),
            replay: json!({"engine": "e_c18", "property": "C18", "cfg": cfg.to_json(), "steps": codes, "tier": tier.name()}),
            run: Box::new(move || c18::execute(&cfg2, &steps, tm)),
        });
    }
    let dead = c18::dead_worker_programs();
    bounds.insert("deadworkers".into(), json!({"programs": dead.len()}));
    for (cfg, steps) in dead {
        let codes: Vec<String> = steps.iter().map(|s| s.code()).collect();
        let cfg2 = cfg.clone();
        items.push(Item {
            label: format!("{} {}", cfg.label(), codes.join(",")),
            replay: json!({"engine": "e_c18", "property": "C18", "cfg": cfg.to_json(), "steps": codes, "tier": tier.name()}),
            run: Box::new(move || c18::execute(&cfg2, &steps, tm)),
        });
    }
    report.extra("bounds", Value::Object(bounds));
    report.extra("timing", json!({"watchdog_s": tm.watchdog.as_secs(), "stable_observations": tm.stable_n, "observation_gap_us": tm.stable_gap.as_micros() as u64}));
    report.rule(
        "every sequence over {Dispatch(kind), OpenGate(t), Join} up to the family depth (a 'stop here' alternative at every position; enabledness depends only on harness-side state) is executed once per configuration (workers x mode x driver) on a fresh real Dispatcher, followed by the canonical finale (join, open remaining gates, wait for join); after every step the harness waits until every effect promised by the specification has been observed and the world is quiescent, then polls every receiver and the join future once; states = executions, distinct_nontrivial = distinct final observation signatures",
    );
    report.assume("which worker thread picks which task is not owned by the harness; the oracle is symmetric in workers (it only uses the observed task->thread assignment to know which worker a blocking body occupies)");
    report.assume("steps are serialized: truly concurrent dispatch calls (interleavings inside flume's MPMC queue) are not explored");
    report.assume("'nothing further happens' is concluded from a few consecutive identical observations; a too-short grace can only delay the detection of a forbidden effect to a later step or to the frozen final state (after join returned and all worker threads exited), never cause a false alarm");
    report.assume("a task that was never started because the dispatcher was joined first is legal if and only if its receiver reports cancellation (property statement: 'if the dispatcher is joined first the receiver reports cancellation instead of hanging')");
    for k in ["c18_results_ok", "c18_cancelled_after_start", "c18_cancelled_never_started", "c18_join_returned_ok", "c18_worker_panic_propagated"] {
        report.must_reach(k);
    }
    explore_and_finish(report, "C18", tier, items, shard)
}

fn run_c19(tier: Tier, shard: Shard) -> ! {
    let report = Report::new("C19", tier);
    let tm = timing(tier);
    let mut items: Vec<Item> = Vec::new();
    let mut bounds = serde_map();
    for f in c19::families(tier) {
        let mut per_cfg = serde_map();
        for cfg in &f.cfgs {
            let seqs = c19::sequences(&f, cfg);
            per_cfg.insert(cfg.label(), json!(seqs.len()));
            for (choices, steps) in seqs {
                let cfg2 = cfg.clone();
                let codes: Vec<String> = steps.iter().map(|s| s.code()).collect();
                items.push(Item {
                    label: format!("{} {}", cfg.label(), codes.join(",")),
                    replay: json!({"engine": "e_c18", "property": "C19", "cfg": cfg.to_json(), "choices": choices, "steps": codes, "tier": tier.name()}),
                    run: Box::new(move || c19::execute(&cfg2, &steps, tm)),
                });
            }
        }
        bounds.insert(
            f.name.to_string(),
            json!({"depth": f.depth, "max_messages": f.max_msgs, "max_spawn_steps": f.max_spawns, "alphabet": format!("{:?}", f.alpha), "sequences_per_configuration": Value::Object(per_cfg)}),
        );
    }
    report.extra("bounds", Value::Object(bounds));
    report.extra("timing", json!({"watchdog_s": tm.watchdog.as_secs(), "stable_observations": tm.stable_n, "observation_gap_us": tm.stable_gap.as_micros() as u64}));
    report.rule(
        "per family, every sequence over its alphabet of harness steps (Spawn(spec), Send/SendFail/Call/CallFail(actor), Stop(actor), Open(actor) = open the gate the actor is parked at, GJoin/GLeave(actor), GSend, GCall) up to the family depth, with a 'stop here' alternative at every position and enabledness decided by the reference model only, is executed once per configuration on a fresh real Cluster (1-2 dispatcher workers), followed by the canonical finale (drain every gate, stop every actor, join the cluster); after every step the harness waits until the actors' journals have caught up with the reference model, settles, and compares journals, send/call/stop/spawn results, handles, lookups, queue lengths and supervisor events; distinct_nontrivial = distinct final observation signatures; spawn specs additionally vary: pre_stop / post_stop returning Err (families heldstart, supervisor; reference model: both stop hooks always run, in order, exactly once, whatever they return; the reported exit and the supervisor event become Failed(first stop-hook error) only if the exit was Stopped), and, in the registry family with 2 workers, a failed start whose actor VALUE parks in its own Drop at a harness gate (the spawner has received SpawnError::Start, the worker-side task has not finished): every step, in particular a re-spawn under the same name, is enumerated inside that window too (the name must already be free)",
    );
    report.assume("which dispatcher worker hosts which actor, and which group member round-robin picks, are not owned by the harness: the oracle is symmetric in workers and follows the observed member choice (only eligibility of the chosen member and 'handed back only if no live non-full member' are checked)");
    report.assume("while a worker thread is parked in an actor value's Drop the harness dispatches wake-up tasks (spawns of an unnamed actor type whose pre_start fails at once) until one has run, so that a worker that is not parked takes the enumerated spawn's task from the dispatcher's shared queue; spawns that would reach the dispatcher are enumerated only while fewer workers are parked than exist");
    report.assume("steps are serialized (senders alternate between two harness threads); interleavings inside flume under truly concurrent sends are not explored");
    report.assume("'stop' is modelled as documented (README: 'Calling stop lets the current handler finish'; crate test 'stop bypasses a full mailbox'): after the current handler the actor stops without handling queued messages");
    report.assume("a call that was accepted and still queued when its actor exited must resolve with an explicit error; whether it does is decided in the frozen final state (cluster joined, all worker threads exited), without any timeout");
    for k in [
        "c19_msgs_handled", "c19_send_full", "c19_send_closed", "c19_call_replied", "c19_msgs_dropped_by_stop_or_failure", "c19_exit_stopped", "c19_exit_failed",
        "c19_start_failed", "c19_name_taken", "c19_name_reused", "c19_group_routed", "c19_group_handed_back", "c19_supervisor_respawn",
        "c19_pre_stop_failed_post_stop_ran", "c19_stop_hook_failure_turned_stop_into_failed", "c19_stop_hook_failure_kept_earlier_failure",
        "c19_name_reused_while_failed_actor_value_alive",
    ] {
        report.must_reach(k);
    }
    explore_and_finish(report, "C19", tier, items, shard)
}

fn replay_c19(path: &std::path::Path, tier: Tier) -> ! {
    let bytes = std::fs::read(path).unwrap_or_else(|e| vcore::machinery_error(&format!("cannot read {path:?}: {e}")));
    let v: Value = vcore::serde_json::from_slice(&bytes).unwrap_or_else(|e| vcore::machinery_error(&format!("replay file does not parse: {e}")));
    let r = if v.get("replay").is_some() { &v["replay"] } else { &v };
    let tier = r["tier"].as_str().map(Tier::parse).unwrap_or(tier);
    let cfg = c19::Cfg::from_json(&r["cfg"]).unwrap_or_else(|| vcore::machinery_error("replay: bad cfg"));
    let steps: Vec<c19::Step> = r["steps"]
        .as_array()
        .unwrap_or_else(|| vcore::machinery_error("replay: no steps"))
        .iter()
        .map(|s| c19::Step::parse(s.as_str().unwrap_or("")).unwrap_or_else(|| vcore::machinery_error("replay: bad step")))
        .collect();
    let res = c19::execute(&cfg, &steps, timing(tier));
    util::drop_helpers();
    finish_replay("C19", path, res)
}

type Shard = Option<(usize, usize, std::path::PathBuf)>;

fn serde_map() -> vcore::serde_json::Map<String, Value> {
    vcore::serde_json::Map::new()
}

fn replay_c18(path: &std::path::Path, tier: Tier) -> ! {
    let bytes = std::fs::read(path).unwrap_or_else(|e| vcore::machinery_error(&format!("cannot read {path:?}: {e}")));
    let v: Value = vcore::serde_json::from_slice(&bytes).unwrap_or_else(|e| vcore::machinery_error(&format!("replay file does not parse: {e}")));
    let r = if v.get("replay").is_some() { &v["replay"] } else { &v };
    let tier = r["tier"].as_str().map(Tier::parse).unwrap_or(tier);
    let cfg = c18::Cfg::from_json(&r["cfg"]).unwrap_or_else(|| vcore::machinery_error("replay: bad cfg"));
    let steps: Vec<c18::Step> = r["steps"]
        .as_array()
        .unwrap_or_else(|| vcore::machinery_error("replay: no steps"))
        .iter()
        .map(|s| c18::Step::parse(s.as_str().unwrap_or("")).unwrap_or_else(|| vcore::machinery_error("replay: bad step")))
        .collect();
    let res = c18::execute(&cfg, &steps, timing(tier));
    util::drop_helpers();
    finish_replay("C18", path, res)
}

fn finish_replay(prop: &str, path: &std::path::Path, res: ExecResult) -> ! {
    for h in &res.hist {
        println!("  {h}");
    }
    println!("observation signature: {}", res.sig);
    if let Some(m) = res.machinery {
        vcore::machinery_error(&m);
    }
    if res.vios.is_empty() {
        println!("no violation in this execution");
        std::process::exit(0);
    }
    for (k, w) in &res.vios {
        println!("violation detail: key={k} what={w}");
        println!("VIOLATION property={prop} replay={}", path.display());
    }
    std::process::exit(1)
}

fn main() {
    let argv: Vec<String> = std::env::args().collect();
    if argv.len() >= 2 && argv[1] == "--count" {
        for tier in [Tier::Quick, Tier::Thorough] {
            let mut total = 0;
            for f in c18::families(tier) {
                let n = c18::sequences(&f).len();
                println!("C18 {:?} {} depth={} sequences={} x {} cfgs", tier, f.name, f.depth, n, f.cfgs.len());
                total += n * f.cfgs.len();
            }
            println!("C18 {:?} total {}", tier, total);
            let mut total = 0;
            for f in c19::families(tier) {
                for cfg in &f.cfgs {
                    let n = c19::sequences(&f, cfg).len();
                    println!("C19 {:?} {} depth={} sequences={}", tier, cfg.label(), f.depth, n);
                    total += n;
                }
            }
            println!("C19 {:?} total {}", tier, total);
        }
        return;
    }
    let args = vcore::parse_args();
    vcore::quiet_panics();
    // `--shard i/k --out file`: sub-process mode
    let mut shard: Shard = None;
    if let Some(p) = args.rest.iter().position(|x| x == "--shard") {
        let spec = args.rest.get(p + 1).cloned().unwrap_or_default();
        let out = args.rest.iter().position(|x| x == "--out").and_then(|q| args.rest.get(q + 1)).cloned();
        let mut it = spec.split('/');
        match (it.next().and_then(|x| x.parse().ok()), it.next().and_then(|x| x.parse().ok()), out) {
            (Some(i), Some(k), Some(o)) => shard = Some((i, k, o.into())),
            _ => vcore::machinery_error("bad --shard/--out arguments"),
        }
    }
    match args.property.as_str() {
        "C18" => match &args.replay {
            Some(p) => replay_c18(p, args.tier),
            None => run_c18(args.tier, shard),
        },
        "C19" => match &args.replay {
            Some(p) => replay_c19(p, args.tier),
            None => run_c19(args.tier, shard),
        },
        other => vcore::machinery_error(&format!("e_c18 serves C18 and C19, not {other}")),
    }
}
