// (included into c19.rs) -- performing steps on the real cluster, finale, frozen-state checks

impl<'a> Exec<'a> {
    fn real_spawn(&mut self, spec: &SpawnSpec) {
        let id = {
            let mut s = self.w.sup.lock().unwrap();
            let id = s.next_actor;
            s.next_actor += 1;
            id
        };
        assert_eq!(id, self.model.actors.len(), "actor numbering of model and world diverged");
        let st = &self.w.actors[id];
        st.pre_fail.store(spec.pre_fail, Ordering::SeqCst);
        st.post_fail.store(spec.post_fail, Ordering::SeqCst);
        st.pre_stop_fail.store(spec.pre_stop_fail, Ordering::SeqCst);
        st.post_stop_fail.store(spec.post_stop_fail, Ordering::SeqCst);
        assert!(!spec.hold_drop || spec.pre_fail, "hold_drop is modelled for failed starts only");
        st.hold_drop.store(spec.hold_drop, Ordering::SeqCst);
        if !spec.hold_drop {
            st.gates[DROP_GATE].open();
        }
        for h in HOOKS {
            if !spec.holds[h as usize] {
                st.gates[h as usize].open();
            }
        }
        let cluster = self.cluster.as_ref().expect("cluster").clone();
        let w = self.w.clone();
        let mut sp = cluster.spawn(move || TA { w, id }, ()).with_capacity(NonZeroUsize::new(spec.cap).unwrap());
        if let Some(n) = spec.name {
            sp = sp.with_name(name_of(n));
        }
        if spec.supervised {
            sp = sp.with_supervisor(self.sup_mailbox.as_ref().expect("supervisor"));
        }
        let fut = sp.into_future();
        // Worker threads parked in a Drop: make sure a worker that is not parked takes the task. The
        // dispatcher's queue is shared; a send wakes only the longest-waiting receiver, which may be
        // a parked worker (whose wake-up is then used up: it cannot re-register while parked). Send
        // wake-up tasks until they have all been run: a wake-up task that ran was taken by a worker
        // that is not parked, and that worker took everything queued before it as well.
        let parked = self.model.held_drops();
        if parked > 0 && parked < self.cfg.workers {
            let mut kicks: Vec<SpawnFuture<Kick>> = Vec::new();
            let start = std::time::Instant::now();
            let mut patience = Duration::from_micros(500);
            'kick: loop {
                kicks.push(cluster.spawn(|| Kick, ()).into_future());
                let round = std::time::Instant::now();
                loop {
                    let mut bad = false;
                    let waker = self.waker.clone();
                    kicks.retain_mut(|k| match util::poll_once(Pin::new(k), &waker) {
                        Poll::Ready(Err(SpawnError::Start(0))) => false,
                        Poll::Ready(_) => {
                            bad = true;
                            false
                        }
                        Poll::Pending => true,
                    });
                    if bad {
                        self.res.machinery = Some("wake-up task did not fail its start as designed".into());
                        self.aborted = true;
                        break 'kick;
                    }
                    if kicks.is_empty() {
                        break 'kick;
                    }
                    if start.elapsed() > self.timing.watchdog {
                        self.res.machinery = Some("no free worker took the wake-up tasks".into());
                        self.aborted = true;
                        break 'kick;
                    }
                    if round.elapsed() > patience {
                        patience *= 2;
                        break;
                    }
                    std::thread::yield_now();
                }
            }
        }
        let mut ra = RActor::empty(false);
        ra.fut = Some(fut);
        while self.ra.len() < id {
            self.ra.push(RActor::empty(true));
        }
        self.ra.push(ra);
    }

    fn new_real_msg(&mut self, fail: bool) -> usize {
        let m = self.rm.len();
        assert!(m < MAX_MSGS);
        self.w.msgs[m].fail.store(fail, Ordering::SeqCst);
        self.rm.push(RMsg { deliver: Deliver::Closed, returned_original: true, call: None, cobs: CallObs::NotCall });
        m
    }

    fn helper(&self, m: usize) -> std::rc::Rc<util::Helpers> {
        let _ = m;
        util::helpers()
    }

    /// returns false when the step cannot be performed (no such mailbox): it is skipped
    fn do_step(&mut self, step: &Step) -> bool {
        self.res.steps += 1;
        match step {
            Step::Spawn(i) => {
                let spec = self.cfg.specs[*i].clone();
                self.real_spawn(&spec);
                self.model.spawn(spec, false);
            }
            Step::Send { a, fail } => {
                let Some(mb) = self.ra.get(*a).and_then(|r| r.mailbox.clone()) else { return false };
                let m = self.new_real_msg(*fail);
                let tok = self.tok(m);
                let h = self.helper(m);
                let job = move || mb.send(M { id: m, tok });
                let r = if m % 2 == 0 { h.a.call(job) } else { h.b.call(job) };
                self.rm[m].deliver = deliver_of(&r);
                if let Err(e) = r {
                    let back = e.into_inner();
                    self.rm[m].returned_original = back.id == m && back.tok == tok;
                }
                let mm = self.model.send(*a, *fail, false);
                assert_eq!(mm, m);
            }
            Step::Call { a, fail } => {
                let Some(mb) = self.ra.get(*a).and_then(|r| r.mailbox.clone()) else { return false };
                let m = self.new_real_msg(*fail);
                let tok = self.tok(m);
                let h = self.helper(m);
                let waker = self.waker.clone();
                // the first poll (which performs the send) runs on a sender thread
                let job = move || {
                    let mut f: CallFut = Box::pin(async move { mb.call(M { id: m, tok }).await });
                    let r = util::poll_once(f.as_mut(), &waker);
                    (f, r)
                };
                let (f, r) = if m % 2 == 0 { h.a.call(job) } else { h.b.call(job) };
                self.set_call_result(m, f, r);
                let mm = self.model.send(*a, *fail, true);
                assert_eq!(mm, m);
            }
            Step::Stop(a) => {
                let Some(mb) = self.ra.get(*a).and_then(|r| r.mailbox.clone()) else { return false };
                let h = util::helpers();
                let r = if a % 2 == 0 { h.b.call(move || mb.stop()) } else { h.a.call(move || mb.stop()) };
                self.last_stop_obs = Some((*a, r));
                self.model.stop(*a);
            }
            Step::Open(a) => {
                match self.model.actors.get(*a).map(|x| x.phase) {
                    Some(Phase::Hook(h)) => self.w.actors[*a].gates[h as usize].open(),
                    Some(Phase::DropHeld) => self.w.actors[*a].gates[DROP_GATE].open(),
                    Some(Phase::Handling(m)) => self.w.msgs[m].gate.open(),
                    _ => return false,
                }
                self.model.open(*a);
            }
            Step::GJoin(a) => {
                let Some(mb) = self.ra.get(*a).and_then(|r| r.mailbox.clone()) else { return false };
                if self.ra[*a].mem_cast.is_some() {
                    return false;
                }
                self.ra[*a].mem_cast = Some(self.gcast.join(mb.broker::<M>()));
                self.ra[*a].mem_call = Some(self.gcall.join(mb.broker::<Call<M, u64>>()));
                self.model.gjoin(*a);
            }
            Step::GLeave(a) => {
                if self.ra.get(*a).map(|r| r.mem_cast.is_none()).unwrap_or(true) {
                    return false;
                }
                self.ra[*a].mem_cast.take().unwrap().leave();
                self.ra[*a].mem_call.take().unwrap().leave();
                self.model.gleave(*a);
            }
            Step::GSend | Step::GCall => {
                let call = *step == Step::GCall;
                let m = self.new_real_msg(false);
                let tok = self.tok(m);
                let before: Vec<Option<usize>> = self.ra.iter().map(|r| r.mailbox.as_ref().and_then(queued_of)).collect();
                let h = self.helper(m);
                let d;
                if call {
                    let g = self.gcall.clone();
                    let waker = self.waker.clone();
                    let job = move || {
                        let mut f: CallFut = Box::pin(async move { g.call(M { id: m, tok }).await });
                        let r = util::poll_once(f.as_mut(), &waker);
                        (f, r)
                    };
                    let (f, r) = if m % 2 == 0 { h.a.call(job) } else { h.b.call(job) };
                    self.set_call_result(m, f, r);
                    d = self.rm[m].deliver;
                } else {
                    let g = self.gcast.clone();
                    let job = move || g.send(M { id: m, tok });
                    let r = if m % 2 == 0 { h.a.call(job) } else { h.b.call(job) };
                    d = deliver_of(&r);
                    self.rm[m].deliver = d;
                    if let Err(e) = r {
                        let back = e.into_inner();
                        self.rm[m].returned_original = back.id == m && back.tok == tok;
                    }
                }
                // who took it? (which member is picked is not owned by the harness: observe it)
                let mut taker: Option<usize> = None;
                if d == Deliver::Ok {
                    let start = std::time::Instant::now();
                    'find: loop {
                        for (a, r) in self.ra.iter().enumerate() {
                            if let Some(mb) = &r.mailbox {
                                if let (Some(q), Some(Some(b))) = (queued_of(mb), before.get(a)) {
                                    if q > *b {
                                        taker = Some(a);
                                        break 'find;
                                    }
                                }
                            }
                        }
                        if let Some(e) = self.w.journal.lock().unwrap().iter().find(|e| e.k == EvK::HandleBegin(m)) {
                            taker = Some(e.actor);
                            break 'find;
                        }
                        if start.elapsed() > self.timing.watchdog {
                            break 'find;
                        }
                        std::thread::sleep(Duration::from_micros(50));
                    }
                    if taker.is_none() {
                        self.vio("liveness:group-accepted-message-vanished", format!("the group accepted message {m} but no member's mailbox received it"));
                        self.aborted = true;
                        return true;
                    }
                }
                // the statement: exactly one live, non-full member, or handed back
                let members: Vec<usize> = (0..self.model.actors.len()).filter(|&a| self.model.member_token[a]).collect();
                let takers: Vec<usize> = members.iter().copied().filter(|&a| {
                    let x = &self.model.actors[a];
                    !(x.closed || !x.live()) && (x.phase == Phase::Idle || x.queue.len() < x.spec.cap)
                }).collect();
                let mut predicted = self.model.clone();
                let pm = predicted.gsend(call, None);
                let predicted_target = predicted.msgs[pm].target;
                match taker {
                    Some(a) => {
                        if !takers.contains(&a) {
                            self.vio(
                                "group:routed-to-ineligible-member",
                                format!("the group handed message {m} to actor {a}, which is not a live, non-full member (eligible: {takers:?}, members: {members:?})"),
                            );
                            self.aborted = true;
                        }
                    }
                    None => {
                        if !takers.is_empty() {
                            self.vio(
                                &format!("group:handed-back-although-member-available:{d:?}"),
                                format!("the group handed message {m} back ({d:?}) although members {takers:?} are live and not full (members: {members:?})"),
                            );
                            self.aborted = true;
                        } else {
                            let any_live = members.iter().any(|&a| {
                                let x = &self.model.actors[a];
                                !(x.closed || !x.live())
                            });
                            let want = if any_live { Deliver::Full } else { Deliver::Closed };
                            if d != want {
                                self.vio("group:wrong-refusal-kind", format!("the group refused message {m} with {d:?}, expected {want:?}"));
                                self.aborted = true;
                            }
                        }
                    }
                }
                if taker != predicted_target {
                    self.rr_divergence += 1;
                }
                let mm = self.model.gsend(call, Some(taker));
                assert_eq!(mm, m);
                // a refused group call resolves like a refused call
                if call && d != Deliver::Ok {
                    self.model.msgs[m].call_exp = CallExp::Refused(d);
                }
                self.model.msgs[m].deliver = d;
            }
        }
        true
    }

    fn set_call_result(&mut self, m: usize, f: CallFut, r: Poll<Result<u64, CallError<M>>>) {
        let tok = self.tok(m);
        match r {
            Poll::Pending => {
                self.rm[m].call = Some(f);
                self.rm[m].cobs = CallObs::Pending;
                self.rm[m].deliver = Deliver::Ok;
            }
            Poll::Ready(Err(CallError::Full(b))) => {
                self.rm[m].deliver = Deliver::Full;
                self.rm[m].returned_original = b.id == m && b.tok == tok;
                self.rm[m].cobs = CallObs::Full(b.id, b.tok);
            }
            Poll::Ready(Err(CallError::Closed(b))) => {
                self.rm[m].deliver = Deliver::Closed;
                self.rm[m].returned_original = b.id == m && b.tok == tok;
                self.rm[m].cobs = CallObs::Closed(b.id, b.tok);
            }
            Poll::Ready(Ok(v)) => {
                self.rm[m].deliver = Deliver::Ok;
                self.rm[m].cobs = CallObs::Ok(v);
            }
            Poll::Ready(Err(CallError::NoReply)) => {
                self.rm[m].deliver = Deliver::Ok;
                self.rm[m].cobs = CallObs::NoReply;
            }
        }
    }

    fn observe(&self) -> String {
        let mut s = String::new();
        for (a, ma) in self.model.actors.iter().enumerate() {
            let ph = match ma.phase {
                Phase::Hook(h) => format!("@{h:?}"),
                Phase::Idle => "idle".into(),
                Phase::Handling(m) => format!("@msg{m}"),
                Phase::Exited => format!("exit{:?}", ma.exit),
                Phase::StartFailed => "startfailed".into(),
                Phase::DropHeld => "startfailed@ValueDrop".into(),
                Phase::Refused => "refused".into(),
            };
            s.push_str(&format!("a{a}:{ph}/q{} ", ma.queue.len()));
        }
        for (m, rm) in self.rm.iter().enumerate() {
            s.push_str(&format!("m{m}:{:?}{} ", rm.deliver, if rm.cobs != CallObs::NotCall { format!("/{}", cclass(&rm.cobs)) } else { String::new() }));
        }
        s
    }

    fn step(&mut self, step: &Step) -> bool {
        if !self.do_step(step) {
            self.res.hist.push(format!("{} (skipped: not applicable)", step.code()));
            return true;
        }
        if self.aborted {
            self.res.hist.push(step.code());
            return false;
        }
        let ok = self.settle();
        let o = self.observe();
        self.res.hist.push(format!("{} [{}]", step.code(), o.trim_end()));
        self.check();
        ok && !self.aborted
    }

    fn prologue(&mut self) -> bool {
        if self.cfg.supervisor {
            let cluster = self.cluster.as_ref().unwrap().clone();
            let w = self.w.clone();
            let mut fut = cluster.spawn(move || Sup { w }, ()).into_future();
            let start = std::time::Instant::now();
            loop {
                if let Poll::Ready(r) = util::poll_once(Pin::new(&mut fut), &self.waker) {
                    match r {
                        Ok((mb, h)) => {
                            self.sup_mailbox = Some(mb);
                            self.sup_handle = Some(h);
                            break;
                        }
                        Err(e) => {
                            self.res.machinery = Some(format!("supervisor did not start: {e:?}"));
                            return false;
                        }
                    }
                }
                if start.elapsed() > self.timing.watchdog {
                    self.res.machinery = Some("supervisor did not start in time".into());
                    return false;
                }
                std::thread::sleep(Duration::from_micros(50));
            }
        }
        let pro = self.cfg.prologue.clone();
        for spec in &pro {
            self.real_spawn(spec);
            self.model.spawn(spec.clone(), false);
            if !self.settle() {
                return false;
            }
            self.check();
            if self.aborted {
                return false;
            }
        }
        if self.cfg.prejoin {
            for a in 0..pro.len() {
                if !self.step(&Step::GJoin(a)) {
                    return false;
                }
            }
        }
        self.res.hist.clear();
        self.res.steps = 0;
        true
    }

    fn finale(&mut self) {
        self.in_finale = true;
        // 1. drain: open whatever is parked until nothing is
        let drain = |ex: &mut Self| -> bool {
            for _ in 0..64 {
                let Some(a) = (0..ex.model.actors.len()).find(|&a| ex.model.actors[a].parked()) else { return true };
                if !ex.step(&Step::Open(a)) {
                    return false;
                }
            }
            ex.res.machinery = Some("finale did not drain".into());
            false
        };
        if self.aborted || !drain(self) {
            return;
        }
        // every accepted message whose actor neither stopped nor failed first has been handled
        for m in 0..self.model.msgs.len() {
            let mm = &self.model.msgs[m];
            if mm.deliver == Deliver::Ok && !mm.handled {
                if let Some(a) = mm.target {
                    if self.model.actors[a].exit.is_none() {
                        self.vio("statement:accepted-message-not-handled", format!("message {m} was accepted by actor {a}, which neither stopped nor failed, but was never handled"));
                        return;
                    }
                }
            }
        }
        // 2. stop everybody
        for _ in 0..32 {
            let Some(a) = (0..self.model.actors.len()).find(|&a| self.model.actors[a].has_mailbox() && self.model.actors[a].live() && !self.model.actors[a].closed) else { break };
            if !self.step(&Step::Stop(a)) || !drain(self) {
                return;
            }
        }
        if let Some(a) = (0..self.model.actors.len()).find(|&a| self.model.actors[a].live()) {
            self.res.machinery = Some(format!("finale: actor {a} still live in the model"));
            return;
        }
        if let Some(s) = self.sup_mailbox.take() {
            s.stop();
        }
        // 3. join the cluster: afterwards the world is frozen
        let cluster = self.cluster.take().unwrap();
        self.join = Some(Box::pin(cluster.join()));
        if !self.settle() {
            return;
        }
        self.res.hist.push("Join".into());
        if let Some(Err(e)) = &self.join_done {
            let e = e.clone();
            self.vio("join:failed", format!("cluster join failed: {e}"));
        }
        self.check();
        if self.join_done.is_none() {
            // settling ended on a mismatch with the model before the join returned (`check` has
            // reported it, the engine re-executes it before it counts): the worker threads are
            // still running, nothing is frozen, and the post-join rules have nothing to say
            self.res.counters.push(("c19_finale_left_before_join_returned", 1));
            return;
        }
        self.frozen_checks();
    }

    /// After the cluster was joined (all worker threads exited) nothing can happen any more:
    /// whatever is still pending will be pending forever.
    fn frozen_checks(&mut self) {
        let live = util::live_threads_with_prefix(&self.prefix);
        if !live.is_empty() {
            // give the kernel a moment to reap the already-joined threads
            let start = std::time::Instant::now();
            while !util::live_threads_with_prefix(&self.prefix).is_empty() && start.elapsed() < Duration::from_secs(2) {
                std::thread::sleep(Duration::from_micros(200));
            }
            if !util::live_threads_with_prefix(&self.prefix).is_empty() {
                self.res.machinery = Some("worker threads alive after cluster join".into());
                return;
            }
        }
        self.sweep();
        for m in 0..self.model.msgs.len() {
            if self.rm[m].cobs != CallObs::Pending {
                continue;
            }
            match self.model.msgs[m].call_exp {
                CallExp::Orphaned(exit) => {
                    let why = if exit == Exit::Stopped { "stop" } else { "failure" };
                    let a = self.model.msgs[m].target;
                    self.vio(
                        &format!("call:queued-behind-{why}:never-resolves"),
                        format!(
                            "call {m} was accepted by the mailbox of actor {a:?} and was still queued when the actor exited ({exit:?}); the actor is gone (its handle reported the exit, the whole cluster has been joined and every worker thread has exited) but the call neither yields a reply nor an error: it hangs forever"
                        ),
                    );
                    self.res.counters.push(("c19_orphaned_call_hangs", 1));
                }
                other => self.vio("call:pending-after-cluster-join", format!("call {m} (model: {other:?}) is still pending after the cluster was joined")),
            }
        }
        for m in 0..self.model.msgs.len() {
            if let CallExp::Orphaned(_) = self.model.msgs[m].call_exp {
                if self.rm[m].cobs == CallObs::NoReply {
                    self.res.counters.push(("c19_orphaned_call_explicit_error", 1));
                }
            }
        }
    }

    fn cleanup(&mut self) {
        for a in &self.w.actors {
            for g in &a.gates {
                g.open();
            }
        }
        for m in &self.w.msgs {
            m.gate.open();
        }
        self.rm.clear();
        self.ra.clear();
        self.join = None;
        self.sup_mailbox = None;
        // a cluster that was never joined: drop it (its workers exit when the dispatcher drops)
        self.cluster = None;
    }

    fn tally(&mut self) {
        let (ran, turned, kept) = {
            let m = &self.model;
            // counted on the OBSERVED journals
            let (mut ran, mut turned, mut kept) = (0u64, 0u64, 0u64);
            for a in 0..m.actors.len() {
                let j = self.obs_journal(a);
                let pre_failed = j.contains(&EvK::HookEnd(Hook::PreStop, false));
                let post_failed = j.contains(&EvK::HookEnd(Hook::PostStop, false));
                let post_ran = j.iter().any(|e| matches!(e, EvK::HookEnd(Hook::PostStop, _)));
                if pre_failed && post_ran {
                    ran += 1;
                }
                if (pre_failed || post_failed) && post_ran {
                    match (m.actors[a].handle, self.ra.get(a).map(|r| r.hobs.clone())) {
                        (Some(Exit::Failed(c)), Some(HandleObs::Exit(Exit::Failed(o)))) if c == o => {
                            if c == c19m::code_pre_stop(a) || c == c19m::code_post_stop(a) {
                                turned += 1;
                            } else {
                                kept += 1;
                            }
                        }
                        _ => {}
                    }
                }
            }
            (ran, turned, kept)
        };
        let c = &mut self.res.counters;
        c.push(("c19_pre_stop_failed_post_stop_ran", ran));
        c.push(("c19_stop_hook_failure_turned_stop_into_failed", turned));
        c.push(("c19_stop_hook_failure_kept_earlier_failure", kept));
        let m = &self.model;
        let count = |f: &dyn Fn(&c19m::MMsg) -> bool| m.msgs.iter().filter(|x| f(x)).count() as u64;
        c.push(("c19_msgs_handled", count(&|x| x.handled)));
        c.push(("c19_send_full", count(&|x| x.deliver == Deliver::Full)));
        c.push(("c19_send_closed", count(&|x| x.deliver == Deliver::Closed)));
        c.push(("c19_call_replied", count(&|x| x.call_exp == CallExp::Replied)));
        c.push(("c19_call_noreply", count(&|x| x.call_exp == CallExp::NoReply)));
        c.push(("c19_msgs_dropped_by_stop_or_failure", count(&|x| x.deliver == Deliver::Ok && !x.handled)));
        c.push(("c19_exit_stopped", m.actors.iter().filter(|a| a.handle == Some(Exit::Stopped)).count() as u64));
        c.push(("c19_exit_failed", m.actors.iter().filter(|a| matches!(a.handle, Some(Exit::Failed(_)))).count() as u64));
        c.push(("c19_start_failed", m.actors.iter().filter(|a| matches!(a.spawn, SpawnExp::StartErr(_))).count() as u64));
        c.push(("c19_name_taken", m.actors.iter().filter(|a| a.spawn == SpawnExp::NameTaken).count() as u64));
        c.push(("c19_name_reused", {
            let mut n = 0;
            for i in 0..m.names.len() {
                let k = m.actors.iter().filter(|a| a.spec.name == Some(i) && matches!(a.spawn, SpawnExp::Ok | SpawnExp::StartErr(_))).count();
                n += k.saturating_sub(1) as u64;
            }
            n
        }));
        c.push(("c19_name_reused_while_failed_actor_value_alive", m.actors.iter().filter(|a| a.reused_name_of_held && matches!(a.spawn, SpawnExp::Ok | SpawnExp::StartErr(_))).count() as u64));
        c.push(("c19_group_routed", count(&|x| x.via_group && x.deliver == Deliver::Ok)));
        c.push(("c19_group_handed_back", count(&|x| x.via_group && x.deliver != Deliver::Ok)));
        c.push(("c19_supervisor_respawn", m.actors.iter().filter(|a| a.spawned_by_supervisor).count() as u64));
        c.push(("c19_round_robin_prediction_differs", self.rr_divergence));
    }

    fn signature(&self) -> String {
        let mut s = format!("{}|", self.cfg.label());
        for a in &self.model.actors {
            let j: Vec<String> = self
                .obs_classes(a)
                .into_iter()
                .collect();
            s.push_str(&format!("{:?}/{:?}/{} ", a.spawn, a.handle.map(|e| matches!(e, Exit::Stopped)), j.join(">")));
        }
        s.push('|');
        for (m, rm) in self.rm.iter().enumerate() {
            let _ = m;
            s.push_str(&format!("{:?}/{} ", rm.deliver, cclass(&rm.cobs)));
        }
        s
    }

    fn obs_classes(&self, a: &c19m::MActor) -> Vec<String> {
        let mut v = Vec::new();
        let mut handled = 0;
        for e in &a.journal {
            match e {
                EvK::HandleEnd(_, ok) => {
                    handled += 1;
                    if !ok {
                        v.push(format!("h{handled}!"));
                    }
                }
                EvK::HookEnd(h, ok) => v.push(format!("{}{}", *h as u8, if *ok { "" } else { "!" })),
                _ => {}
            }
        }
        v.push(format!("h{handled}"));
        v
    }
}

pub fn execute(cfg: &Cfg, steps: &[Step], timing: Timing) -> ExecResult {
    let mut ex = match Exec::new(cfg, timing) {
        Ok(e) => e,
        Err(m) => return ExecResult { machinery: Some(m), ..Default::default() },
    };
    if ex.prologue() {
        let mut ok = true;
        for s in steps {
            if !ex.step(s) {
                ok = false;
                break;
            }
        }
        if ok {
            ex.finale();
        }
    }
    ex.tally();
    // the signature is taken before cleanup drops the messages
    ex.res.sig = ex.signature();
    ex.cleanup();
    std::mem::take(&mut ex.res)
}
