//! Shared harness pieces: gates, counting waker, helper ("sender") threads, thread observation.

use std::{
    future::Future,
    pin::Pin,
    sync::{
        Arc, Condvar, Mutex,
        atomic::{AtomicBool, AtomicU64, Ordering},
        mpsc,
    },
    task::{Context, Poll, Wake, Waker},
    time::{Duration, Instant},
};

// ---------------------------------------------------------------------------------------------
// Gate: a body parks here until the harness opens it. Usable from async bodies (the worker's
// runtime keeps running) and from blocking bodies (the worker thread itself is stuck).
// ---------------------------------------------------------------------------------------------

#[derive(Default)]
struct GateSt {
    open: bool,
    waker: Option<Waker>,
}

#[derive(Default)]
pub struct Gate {
    st: Mutex<GateSt>,
    cv: Condvar,
    /// a body is currently parked at this gate
    pub parked: AtomicBool,
    /// number of times a body arrived at the gate (parked or passed straight through)
    pub arrivals: AtomicU64,
}

impl Gate {
    pub fn new(open: bool) -> Self {
        let g = Gate::default();
        g.st.lock().unwrap().open = open;
        g
    }

    #[allow(dead_code)]
    pub fn is_open(&self) -> bool {
        self.st.lock().unwrap().open
    }

    /// harness side: open the gate and wake whoever is parked
    pub fn open(&self) {
        let w = {
            let mut g = self.st.lock().unwrap();
            g.open = true;
            g.waker.take()
        };
        self.cv.notify_all();
        if let Some(w) = w {
            w.wake();
        }
    }

    pub fn wait_async(&self) -> GateFut<'_> {
        GateFut { gate: self, arrived: false }
    }

    pub fn wait_blocking(&self) {
        self.arrivals.fetch_add(1, Ordering::SeqCst);
        let mut g = self.st.lock().unwrap();
        while !g.open {
            self.parked.store(true, Ordering::SeqCst);
            g = self.cv.wait(g).unwrap();
        }
        self.parked.store(false, Ordering::SeqCst);
    }
}

pub struct GateFut<'a> {
    gate: &'a Gate,
    arrived: bool,
}

impl Future for GateFut<'_> {
    type Output = ();

    fn poll(mut self: Pin<&mut Self>, cx: &mut Context<'_>) -> Poll<()> {
        if !self.arrived {
            self.arrived = true;
            self.gate.arrivals.fetch_add(1, Ordering::SeqCst);
        }
        let mut g = self.gate.st.lock().unwrap();
        if g.open {
            self.gate.parked.store(false, Ordering::SeqCst);
            Poll::Ready(())
        } else {
            g.waker = Some(cx.waker().clone());
            self.gate.parked.store(true, Ordering::SeqCst);
            Poll::Pending
        }
    }
}

impl Drop for GateFut<'_> {
    fn drop(&mut self) {
        // a body dropped while parked (its task was cancelled) is no longer parked
        if self.arrived {
            self.gate.parked.store(false, Ordering::SeqCst);
        }
    }
}

// ---------------------------------------------------------------------------------------------
// Counting waker for futures the harness polls by hand
// ---------------------------------------------------------------------------------------------

#[derive(Default)]
pub struct CountWaker {
    pub wakes: AtomicU64,
}

impl Wake for CountWaker {
    fn wake(self: Arc<Self>) {
        self.wakes.fetch_add(1, Ordering::SeqCst);
    }

    fn wake_by_ref(self: &Arc<Self>) {
        self.wakes.fetch_add(1, Ordering::SeqCst);
    }
}

pub fn poll_once<F: Future + ?Sized>(f: Pin<&mut F>, w: &Arc<CountWaker>) -> Poll<F::Output> {
    let waker = Waker::from(w.clone());
    let mut cx = Context::from_waker(&waker);
    f.poll(&mut cx)
}

// ---------------------------------------------------------------------------------------------
// Thread identity and exit observation
// ---------------------------------------------------------------------------------------------

static NEXT_TID: AtomicU64 = AtomicU64::new(1);

/// Where thread-exit notes are collected (one per execution).
#[derive(Default)]
pub struct ExitLog {
    pub exited: Mutex<Vec<u64>>,
}

struct ExitNote {
    uid: u64,
    log: Arc<ExitLog>,
}

impl Drop for ExitNote {
    fn drop(&mut self) {
        self.log.exited.lock().unwrap().push(self.uid);
    }
}

thread_local! {
    static THREAD_UID: u64 = NEXT_TID.fetch_add(1, Ordering::Relaxed);
    static EXIT_NOTE: std::cell::RefCell<Option<ExitNote>> = const { std::cell::RefCell::new(None) };
}

/// Process-unique id of the calling thread; on first use the thread is registered with `log`, so
/// that its exit (thread-local destructor, i.e. before a `join` of that thread returns) is noted.
pub fn thread_uid(log: &Arc<ExitLog>) -> u64 {
    let uid = THREAD_UID.with(|u| *u);
    EXIT_NOTE.with(|n| {
        let mut n = n.borrow_mut();
        if n.is_none() {
            *n = Some(ExitNote { uid, log: log.clone() });
        }
    });
    uid
}

static NEXT_DISP: AtomicU64 = AtomicU64::new(1);

/// Process-unique prefix for the worker-thread names of one dispatcher (fits the 15-byte comm).
pub fn new_thread_prefix() -> String {
    format!("d{:x}w", NEXT_DISP.fetch_add(1, Ordering::Relaxed))
}

/// Names (comm) of the live threads of this process whose name starts with `prefix`.
pub fn live_threads_with_prefix(prefix: &str) -> Vec<String> {
    let mut out = Vec::new();
    if let Ok(rd) = std::fs::read_dir("/proc/self/task") {
        for e in rd.flatten() {
            let mut p = e.path();
            p.push("comm");
            if let Ok(s) = std::fs::read_to_string(&p) {
                let s = s.trim_end();
                if s.starts_with(prefix) {
                    out.push(s.to_string());
                }
            }
        }
    }
    out.sort();
    out
}

// ---------------------------------------------------------------------------------------------
// Helper threads: the "harness threads A and B" that issue dispatch / send calls. One pair per
// explorer thread, reused across executions (they carry no state).
// ---------------------------------------------------------------------------------------------

type Job = Box<dyn FnOnce() + Send>;

pub struct Helper {
    tx: Option<mpsc::Sender<Job>>,
    th: Option<std::thread::JoinHandle<()>>,
}

impl Helper {
    pub fn new(name: &str) -> Self {
        let (tx, rx) = mpsc::channel::<Job>();
        let th = std::thread::Builder::new()
            .name(name.to_string())
            .spawn(move || {
                while let Ok(j) = rx.recv() {
                    j();
                }
            })
            .expect("spawn helper");
        Helper { tx: Some(tx), th: Some(th) }
    }

    /// run `f` on the helper thread and wait for its result (the steps stay serialized)
    pub fn call<R: Send + 'static>(&self, f: impl FnOnce() -> R + Send + 'static) -> R {
        let (rtx, rrx) = mpsc::channel();
        self.tx
            .as_ref()
            .unwrap()
            .send(Box::new(move || {
                let r = std::panic::catch_unwind(std::panic::AssertUnwindSafe(f));
                let _ = rtx.send(r);
            }))
            .expect("helper gone");
        match rrx.recv().expect("helper died") {
            Ok(r) => r,
            Err(p) => std::panic::resume_unwind(p),
        }
    }
}

impl Drop for Helper {
    fn drop(&mut self) {
        self.tx.take();
        if let Some(t) = self.th.take() {
            let _ = t.join();
        }
    }
}

pub struct Helpers {
    pub a: Helper,
    pub b: Helper,
}

thread_local! {
    static HELPERS: std::cell::RefCell<Option<std::rc::Rc<Helpers>>> = const { std::cell::RefCell::new(None) };
}

pub fn helpers() -> std::rc::Rc<Helpers> {
    HELPERS.with(|h| {
        let mut h = h.borrow_mut();
        if h.is_none() {
            *h = Some(std::rc::Rc::new(Helpers { a: Helper::new("hA"), b: Helper::new("hB") }));
        }
        h.as_ref().unwrap().clone()
    })
}

pub fn drop_helpers_if_idle() {}

pub fn drop_helpers() {
    HELPERS.with(|h| *h.borrow_mut() = None);
}

// ---------------------------------------------------------------------------------------------
// Settling
// ---------------------------------------------------------------------------------------------

#[derive(Clone, Copy)]
pub struct Timing {
    /// how long a promised effect may take before it is a liveness-violation candidate
    pub watchdog: Duration,
    /// consecutive identical observations that count as "nothing further happens"
    pub stable_n: u32,
    /// spacing of those observations
    pub stable_gap: Duration,
}

pub enum Settled {
    Ok,
    /// the promised effect did not happen within the watchdog: description of what was awaited
    Expired(String),
    /// the world did not stop changing
    Unstable,
}

/// Waits until `pending()` returns `None` (every effect the model promises has been observed),
/// then until `fingerprint()` is unchanged over `stable_n` consecutive observations.
pub fn settle(t: &Timing, mut pending: impl FnMut() -> Option<String>, mut fingerprint: impl FnMut() -> u64) -> Settled {
    let mut rounds = 0;
    loop {
        rounds += 1;
        if rounds > 64 {
            if std::env::var_os("E_C18_DEBUG").is_some() { eprintln!("settle: 64 rounds with changes"); }
            return Settled::Unstable;
        }
        let start = Instant::now();
        let mut spins = 0u32;
        loop {
            match pending() {
                None => break,
                Some(what) => {
                    if start.elapsed() > t.watchdog {
                        return Settled::Expired(what);
                    }
                }
            }
            spins += 1;
            if spins < 20 {
                std::thread::yield_now();
            } else {
                std::thread::sleep(Duration::from_micros(if spins < 200 { 50 } else { 500 }));
            }
        }
        let mut last = fingerprint();
        let mut same = 0;
        let mut changed = false;
        while same < t.stable_n {
            std::thread::sleep(t.stable_gap);
            let f = fingerprint();
            if f == last {
                same += 1;
            } else {
                changed = true;
                last = f;
                same = 0;
            }
            if start.elapsed() > t.watchdog + Duration::from_secs(2) {
                if std::env::var_os("E_C18_DEBUG").is_some() { eprintln!("settle: fingerprint kept changing for watchdog+2s (round {rounds})"); }
                return Settled::Unstable;
            }
        }
        // something moved during the grace period: the promises may have changed, re-evaluate
        if !changed && pending().is_none() {
            return Settled::Ok;
        }
    }
}

pub fn mix(h: &mut u64, v: u64) {
    *h ^= v.wrapping_add(0x9e3779b97f4a7c15).wrapping_add(*h << 6).wrapping_add(*h >> 2);
}

/// What one execution produced.
#[derive(Default)]
pub struct ExecResult {
    pub hist: Vec<String>,
    /// (key, what)
    pub vios: Vec<(String, String)>,
    pub sig: String,
    pub steps: u64,
    pub counters: Vec<(&'static str, u64)>,
    pub machinery: Option<String>,
}
