//! C19 reference model: one bounded FIFO mailbox + stop flag per actor, the name registry, the
//! process groups and the supervisor reaction. Pure; used (a) to enumerate step sequences and
//! (b) as the oracle the real compio-actor run is compared against after every step.

use std::collections::VecDeque;

use vcore::{Value, json};

#[derive(Clone, Copy, PartialEq, Eq, Debug, PartialOrd, Ord)]
pub enum Hook {
    PreStart = 0,
    PostStart = 1,
    PreStop = 2,
    PostStop = 3,
}

pub const HOOKS: [Hook; 4] = [Hook::PreStart, Hook::PostStart, Hook::PreStop, Hook::PostStop];

#[derive(Clone, Copy, PartialEq, Eq, Debug)]
pub enum EvK {
    HookBegin(Hook),
    HookEnd(Hook, bool),
    HandleBegin(usize),
    HandleEnd(usize, bool),
    /// the activation was dropped before it ended (only legal when the cluster is joined)
    Dropped,
    /// the actor VALUE's own `Drop` began / ended (journalled only for `hold_drop` specs, whose
    /// Drop parks on a harness gate: it occupies the worker thread, not the runtime)
    ValueDropBegin,
    ValueDropEnd,
}

impl EvK {
    pub fn class(&self) -> String {
        match self {
            EvK::HookBegin(h) => format!("{h:?}.begin"),
            EvK::HookEnd(h, ok) => format!("{h:?}.end({})", if *ok { "ok" } else { "err" }),
            EvK::HandleBegin(_) => "Handle.begin".into(),
            EvK::HandleEnd(_, ok) => format!("Handle.end({})", if *ok { "ok" } else { "err" }),
            EvK::Dropped => "Dropped".into(),
            EvK::ValueDropBegin => "ValueDrop.begin".into(),
            EvK::ValueDropEnd => "ValueDrop.end".into(),
        }
    }
}

#[derive(Clone, Copy, PartialEq, Eq, Debug)]
pub enum Phase {
    /// parked at the gate of this hook
    Hook(Hook),
    Idle,
    /// parked at the gate of this message's handler
    Handling(usize),
    Exited,
    StartFailed,
    /// pre_start failed, the spawner has been told, and the actor value's Drop is parked at its
    /// gate (the worker-side task has not finished yet); the name must already be free
    DropHeld,
    /// the spawn was refused (name taken): no actor exists
    Refused,
}

#[derive(Clone, Copy, PartialEq, Eq, Debug)]
pub enum Exit {
    Stopped,
    Failed(u32),
}

#[derive(Clone, Copy, PartialEq, Eq, Debug)]
pub enum SpawnExp {
    Pending,
    Ok,
    StartErr(u32),
    NameTaken,
}

#[derive(Clone, Copy, PartialEq, Eq, Debug)]
pub enum Deliver {
    Ok,
    Full,
    Closed,
}

#[derive(Clone, Copy, PartialEq, Eq, Debug)]
pub enum CallExp {
    /// not a call
    None,
    /// refused at the mailbox (the request is handed back)
    Refused(Deliver),
    Waiting,
    Replied,
    /// the handler ended without replying (it failed)
    NoReply,
    /// accepted, but the actor exited without ever handling it: the property demands an explicit
    /// error once the actor is gone
    Orphaned(Exit),
}

#[derive(Clone, Debug)]
pub struct SpawnSpec {
    pub name: Option<usize>,
    pub cap: usize,
    pub pre_fail: bool,
    pub post_fail: bool,
    /// hooks whose gate is closed (the actor parks there until Open)
    pub holds: [bool; 4],
    pub supervised: bool,
    /// the pre_stop / post_stop hook returns Err
    pub pre_stop_fail: bool,
    pub post_stop_fail: bool,
    /// (only with `pre_fail`) the actor value's Drop parks at a harness gate
    pub hold_drop: bool,
}

impl SpawnSpec {
    pub fn code(&self) -> String {
        let mut s = String::from("Sp");
        match self.name {
            Some(n) => s.push_str(&format!("n{n}")),
            None => s.push('u'),
        }
        s.push_str(&format!("c{}", self.cap));
        if self.pre_fail {
            s.push_str("F0");
        }
        if self.post_fail {
            s.push_str("F1");
        }
        if self.pre_stop_fail {
            s.push_str("F2");
        }
        if self.post_stop_fail {
            s.push_str("F3");
        }
        s.push('h');
        for i in 0..4 {
            if self.holds[i] {
                s.push_str(&i.to_string());
            }
        }
        if self.supervised {
            s.push('S');
        }
        if self.hold_drop {
            s.push('D');
        }
        s
    }

    pub fn to_json(&self) -> Value {
        json!({"name": self.name, "cap": self.cap, "pre_fail": self.pre_fail, "post_fail": self.post_fail,
               "holds": self.holds.to_vec(), "supervised": self.supervised,
               "pre_stop_fail": self.pre_stop_fail, "post_stop_fail": self.post_stop_fail, "hold_drop": self.hold_drop})
    }

    pub fn from_json(v: &Value) -> Option<Self> {
        let h = v["holds"].as_array()?;
        let mut holds = [false; 4];
        for i in 0..4 {
            holds[i] = h.get(i)?.as_bool()?;
        }
        Some(SpawnSpec {
            name: v["name"].as_u64().map(|x| x as usize),
            cap: v["cap"].as_u64()? as usize,
            pre_fail: v["pre_fail"].as_bool()?,
            post_fail: v["post_fail"].as_bool()?,
            holds,
            supervised: v["supervised"].as_bool()?,
            pre_stop_fail: v["pre_stop_fail"].as_bool().unwrap_or(false),
            post_stop_fail: v["post_stop_fail"].as_bool().unwrap_or(false),
            hold_drop: v["hold_drop"].as_bool().unwrap_or(false),
        })
    }
}

#[derive(Clone, Debug, PartialEq)]
pub enum Step {
    Spawn(SpawnSpec2),
    Send { a: usize, fail: bool },
    Call { a: usize, fail: bool },
    Stop(usize),
    Open(usize),
    GJoin(usize),
    GLeave(usize),
    GSend,
    GCall,
}

/// index into the family's list of spawn specs (keeps `Step` small and comparable)
pub type SpawnSpec2 = usize;

impl Step {
    pub fn code(&self) -> String {
        match self {
            Step::Spawn(i) => format!("Spawn#{i}"),
            Step::Send { a, fail } => format!("Send{}({a})", if *fail { "Fail" } else { "" }),
            Step::Call { a, fail } => format!("Call{}({a})", if *fail { "Fail" } else { "" }),
            Step::Stop(a) => format!("Stop({a})"),
            Step::Open(a) => format!("Open({a})"),
            Step::GJoin(a) => format!("GJoin({a})"),
            Step::GLeave(a) => format!("GLeave({a})"),
            Step::GSend => "GSend".into(),
            Step::GCall => "GCall".into(),
        }
    }

    pub fn parse(s: &str) -> Option<Step> {
        let arg = |s: &str| -> Option<usize> { s.split('(').nth(1)?.trim_end_matches(')').parse().ok() };
        if let Some(r) = s.strip_prefix("Spawn#") {
            return r.parse().ok().map(Step::Spawn);
        }
        Some(match s.split('(').next()? {
            "Send" => Step::Send { a: arg(s)?, fail: false },
            "SendFail" => Step::Send { a: arg(s)?, fail: true },
            "Call" => Step::Call { a: arg(s)?, fail: false },
            "CallFail" => Step::Call { a: arg(s)?, fail: true },
            "Stop" => Step::Stop(arg(s)?),
            "Open" => Step::Open(arg(s)?),
            "GJoin" => Step::GJoin(arg(s)?),
            "GLeave" => Step::GLeave(arg(s)?),
            "GSend" => Step::GSend,
            "GCall" => Step::GCall,
            _ => return None,
        })
    }
}

#[derive(Clone, Debug)]
pub struct MActor {
    pub spec: SpawnSpec,
    pub phase: Phase,
    pub queue: VecDeque<usize>,
    pub stop_token: bool,
    /// the mailbox rejects new messages
    pub closed: bool,
    pub exit: Option<Exit>,
    pub journal: Vec<EvK>,
    pub spawn: SpawnExp,
    /// exit reported through the ActorHandle (None while running)
    pub handle: Option<Exit>,
    /// a stop was requested while messages were queued or being handled
    pub spawned_by_supervisor: bool,
    /// its name was taken over from a failed start whose actor value was still alive (parked in Drop)
    pub reused_name_of_held: bool,
}

impl MActor {
    pub fn parked(&self) -> bool {
        matches!(self.phase, Phase::Hook(_) | Phase::Handling(_) | Phase::DropHeld)
    }

    /// the harness holds a mailbox for it
    pub fn has_mailbox(&self) -> bool {
        self.spawn == SpawnExp::Ok
    }

    pub fn live(&self) -> bool {
        !matches!(self.phase, Phase::Exited | Phase::StartFailed | Phase::DropHeld | Phase::Refused)
    }

    /// between successful pre_start and the begin of the stop hooks
    pub fn running(&self) -> bool {
        self.spawn == SpawnExp::Ok && matches!(self.phase, Phase::Hook(Hook::PostStart) | Phase::Idle | Phase::Handling(_))
    }

    pub fn stopping(&self) -> bool {
        matches!(self.phase, Phase::Hook(Hook::PreStop) | Phase::Hook(Hook::PostStop))
    }
}

#[derive(Clone, Debug)]
pub struct MMsg {
    pub fail: bool,
    pub call: bool,
    pub via_group: bool,
    /// actor whose mailbox accepted it
    pub target: Option<usize>,
    pub deliver: Deliver,
    pub call_exp: CallExp,
    pub handled: bool,
}

#[derive(Clone, Copy, PartialEq, Eq, Debug)]
pub enum SupKind {
    Started,
    Terminated,
    Failed,
}

#[derive(Clone, Debug, PartialEq, Eq)]
pub struct SupEv {
    pub kind: SupKind,
    pub child: usize,
}

#[derive(Clone, Debug, Default)]
pub struct Group {
    pub members: Vec<usize>,
    pub cursor: usize,
}

#[derive(Clone, Debug)]
pub struct Model {
    pub actors: Vec<MActor>,
    pub msgs: Vec<MMsg>,
    /// name -> actor currently holding it (reserved, active or stopping)
    pub names: Vec<Option<usize>>,
    pub gcast: Group,
    pub gcall: Group,
    /// harness holds a membership token for this actor
    pub member_token: Vec<bool>,
    pub sup_log: Vec<SupEv>,
    pub respawn_budget: usize,
    /// result of `stop()` for the last Stop step
    pub last_stop: bool,
    /// spec-level fact about the last group send: a live, non-full member existed
    pub last_group_had_taker: bool,
}

pub fn code_pre(a: usize) -> u32 {
    1000 + a as u32
}
pub fn code_post(a: usize) -> u32 {
    2000 + a as u32
}
pub fn code_pre_stop(a: usize) -> u32 {
    4000 + a as u32
}
pub fn code_post_stop(a: usize) -> u32 {
    5000 + a as u32
}
pub fn code_msg(m: usize) -> u32 {
    3000 + m as u32
}

impl Model {
    pub fn new(nnames: usize, respawn_budget: usize) -> Self {
        Model {
            actors: Vec::new(),
            msgs: Vec::new(),
            names: vec![None; nnames],
            gcast: Group::default(),
            gcall: Group::default(),
            member_token: Vec::new(),
            sup_log: Vec::new(),
            respawn_budget,
            last_stop: false,
            last_group_had_taker: false,
        }
    }

    // ---- lifecycle ---------------------------------------------------------------------------

    pub fn spawn(&mut self, spec: SpawnSpec, by_supervisor: bool) -> usize {
        let a = self.actors.len();
        let mut act = MActor {
            spec: spec.clone(),
            phase: Phase::Refused,
            queue: VecDeque::new(),
            stop_token: false,
            closed: false,
            exit: None,
            journal: Vec::new(),
            spawn: SpawnExp::Pending,
            handle: None,
            spawned_by_supervisor: by_supervisor,
            reused_name_of_held: false,
        };
        self.member_token.push(false);
        if let Some(n) = spec.name {
            if self.names[n].is_some() {
                act.spawn = SpawnExp::NameTaken;
                self.actors.push(act);
                return a;
            }
            self.names[n] = Some(a);
            act.reused_name_of_held = self.actors.iter().any(|x| x.phase == Phase::DropHeld && x.spec.name == Some(n));
        }
        self.actors.push(act);
        self.enter_hook(a, Hook::PreStart);
        a
    }

    pub fn held_drops(&self) -> usize {
        self.actors.iter().filter(|x| x.phase == Phase::DropHeld).count()
    }

    /// A parked Drop blocks its worker thread: a spawn that reaches the dispatcher needs a worker
    /// that is not blocked (the harness sees to it that a free worker picks the task up, see
    /// `real_spawn`). Spawns that are refused at the registry never reach the dispatcher.
    pub fn can_spawn(&self, spec: &SpawnSpec, workers: usize) -> bool {
        spec.name.is_some_and(|n| self.names[n].is_some()) || self.held_drops() < workers
    }

    fn enter_hook(&mut self, a: usize, h: Hook) {
        self.actors[a].journal.push(EvK::HookBegin(h));
        if self.actors[a].spec.holds[h as usize] {
            self.actors[a].phase = Phase::Hook(h);
        } else {
            self.finish_hook(a, h);
        }
    }

    fn release_name(&mut self, a: usize) {
        if let Some(n) = self.actors[a].spec.name {
            if self.names[n] == Some(a) {
                self.names[n] = None;
            }
        }
    }

    fn finish_hook(&mut self, a: usize, h: Hook) {
        let ok = match h {
            Hook::PreStart => !self.actors[a].spec.pre_fail,
            Hook::PostStart => !self.actors[a].spec.post_fail,
            Hook::PreStop => !self.actors[a].spec.pre_stop_fail,
            Hook::PostStop => !self.actors[a].spec.post_stop_fail,
        };
        self.actors[a].journal.push(EvK::HookEnd(h, ok));
        match h {
            Hook::PreStart => {
                if ok {
                    self.actors[a].spawn = SpawnExp::Ok;
                    self.enter_hook(a, Hook::PostStart);
                } else {
                    self.actors[a].spawn = SpawnExp::StartErr(code_pre(a));
                    self.actors[a].closed = true;
                    // the name is free as soon as the start failure is reported
                    self.release_name(a);
                    if self.actors[a].spec.hold_drop {
                        self.actors[a].journal.push(EvK::ValueDropBegin);
                        self.actors[a].phase = Phase::DropHeld;
                    } else {
                        self.actors[a].phase = Phase::StartFailed;
                    }
                }
            }
            Hook::PostStart => {
                if ok {
                    if self.actors[a].spec.supervised {
                        self.sup_log.push(SupEv { kind: SupKind::Started, child: a });
                    }
                    self.idle_loop(a);
                } else {
                    self.actors[a].exit = Some(Exit::Failed(code_post(a)));
                    self.begin_finish(a);
                }
            }
            // both stop hooks always run, whatever they return; a failing stop hook turns a
            // graceful exit into Failed(its error) and leaves an earlier failure alone
            Hook::PreStop => {
                if !ok && self.actors[a].exit == Some(Exit::Stopped) {
                    self.actors[a].exit = Some(Exit::Failed(code_pre_stop(a)));
                }
                self.enter_hook(a, Hook::PostStop)
            }
            Hook::PostStop => {
                if !ok && self.actors[a].exit == Some(Exit::Stopped) {
                    self.actors[a].exit = Some(Exit::Failed(code_post_stop(a)));
                }
                let exit = self.actors[a].exit.expect("exit reason");
                self.actors[a].phase = Phase::Exited;
                self.actors[a].handle = Some(exit);
                self.release_name(a);
                // whatever is still queued will never be handled
                let q: Vec<usize> = self.actors[a].queue.drain(..).collect();
                for m in q {
                    if self.msgs[m].call {
                        self.msgs[m].call_exp = CallExp::Orphaned(exit);
                    }
                }
                if self.actors[a].spec.supervised {
                    let kind = if exit == Exit::Stopped { SupKind::Terminated } else { SupKind::Failed };
                    self.sup_log.push(SupEv { kind, child: a });
                    if self.respawn_budget > 0 {
                        self.respawn_budget -= 1;
                        let mut spec = self.actors[a].spec.clone();
                        spec.pre_fail = false;
                        spec.post_fail = false;
                        spec.pre_stop_fail = false;
                        spec.post_stop_fail = false;
                        spec.hold_drop = false;
                        spec.holds = [false; 4];
                        self.spawn(spec, true);
                    }
                }
            }
        }
    }

    fn begin_finish(&mut self, a: usize) {
        self.actors[a].closed = true;
        self.enter_hook(a, Hook::PreStop);
    }

    fn idle_loop(&mut self, a: usize) {
        if self.actors[a].stop_token {
            self.actors[a].exit = Some(Exit::Stopped);
            self.begin_finish(a);
        } else if let Some(m) = self.actors[a].queue.pop_front() {
            self.actors[a].phase = Phase::Handling(m);
            self.actors[a].journal.push(EvK::HandleBegin(m));
        } else {
            self.actors[a].phase = Phase::Idle;
        }
    }

    /// Open the gate the actor is parked at. Returns what was opened.
    pub fn open(&mut self, a: usize) -> Option<Phase> {
        let ph = self.actors[a].phase;
        match ph {
            Phase::Hook(h) => self.finish_hook(a, h),
            Phase::DropHeld => {
                self.actors[a].journal.push(EvK::ValueDropEnd);
                self.actors[a].phase = Phase::StartFailed;
            }
            Phase::Handling(m) => {
                let ok = !self.msgs[m].fail;
                self.actors[a].journal.push(EvK::HandleEnd(m, ok));
                self.msgs[m].handled = true;
                if self.msgs[m].call {
                    self.msgs[m].call_exp = if ok { CallExp::Replied } else { CallExp::NoReply };
                }
                if ok {
                    self.idle_loop(a);
                } else {
                    self.actors[a].exit = Some(Exit::Failed(code_msg(m)));
                    self.begin_finish(a);
                }
            }
            _ => return None,
        }
        Some(ph)
    }

    // ---- mailbox -----------------------------------------------------------------------------

    fn try_deliver(&mut self, a: usize, m: usize) -> Deliver {
        let act = &mut self.actors[a];
        if act.closed || !act.live() {
            return Deliver::Closed;
        }
        if act.phase == Phase::Idle {
            act.phase = Phase::Handling(m);
            act.journal.push(EvK::HandleBegin(m));
            return Deliver::Ok;
        }
        if act.queue.len() >= act.spec.cap {
            return Deliver::Full;
        }
        act.queue.push_back(m);
        Deliver::Ok
    }

    fn would_accept(&self, a: usize) -> bool {
        let act = &self.actors[a];
        !(act.closed || !act.live()) && (act.phase == Phase::Idle || act.queue.len() < act.spec.cap)
    }

    fn new_msg(&mut self, fail: bool, call: bool, via_group: bool) -> usize {
        self.msgs.push(MMsg { fail, call, via_group, target: None, deliver: Deliver::Closed, call_exp: CallExp::None, handled: false });
        self.msgs.len() - 1
    }

    fn record(&mut self, m: usize, target: Option<usize>, d: Deliver) {
        self.msgs[m].deliver = d;
        self.msgs[m].target = if d == Deliver::Ok { target } else { None };
        if self.msgs[m].call {
            self.msgs[m].call_exp = if d == Deliver::Ok { CallExp::Waiting } else { CallExp::Refused(d) };
        }
    }

    pub fn send(&mut self, a: usize, fail: bool, call: bool) -> usize {
        let m = self.new_msg(fail, call, false);
        let d = self.try_deliver(a, m);
        self.record(m, Some(a), d);
        m
    }

    pub fn stop(&mut self, a: usize) {
        let act = &mut self.actors[a];
        if act.closed || !act.live() {
            self.last_stop = false;
            return;
        }
        act.closed = true;
        act.stop_token = true;
        self.last_stop = true;
        if act.phase == Phase::Idle {
            self.idle_loop(a);
        }
    }

    // ---- groups ------------------------------------------------------------------------------

    pub fn gjoin(&mut self, a: usize) {
        self.gcast.members.push(a);
        self.gcall.members.push(a);
        self.member_token[a] = true;
    }

    pub fn gleave(&mut self, a: usize) {
        self.gcast.members.retain(|x| *x != a);
        self.gcall.members.retain(|x| *x != a);
        self.member_token[a] = false;
    }

    /// Documented routing: start at the member after the previous selection, try each member
    /// once, skip (and forget) closed ones, fall through full ones.
    /// `observed` = the member the real group was seen to pick (the model follows it).
    pub fn gsend(&mut self, call: bool, observed: Option<Option<usize>>) -> usize {
        let m = self.new_msg(false, call, true);
        let mut g = if call { self.gcall.clone() } else { self.gcast.clone() };
        self.last_group_had_taker = g.members.iter().any(|&a| self.would_accept(a));
        let mut result = (None, Deliver::Closed);
        if !g.members.is_empty() {
            let attempts = g.members.len();
            let mut idx = g.cursor % attempts;
            g.cursor = g.cursor.wrapping_add(1);
            let mut attempted = 0;
            let mut saw_full = false;
            let mut done = false;
            while attempted < attempts && !g.members.is_empty() {
                attempted += 1;
                let a = g.members[idx];
                let acc = self.would_accept(a);
                let act = &self.actors[a];
                if acc {
                    result = (Some(a), Deliver::Ok);
                    done = true;
                    break;
                } else if act.closed || !act.live() {
                    g.members.remove(idx);
                    if !g.members.is_empty() {
                        idx %= g.members.len();
                    }
                } else {
                    saw_full = true;
                    idx = (idx + 1) % g.members.len();
                }
            }
            if !done {
                result = (None, if saw_full { Deliver::Full } else { Deliver::Closed });
            }
        }
        if let Some(obs) = observed {
            // follow the real group's choice (which member is picked is not part of the property)
            result = match obs {
                Some(a) => (Some(a), Deliver::Ok),
                None => (None, if result.1 == Deliver::Ok { Deliver::Full } else { result.1 }),
            };
        }
        if call {
            self.gcall = g;
        } else {
            self.gcast = g;
        }
        if let (Some(a), Deliver::Ok) = result {
            if self.would_accept(a) {
                let d = self.try_deliver(a, m);
                self.record(m, Some(a), d);
                return m;
            }
        }
        let d = if result.1 == Deliver::Ok { Deliver::Full } else { result.1 };
        self.record(m, None, d);
        m
    }

    // ---- registry ----------------------------------------------------------------------------

    /// (must be visible, may be visible) for a name
    pub fn lookup_exp(&self, n: usize) -> (bool, bool) {
        match self.names[n] {
            Some(a) => {
                let act = &self.actors[a];
                (act.running(), act.running() || act.stopping())
            }
            None => (false, false),
        }
    }

    pub fn apply(&mut self, specs: &[SpawnSpec], s: &Step) {
        match s {
            Step::Spawn(i) => {
                self.spawn(specs[*i].clone(), false);
            }
            Step::Send { a, fail } => {
                self.send(*a, *fail, false);
            }
            Step::Call { a, fail } => {
                self.send(*a, *fail, true);
            }
            Step::Stop(a) => self.stop(*a),
            Step::Open(a) => {
                self.open(*a);
            }
            Step::GJoin(a) => self.gjoin(*a),
            Step::GLeave(a) => self.gleave(*a),
            Step::GSend => {
                self.gsend(false, None);
            }
            Step::GCall => {
                self.gsend(true, None);
            }
        }
    }
}
