//! One execution: two compio-quic endpoints in one compio runtime (real UDP over loopback, real
//! timers), the scenario of a grid row, the per-flow oracles, and (part B) the close-point
//! injection with one hand-polled future of every kind pending.
use std::{
    any::Any,
    cell::{Cell, RefCell},
    collections::{BTreeMap, BTreeSet, HashMap, VecDeque},
    future::{Future, poll_fn},
    pin::{Pin, pin},
    rc::Rc,
    sync::{
        Arc, Mutex, OnceLock,
        atomic::{AtomicBool, Ordering},
    },
    task::{Context, Poll, Wake, Waker},
    time::{Duration, Instant},
};

use compio_buf::{BufResult, bytes::Bytes};
use compio_io::{AsyncRead, AsyncWrite, AsyncWriteExt};
use compio_quic::{
    ClientBuilder, ClientConfig, Connection, Endpoint, RecvStream, SendStream, ServerBuilder, ServerConfig,
    TransportConfig, VarInt,
};
use compio_runtime::time::timeout;

use crate::model::*;

/// after a close point every pending future has to resolve within this time
pub const WATCHDOG: Duration = Duration::from_secs(5);
/// an un-closed run has to complete within this time
pub const RUN_LIMIT: Duration = Duration::from_secs(20);
/// a gated reader waits at most this long for "writer blocked or done" before each read
pub const GATE_MAX: Duration = Duration::from_secs(1);
/// after all streams are done, wait at most this long for outstanding datagrams (loss is legal)
pub const DGRAM_WAIT: Duration = Duration::from_millis(300);
pub const SETUP_LIMIT: Duration = Duration::from_secs(10);
/// if 40 x the smoothed round-trip estimate exceeds this, the run does not wait for the drain period
/// (`closed()`, `Endpoint::shutdown`): the estimate is sub-millisecond unless the machine is overloaded
pub const DRAIN_SKIP: Duration = Duration::from_secs(2);
/// part C runs (payload 1200) have to complete within this time
pub const PART_C_LIMIT: Duration = Duration::from_secs(3);
/// first byte of the datagrams the close-point injection sends to fill the datagram send buffer
const PROBE_DGRAM: u8 = 0xEE;

// ---------------------------------------------------------------------------------------------
// certificates / configs
// ---------------------------------------------------------------------------------------------

struct Certs {
    cert: Vec<u8>,
    key: Vec<u8>,
}

fn certs() -> &'static Certs {
    static C: OnceLock<Certs> = OnceLock::new();
    C.get_or_init(|| {
        let rcgen::CertifiedKey { cert, signing_key } =
            rcgen::generate_simple_self_signed(vec!["localhost".into()]).expect("rcgen");
        Certs { cert: cert.der().to_vec(), key: signing_key.serialize_der() }
    })
}

fn transport(row: &Row, extra_bidi: u32) -> TransportConfig {
    let mut t = TransportConfig::default();
    t.max_concurrent_uni_streams(row.limit.into());
    t.max_concurrent_bidi_streams((row.limit + extra_bidi).into());
    if row.win == Win::Small {
        t.stream_receive_window(SMALL_STREAM_WINDOW.into());
        t.receive_window(SMALL_CONN_WINDOW.into());
    }
    t.datagram_send_buffer_size(DGRAM_SEND_BUFFER);
    t
}

pub(crate) fn configs(row: &Row, probes: bool) -> (ServerConfig, ClientConfig) {
    let c = certs();
    let mut server = ServerBuilder::new_with_single_cert(vec![c.cert.clone().into()], c.key.clone().try_into().expect("key der"))
        .expect("server config")
        .build();
    let mut client = ClientBuilder::new_with_empty_roots()
        .with_custom_certificate(c.cert.clone().into())
        .expect("client roots")
        .with_no_crls()
        .build();
    // the server's limits govern the streams the client opens; the two probe streams of part B are
    // opened by the client and stay open, so the scenario keeps exactly `limit` free
    server.transport_config(Arc::new(transport(row, if probes { 2 } else { 0 })));
    client.transport_config(Arc::new(transport(row, 0)));
    (server, client)
}

// ---------------------------------------------------------------------------------------------
// small single-threaded notification primitive
// ---------------------------------------------------------------------------------------------

#[derive(Default)]
pub struct Notify {
    wakers: RefCell<Vec<Waker>>,
    generation: Cell<u64>,
}

impl Notify {
    pub fn notify(&self) {
        self.generation.set(self.generation.get() + 1);
        let ws = std::mem::take(&mut *self.wakers.borrow_mut());
        for w in ws {
            w.wake();
        }
    }

    /// waits until `cond()` or `until`; returns `cond()`
    pub async fn wait_for(&self, until: Instant, cond: impl Fn() -> bool) -> bool {
        loop {
            if cond() {
                return true;
            }
            let now = Instant::now();
            if now >= until {
                return false;
            }
            let g = self.generation.get();
            let _ = timeout(
                until - now,
                poll_fn(|cx| {
                    if self.generation.get() != g {
                        Poll::Ready(())
                    } else {
                        self.wakers.borrow_mut().push(cx.waker().clone());
                        Poll::Pending
                    }
                }),
            )
            .await;
        }
    }
}

// ---------------------------------------------------------------------------------------------
// hand-polled probe futures (each with its own waker: a missing wake-up is not masked by polls
// caused by other wake-ups)
// ---------------------------------------------------------------------------------------------

pub(crate) type DriverSlot = Arc<Mutex<Option<Waker>>>;

thread_local! {
    /// set while the harness polls something that is known to panic on the unchanged tree
    pub static EXPECT_PANIC: Cell<bool> = const { Cell::new(false) };
}

pub(crate) struct PFlag {
    pub(crate) woken: AtomicBool,
    driver: DriverSlot,
}

impl Wake for PFlag {
    fn wake(self: Arc<Self>) {
        self.wake_by_ref()
    }

    fn wake_by_ref(self: &Arc<Self>) {
        self.woken.store(true, Ordering::SeqCst);
        let w = self.driver.lock().unwrap().take();
        if let Some(w) = w {
            w.wake();
        }
    }
}

#[derive(Clone, Copy, PartialEq, Eq, Debug)]
pub(crate) enum Expect {
    /// has to resolve after the close point while all handles are still alive
    AfterClose,
    /// `Connection::closed`: resolves when the connection has drained (3 PTO after the close, a
    /// function of the measured round-trip time); watched with the drain deadline
    AfterDrain,
    /// `Endpoint::shutdown`: has to resolve once all handles have been dropped
    AfterRelease,
}

pub(crate) struct Probe {
    pub(crate) side: Side,
    pub(crate) kind: &'static str,
    fut: Option<Pin<Box<dyn Future<Output = String>>>>,
    pub(crate) flag: Arc<PFlag>,
    waker: Waker,
    pub(crate) result: Option<String>,
    pre_close: bool,
    expect: Expect,
    pub(crate) polls: u32,
}

impl Probe {
    pub(crate) fn new(side: Side, kind: &'static str, expect: Expect, slot: &DriverSlot, fut: Pin<Box<dyn Future<Output = String>>>) -> Self {
        let flag = Arc::new(PFlag { woken: AtomicBool::new(false), driver: slot.clone() });
        let waker = Waker::from(flag.clone());
        Probe { side, kind, fut: Some(fut), flag, waker, result: None, pre_close: false, expect, polls: 0 }
    }

    pub(crate) fn poll_now(&mut self) {
        let Some(f) = self.fut.as_mut() else { return };
        self.flag.woken.store(false, Ordering::SeqCst);
        self.polls += 1;
        let mut cx = Context::from_waker(&self.waker);
        if let Poll::Ready(s) = f.as_mut().poll(&mut cx) {
            self.result = Some(s);
            self.fut = None;
        }
    }
}

// ---------------------------------------------------------------------------------------------
// run context
// ---------------------------------------------------------------------------------------------

#[derive(Default)]
pub struct WState {
    /// the writer's current write returned Pending (flow control / stream window exhausted)
    blocked: Cell<bool>,
    done: Cell<bool>,
    finish_called: Cell<bool>,
    blocks: Cell<u64>,
}

struct TaskInfo {
    name: String,
    opkind: &'static str,
    detail: String,
    done: bool,
    core: bool,
}

#[derive(Default)]
struct ProbeStreams {
    pb1_send: Option<SendStream>,
    pb1_recv: Option<RecvStream>,
    pb2_send: Option<SendStream>,
    pb2_recv: Option<RecvStream>,
}

#[derive(Default)]
struct SideState {
    conn: RefCell<Option<Connection>>,
    ep: RefCell<Option<Endpoint>>,
    ps: RefCell<Option<ProbeStreams>>,
}

pub struct Ctx {
    spec: RunSpec,
    start: Instant,
    notify: Notify,
    armed: Cell<bool>,
    events: Cell<u64>,
    closed_at: Cell<Option<Instant>>,
    injected: Cell<bool>,
    final_close: Cell<bool>,
    sides: [SideState; 2],
    ws: RefCell<HashMap<(u64, Side), Rc<WState>>>,
    tasks: RefCell<Vec<TaskInfo>>,
    problems: RefCell<Vec<(String, String)>>,
    outcomes: RefCell<BTreeSet<String>>,
    counters: RefCell<BTreeMap<String, u64>>,
    log: RefCell<VecDeque<String>>,
    dg_seen: RefCell<[BTreeSet<usize>; 2]>,
    probes: RefCell<Vec<Probe>>,
    driver_slot: DriverSlot,
    marks: RefCell<Vec<(String, u64)>>,
    /// larger of the two round-trip estimates at the close point
    rtt_at_close: Cell<Duration>,
    /// (class, what): defects outside the statement of C16 noticed on the way
    side_findings: RefCell<Vec<(String, String)>>,
    /// streams obtained by probe futures (legitimate values): kept alive until the release phase,
    /// dropping them would finish / stop them and thereby change the scenario
    kept: Rc<RefCell<Vec<Box<dyn Any>>>>,
}

pub struct RunResult {
    /// harness-visible events of the scenario (before the final/injected close)
    pub events: u64,
    /// (key, what)
    pub problems: Vec<(String, String)>,
    /// (key, what): something did not complete within its watchdog
    pub hang: Option<(String, String)>,
    pub outcomes: Vec<String>,
    pub counters: BTreeMap<String, u64>,
    pub log_tail: Vec<String>,
    pub wall_ms: u64,
    /// milliseconds since start at: setup done, close, everything resolved
    pub marks: Vec<(String, u64)>,
    pub side_findings: Vec<(String, String)>,
}

pub(crate) fn short(s: String) -> String {
    if s.len() > 160 { format!("{}…", &s[..s.char_indices().take_while(|(i, _)| *i < 157).last().map(|(i, c)| i + c.len_utf8()).unwrap_or(0)]) } else { s }
}

impl Ctx {
    fn new(spec: RunSpec) -> Self {
        Ctx {
            spec,
            start: Instant::now(),
            notify: Notify::default(),
            armed: Cell::new(false),
            events: Cell::new(0),
            closed_at: Cell::new(None),
            injected: Cell::new(false),
            final_close: Cell::new(false),
            sides: Default::default(),
            ws: Default::default(),
            tasks: Default::default(),
            problems: Default::default(),
            outcomes: Default::default(),
            counters: Default::default(),
            log: Default::default(),
            dg_seen: Default::default(),
            probes: Default::default(),
            driver_slot: Default::default(),
            marks: Default::default(),
            rtt_at_close: Cell::new(Duration::ZERO),
            side_findings: Default::default(),
            kept: Default::default(),
        }
    }

    fn mark(&self, what: &str) {
        self.marks.borrow_mut().push((what.to_string(), self.start.elapsed().as_millis() as u64));
    }

    fn row(&self) -> &Row {
        &self.spec.row
    }

    fn scenario(&self) -> &'static str {
        match (self.spec.pre, self.spec.close.is_some()) {
            (Pre::ClosedDropped, _) => "closed-future-dropped",
            (Pre::ClosedTwice, _) => "closed-future-twice",
            (_, true) => "close",
            (_, false) => "grid",
        }
    }

    fn conn(&self, side: Side) -> Connection {
        self.sides[side.idx()].conn.borrow().clone().expect("connection present")
    }

    fn is_closed(&self) -> bool {
        self.closed_at.get().is_some()
    }

    fn count(&self, k: &str) {
        *self.counters.borrow_mut().entry(k.to_string()).or_insert(0) += 1;
    }

    fn outcome(&self, s: String) {
        self.outcomes.borrow_mut().insert(s);
    }

    fn note(&self, s: String) {
        let mut l = self.log.borrow_mut();
        if l.len() >= 80 {
            l.pop_front();
        }
        l.push_back(s);
    }

    /// a violation of the data / protocol oracle
    fn problem(&self, oracle: &str, cause: &str, what: String) {
        let key = format!("{}:{}:{}:{}", self.scenario(), oracle, cause, self.row().class());
        self.note(format!("PROBLEM {key}: {what}"));
        self.problems.borrow_mut().push((key, what));
    }

    /// relation of `side` to the closing side (for keys / outcome classes)
    fn rel(&self, side: Side) -> &'static str {
        match self.spec.close {
            Some(c) if c.side == side => "local",
            Some(_) => "remote",
            None => side.name(),
        }
    }

    /// an operation of the scenario failed
    fn op_failed(&self, side: Side, op: &str, err: String) {
        if self.is_closed() {
            let kind = self.spec.close.map(|c| c.kind.name()).unwrap_or("final-close");
            self.outcome(format!("after-close:{kind}:{}:{op}:{}", self.rel(side), short(err.clone())));
            self.note(format!("{}:{op} failed after close: {err}", side.name()));
        } else if !self.problems.borrow().is_empty() {
            self.note(format!("{}:{op} failed (secondary): {err}", side.name()));
        } else {
            self.problem("operation", &format!("unexpected-error.{op}"), format!("{} {op} failed although nothing was closed: {err}", side.name()));
        }
    }

    fn wstate(&self, sid: u64, writer: Side) -> Rc<WState> {
        self.ws.borrow_mut().entry((sid, writer)).or_default().clone()
    }

    fn new_task(&self, name: String, core: bool) -> usize {
        let mut t = self.tasks.borrow_mut();
        t.push(TaskInfo { name, opkind: "start", detail: String::new(), done: false, core });
        t.len() - 1
    }

    fn set_op(&self, tid: usize, opkind: &'static str, detail: String) {
        let mut t = self.tasks.borrow_mut();
        t[tid].opkind = opkind;
        t[tid].detail = detail;
    }

    fn task_done(&self, tid: usize) {
        self.tasks.borrow_mut()[tid].done = true;
        self.notify.notify();
    }

    fn spawn<F: Future<Output = ()> + 'static>(self: &Rc<Self>, name: String, core: bool, f: impl FnOnce(Rc<Ctx>, usize) -> F) {
        let tid = self.new_task(name, core);
        let fut = f(self.clone(), tid);
        let me = self.clone();
        compio_runtime::spawn(async move {
            fut.await;
            me.task_done(tid);
        })
        .detach();
    }

    fn tasks_done(&self, core_only: bool) -> bool {
        self.tasks.borrow().iter().all(|t| t.done || (core_only && !t.core))
    }

    fn probes_resolved(&self, which: Expect) -> bool {
        self.probes.borrow().iter().all(|p| p.result.is_some() || p.expect != which)
    }

    fn deadline(&self) -> Instant {
        match self.closed_at.get() {
            Some(t) => t + WATCHDOG,
            // part C runs are tiny (payload <= 1200): a short limit keeps a stranded run cheap
            None if self.spec.pre != Pre::Nothing => self.start + PART_C_LIMIT,
            None => self.start + RUN_LIMIT,
        }
    }

    /// waits for `cond` under the watchdog that applies (it changes when the close point is hit)
    async fn wait_cond(&self, cond: impl Fn() -> bool) -> bool {
        loop {
            if cond() {
                return true;
            }
            let dl = self.deadline();
            let now = Instant::now();
            if now >= dl {
                return false;
            }
            let slice = dl.min(now + Duration::from_millis(250));
            self.notify.wait_for(slice, &cond).await;
        }
    }

    /// one harness-visible event (a completed write / read / open / accept / datagram operation)
    fn event(self: &Rc<Self>, what: &str) {
        if !self.armed.get() || self.is_closed() {
            return;
        }
        let n = self.events.get() + 1;
        self.events.set(n);
        self.note(format!("#{n} {what}"));
        if let Some(c) = self.spec.close
            && c.k == n
        {
            self.inject();
        }
    }

    fn describe_hang(&self, phase: &str) -> (String, String) {
        let mut lost_wake = false;
        let mut kinds = BTreeSet::new();
        let mut lines = Vec::new();
        if self.spec.pre == Pre::ClosedDropped {
            lines.push("both sides created a Connection::closed() future, polled it once and dropped it before the scenario (dropping it cancels the connection's worker task: nothing is transmitted afterwards)".to_string());
        }
        for t in self.tasks.borrow().iter().filter(|t| !t.done) {
            let side = if t.name.starts_with("cli") { Side::Client } else { Side::Server };
            kinds.insert(format!("{}.task.{}", self.rel(side), t.opkind));
            lines.push(format!("task {} pending in {} {}", t.name, t.opkind, t.detail));
        }
        for p in self.probes.borrow_mut().iter_mut().filter(|p| p.result.is_none()) {
            let skip = match phase {
                "after-close" => p.expect != Expect::AfterClose,
                "drain" => p.expect == Expect::AfterRelease,
                _ => false,
            };
            if skip {
                continue;
            }
            kinds.insert(format!("{}.{}", self.rel(p.side), p.kind));
            let (polls, woken) = (p.polls, p.flag.woken.load(Ordering::SeqCst));
            // diagnosis only (the verdict is already "not woken within the watchdog"): does the
            // future resolve when it is polled again without having been woken?
            p.poll_now();
            let diag = match &p.result {
                Some(r) => {
                    lost_wake = true;
                    format!("a poll without wake-up now yields {r}: the wake-up was lost")
                }
                None => "still pending when polled again: the awaited condition has not occurred".to_string(),
            };
            lines.push(format!("pending {} future on {} ({polls} polls, woken={woken}; {diag})", p.kind, p.side.name()));
        }
        for side in Side::BOTH {
            if let Some(c) = self.sides[side.idx()].conn.borrow().as_ref() {
                let st = c.stats();
                lines.push(format!(
                    "[{} stats: rtt {:?}, udp tx {} rx {} datagrams, lost packets {}, congestion events {}, close reason {:?}]",
                    side.name(),
                    c.rtt(),
                    st.udp_tx.datagrams,
                    st.udp_rx.datagrams,
                    st.path.lost_packets,
                    st.path.congestion_events,
                    c.close_reason()
                ));
            }
        }
        let ck = self.spec.close.map(|c| c.kind.name()).unwrap_or("none");
        if self.spec.pre != Pre::Nothing {
            kinds.clear();
            kinds.insert(self.row().class());
        }
        // After Endpoint::close + shutdown the closing endpoint is gone once its drain period is
        // over: it no longer answers the peer's packets with CONNECTION_CLOSE. A peer that missed the
        // one CONNECTION_CLOSE datagram (real UDP on a loaded machine) legitimately learns of the
        // close only from its idle timeout, which is far beyond the watchdog. Only the REMOTE side
        // pending, without a lost wake-up and without having been told (no close reason), is
        // therefore not a verdict about compio-quic: it is counted (see PEER_NEVER_TOLD).
        let remote_untold = self.spec.close.is_some_and(|c| {
            let remote = if c.side == Side::Client { Side::Server } else { Side::Client };
            self.sides[remote.idx()].conn.borrow().as_ref().is_some_and(|c| c.close_reason().is_none())
        });
        let legal = phase == "after-close" && ck == "endpoint-shutdown" && !lost_wake && remote_untold && !kinds.is_empty() && kinds.iter().all(|k| k.starts_with("remote."));
        let key = format!(
            "{}:never-stranded:{}:{}:{}{}",
            self.scenario(),
            phase,
            ck,
            kinds.iter().cloned().collect::<Vec<_>>().join("+"),
            if legal { PEER_NEVER_TOLD } else { "" }
        );
        let what = format!(
            "{} [{}] {}: not resolved within the watchdog: {}; last events: {}",
            self.row().label(),
            self.spec.close.map(|c| format!("{} by {} after event {}", c.kind.name(), c.side.name(), c.k)).unwrap_or_else(|| "no close".into()),
            phase,
            lines.join("; "),
            self.log.borrow().iter().rev().take(12).rev().cloned().collect::<Vec<_>>().join(" | ")
        );
        (key, what)
    }
}

/// key suffix of a hang that is legal (see `describe_hang`): counted, never reported
pub const PEER_NEVER_TOLD: &str = ":peer-never-told";

// ---------------------------------------------------------------------------------------------
// flows
// ---------------------------------------------------------------------------------------------

/// polls `f`; records "the writer reports blocked" whenever a poll returns Pending
async fn observe_blocked<F: Future>(ctx: &Ctx, ws: &WState, f: F) -> F::Output {
    let mut f = pin!(f);
    poll_fn(|cx| {
        let r = f.as_mut().poll(cx);
        match &r {
            Poll::Pending => {
                if !ws.blocked.replace(true) {
                    ws.blocks.set(ws.blocks.get() + 1);
                    ctx.count("writer_blocked");
                    ctx.notify.notify();
                }
            }
            Poll::Ready(_) => ws.blocked.set(false),
        }
        r
    })
    .await
}

/// counts when a future was pending at least once
async fn observe_pending<F: Future>(ctx: &Ctx, counter: &str, f: F) -> F::Output {
    let mut f = pin!(f);
    let mut seen = false;
    poll_fn(|cx| {
        let r = f.as_mut().poll(cx);
        if r.is_pending() && !seen {
            seen = true;
            ctx.count(counter);
        }
        r
    })
    .await
}

async fn write_flow(ctx: Rc<Ctx>, tid: usize, side: Side, mut send: SendStream) {
    let row = ctx.row().clone();
    let sid: u64 = send.id().into();
    let seed = flow_seed(sid, side);
    let ws = ctx.wstate(sid, side);
    let data = gen_data(seed, row.payload);
    let label = format!("{}:s{sid}", side.name());
    let len = data.len();
    let res: Result<(), (&'static str, String)> = async {
        let mut pos = 0usize;
        match (row.api, row.wchunk.size()) {
            (Api::Io, None) => {
                ctx.set_op(tid, "write", format!("write_all({len}) on stream {sid}"));
                let BufResult(r, _) = observe_blocked(&ctx, &ws, send.write_all(data.clone())).await;
                r.map_err(|e| ("write", format!("{e:?}")))?;
                ctx.event(&format!("{label}:write_all({len})"));
            }
            (Api::Io, Some(c)) => {
                while pos < len {
                    let end = (pos + c).min(len);
                    ctx.set_op(tid, "write", format!("write({}) at {pos} on stream {sid}", end - pos));
                    let BufResult(r, _) = observe_blocked(&ctx, &ws, send.write(data[pos..end].to_vec())).await;
                    let n = r.map_err(|e| ("write", format!("{e:?}")))?;
                    if n == 0 || n > end - pos {
                        ctx.problem("stream-bytes", "write-count", format!("{}: write of {} bytes at {pos} on stream {sid} returned {n}", row.label(), end - pos));
                        return Ok(());
                    }
                    pos += n;
                    ctx.event(&format!("{label}:write->{n}"));
                }
            }
            (Api::Chunks, None) => {
                let third = len / 3;
                let mut bufs = [
                    Bytes::copy_from_slice(&data[..third]),
                    Bytes::copy_from_slice(&data[third..2 * third]),
                    Bytes::copy_from_slice(&data[2 * third..]),
                ];
                ctx.set_op(tid, "write", format!("write_all_chunks({len} in 3) on stream {sid}"));
                observe_blocked(&ctx, &ws, send.write_all_chunks(&mut bufs)).await.map_err(|e| ("write", format!("{e:?}")))?;
                ctx.event(&format!("{label}:write_all_chunks({len})"));
            }
            (Api::Chunks, Some(c)) => {
                while pos < len {
                    let end = (pos + c).min(len);
                    let mut bufs = [Bytes::copy_from_slice(&data[pos..end])];
                    ctx.set_op(tid, "write", format!("write_chunks({}) at {pos} on stream {sid}", end - pos));
                    let w = observe_blocked(&ctx, &ws, send.write_chunks(&mut bufs)).await.map_err(|e| ("write", format!("{e:?}")))?;
                    if w.bytes == 0 || w.bytes > end - pos || bufs[0].len() != end - pos - w.bytes {
                        ctx.problem(
                            "stream-bytes",
                            "write-count",
                            format!("{}: write_chunks of {} bytes at {pos} on stream {sid} returned {:?}, {} bytes left in the chunk", row.label(), end - pos, w, bufs[0].len()),
                        );
                        return Ok(());
                    }
                    pos += w.bytes;
                    ctx.event(&format!("{label}:write_chunks->{}", w.bytes));
                }
            }
        }
        ws.finish_called.set(true);
        send.finish().map_err(|e| ("finish", format!("{e:?}")))?;
        ws.done.set(true);
        ctx.notify.notify();
        ctx.event(&format!("{label}:finish"));
        ctx.set_op(tid, "stopped", format!("stopped() after finish on stream {sid}"));
        match send.stopped().await {
            Ok(None) => ctx.event(&format!("{label}:stopped->None")),
            Ok(Some(code)) => {
                // (a reader that found a problem drops its stream, which stops it: secondary)
                if !ctx.is_closed() && ctx.problems.borrow().is_empty() {
                    ctx.problem("stream-bytes", "stopped-by-peer", format!("{}: stopped() on stream {sid} yielded stop code {code} although the reader never stops", row.label()));
                }
            }
            Err(e) => return Err(("stopped", format!("{e:?}"))),
        }
        Ok(())
    }
    .await;
    if let Err((op, e)) = res {
        ctx.op_failed(side, op, e);
    }
    if ws.blocks.get() > 0 {
        ctx.count("flows_with_blocked_writer");
    }
    ws.blocked.set(false);
    ws.done.set(true);
    ctx.notify.notify();
}

async fn read_flow(ctx: Rc<Ctx>, tid: usize, side: Side, mut recv: RecvStream) {
    let row = ctx.row().clone();
    let sid: u64 = recv.id().into();
    let writer = side.other();
    let seed = flow_seed(sid, writer);
    let ws = ctx.wstate(sid, writer);
    let payload = row.payload as u64;
    let label = format!("{}:s{sid}", side.name());
    let odd = (sid >> 2) & 1 == 1;
    let res: Result<(), (&'static str, String)> = async {
        let mut pos = 0u64;
        // returns false on mismatch
        let verify = |pos: u64, bytes: &[u8], how: &str| -> bool {
            if let Some(i) = mismatch(seed, pos, bytes) {
                ctx.problem(
                    "stream-bytes",
                    "mismatch",
                    format!(
                        "{}: stream {sid} read by {}: {how} delivered {} bytes for position {pos}; byte at position {} is {:#04x}, written was {:#04x} (bytes written are a function of the position: out of order / repeated / foreign data)",
                        row.label(),
                        side.name(),
                        bytes.len(),
                        pos + i as u64,
                        bytes[i],
                        byte_at(seed, pos + i as u64)
                    ),
                );
                false
            } else {
                true
            }
        };
        let mut eof = false;
        while !eof {
            if row.pacing == Pacing::Gated {
                ctx.set_op(tid, "gate", format!("reader of stream {sid} gated at {pos}"));
                let open = ctx.notify.wait_for(Instant::now() + GATE_MAX, || ws.blocked.get() || ws.done.get() || ctx.is_closed()).await;
                if !open {
                    ctx.count("gate_timeouts");
                } else if ws.blocked.get() {
                    ctx.count("gate_opened_by_blocked_writer");
                } else {
                    ctx.count("gate_opened_by_finished_writer");
                }
            }
            match (row.api, row.rchunk) {
                (Api::Io, ch) => {
                    let cap = ch.size().unwrap_or(row.payload + 64);
                    ctx.set_op(tid, "read", format!("read(cap {cap}) at {pos} on stream {sid}"));
                    let BufResult(r, buf) = recv.read(Vec::with_capacity(cap)).await;
                    let n = r.map_err(|e| ("read", format!("{e:?}")))?;
                    if n != buf.len() || n > cap {
                        ctx.problem("stream-bytes", "read-count", format!("{}: read(cap {cap}) at {pos} on stream {sid} returned {n}, buffer length {}", row.label(), buf.len()));
                        return Ok(());
                    }
                    if n == 0 {
                        eof = true;
                    } else {
                        if !verify(pos, &buf, "read") {
                            return Ok(());
                        }
                        pos += n as u64;
                    }
                    ctx.event(&format!("{label}:read->{n}"));
                }
                (Api::Chunks, Chunk::All) if odd && pos == 0 && payload >= 2 => {
                    // on every second stream a short prefix is taken through read_chunk first, so
                    // that read_to_end starts at a non-zero stream position (seeded change C16-c m2)
                    ctx.set_op(tid, "read", format!("read_chunk(3) prefix at {pos} on stream {sid}"));
                    match recv.read_chunk(3, true).await.map_err(|e| ("read", format!("{e:?}")))? {
                        None => eof = true,
                        Some(c) => {
                            if c.offset != pos || c.bytes.is_empty() || c.bytes.len() > 3 {
                                ctx.problem(
                                    "stream-bytes",
                                    "chunk-offset",
                                    format!("{}: ordered read_chunk(3) on stream {sid} at position {pos} returned offset {} length {}", row.label(), c.offset, c.bytes.len()),
                                );
                                return Ok(());
                            }
                            if !verify(pos, &c.bytes, "read_chunk") {
                                return Ok(());
                            }
                            pos += c.bytes.len() as u64;
                            ctx.count("read_to_end_after_a_prefix");
                        }
                    }
                    ctx.event(&format!("{label}:read_chunk-prefix"));
                }
                (Api::Chunks, Chunk::All) => {
                    ctx.set_op(tid, "read", format!("read_to_end at {pos} on stream {sid}"));
                    let BufResult(r, buf) = recv.read_to_end(Vec::new()).await;
                    let n = r.map_err(|e| ("read", format!("{e:?}")))?;
                    if n != buf.len() {
                        ctx.problem("stream-bytes", "read-count", format!("{}: read_to_end on stream {sid} returned {n}, buffer length {}", row.label(), buf.len()));
                        return Ok(());
                    }
                    if !verify(pos, &buf, "read_to_end") {
                        return Ok(());
                    }
                    pos += n as u64;
                    eof = true;
                    ctx.event(&format!("{label}:read_to_end->{n}"));
                }
                (Api::Chunks, Chunk::K) if odd => {
                    let mut bufs = [Bytes::new(), Bytes::new()];
                    ctx.set_op(tid, "read", format!("read_chunks(2) at {pos} on stream {sid}"));
                    match recv.read_chunks(&mut bufs).await.map_err(|e| ("read", format!("{e:?}")))? {
                        None => eof = true,
                        Some(n) => {
                            if n == 0 || n > 2 {
                                ctx.problem("stream-bytes", "read-count", format!("{}: read_chunks(2) on stream {sid} returned {n}", row.label()));
                                return Ok(());
                            }
                            for b in &bufs[..n] {
                                if !verify(pos, b, "read_chunks") {
                                    return Ok(());
                                }
                                pos += b.len() as u64;
                            }
                        }
                    }
                    ctx.event(&format!("{label}:read_chunks"));
                }
                (Api::Chunks, ch) => {
                    let max = ch.size().unwrap();
                    ctx.set_op(tid, "read", format!("read_chunk({max}) at {pos} on stream {sid}"));
                    match recv.read_chunk(max, true).await.map_err(|e| ("read", format!("{e:?}")))? {
                        None => eof = true,
                        Some(c) => {
                            if c.offset != pos || c.bytes.is_empty() || c.bytes.len() > max {
                                ctx.problem(
                                    "stream-bytes",
                                    "chunk-offset",
                                    format!("{}: ordered read_chunk({max}) on stream {sid} at position {pos} returned offset {} length {}", row.label(), c.offset, c.bytes.len()),
                                );
                                return Ok(());
                            }
                            if !verify(pos, &c.bytes, "read_chunk") {
                                return Ok(());
                            }
                            pos += c.bytes.len() as u64;
                        }
                    }
                    ctx.event(&format!("{label}:read_chunk"));
                }
            }
            if pos > payload {
                ctx.problem("stream-bytes", "extra-bytes", format!("{}: stream {sid} delivered {pos} bytes, only {payload} were written", row.label()));
                return Ok(());
            }
        }
        if pos < payload {
            ctx.problem(
                "end-of-stream",
                "early",
                format!("{}: stream {sid} read by {}: end-of-stream after {pos} of {payload} bytes (finish() called by the writer: {})", row.label(), side.name(), ws.finish_called.get()),
            );
            return Ok(());
        }
        if !ws.finish_called.get() {
            ctx.problem("end-of-stream", "before-finish", format!("{}: stream {sid}: end-of-stream observed before the writer called finish()", row.label()));
            return Ok(());
        }
        // end-of-stream is stable
        ctx.set_op(tid, "read", format!("read after end-of-stream on stream {sid}"));
        let again = match row.api {
            Api::Io => {
                let BufResult(r, _) = recv.read(Vec::with_capacity(8)).await;
                r.map(|n| n == 0).map_err(|e| format!("{e:?}"))
            }
            Api::Chunks => recv.read_chunk(8, true).await.map(|c| c.is_none()).map_err(|e| format!("{e:?}")),
        };
        match again {
            Ok(true) => {}
            Ok(false) => ctx.problem("end-of-stream", "not-stable", format!("{}: stream {sid}: a read after end-of-stream returned data", row.label())),
            Err(e) => return Err(("read", e)),
        }
        ctx.count("flows_verified");
        Ok(())
    }
    .await;
    if let Err((op, e)) = res {
        ctx.op_failed(side, op, e);
    }
}

fn start_scenario(ctx: &Rc<Ctx>) {
    let plan = ctx.row().streams.plan();
    for side in Side::BOTH {
        let n_uni_in = plan.iter().filter(|(o, bi)| *o != side && !*bi).count();
        let n_bi_in = plan.iter().filter(|(o, bi)| *o != side && *bi).count();
        if n_uni_in > 0 {
            ctx.spawn(format!("{}:accept_uni", side.name()), true, |ctx, tid| async move {
                let conn = ctx.conn(side);
                for i in 0..n_uni_in {
                    ctx.set_op(tid, "accept_uni", format!("accept_uni #{i}"));
                    match conn.accept_uni().await {
                        Ok(r) => {
                            ctx.event(&format!("{}:accept_uni->s{}", side.name(), u64::from(r.id())));
                            ctx.spawn(format!("{}:reader:s{}", side.name(), u64::from(r.id())), true, |ctx, tid| read_flow(ctx, tid, side, r));
                        }
                        Err(e) => {
                            ctx.op_failed(side, "accept_uni", format!("{e:?}"));
                            break;
                        }
                    }
                }
            });
        }
        if n_bi_in > 0 {
            ctx.spawn(format!("{}:accept_bi", side.name()), true, |ctx, tid| async move {
                let conn = ctx.conn(side);
                for i in 0..n_bi_in {
                    ctx.set_op(tid, "accept_bi", format!("accept_bi #{i}"));
                    match conn.accept_bi().await {
                        Ok((s, r)) => {
                            ctx.event(&format!("{}:accept_bi->s{}", side.name(), u64::from(r.id())));
                            ctx.spawn(format!("{}:reader:s{}", side.name(), u64::from(r.id())), true, |ctx, tid| read_flow(ctx, tid, side, r));
                            ctx.spawn(format!("{}:writer:s{}", side.name(), u64::from(s.id())), true, |ctx, tid| write_flow(ctx, tid, side, s));
                        }
                        Err(e) => {
                            ctx.op_failed(side, "accept_bi", format!("{e:?}"));
                            break;
                        }
                    }
                }
            });
        }
        for (ord, (opener, bi)) in plan.iter().copied().enumerate() {
            if opener != side {
                continue;
            }
            ctx.spawn(format!("{}:opener{ord}", side.name()), true, move |ctx, tid| async move {
                let conn = ctx.conn(side);
                if bi {
                    ctx.set_op(tid, "open_bi", "open_bi_wait".into());
                    match observe_pending(&ctx, "open_wait_blocked_by_stream_limit", conn.open_bi_wait()).await {
                        Ok((s, r)) => {
                            ctx.event(&format!("{}:open_bi->s{}", side.name(), u64::from(s.id())));
                            ctx.spawn(format!("{}:reader:s{}", side.name(), u64::from(r.id())), true, |ctx, tid| read_flow(ctx, tid, side, r));
                            write_flow(ctx, tid, side, s).await;
                        }
                        Err(e) => ctx.op_failed(side, "open_bi", format!("{e:?}")),
                    }
                } else {
                    ctx.set_op(tid, "open_uni", "open_uni_wait".into());
                    match observe_pending(&ctx, "open_wait_blocked_by_stream_limit", conn.open_uni_wait()).await {
                        Ok(s) => {
                            ctx.event(&format!("{}:open_uni->s{}", side.name(), u64::from(s.id())));
                            write_flow(ctx, tid, side, s).await;
                        }
                        Err(e) => ctx.op_failed(side, "open_uni", format!("{e:?}")),
                    }
                }
            });
        }
        let nd = ctx.row().dgrams;
        if nd > 0 {
            ctx.spawn(format!("{}:dgram-send", side.name()), true, move |ctx, tid| async move {
                let conn = ctx.conn(side);
                for i in 0..nd {
                    let data = Bytes::from(dgram(side, i));
                    let r = if i % 2 == 0 {
                        ctx.set_op(tid, "send_datagram", format!("send_datagram #{i}"));
                        conn.send_datagram(data)
                    } else {
                        ctx.set_op(tid, "send_datagram_wait", format!("send_datagram_wait #{i}"));
                        conn.send_datagram_wait(data).await
                    };
                    match r {
                        Ok(()) => ctx.event(&format!("{}:dgram-send#{i}", side.name())),
                        Err(e) => {
                            ctx.op_failed(side, "send_datagram", format!("{e:?}"));
                            break;
                        }
                    }
                }
            });
            ctx.spawn(format!("{}:dgram-recv", side.name()), false, move |ctx, tid| async move {
                let conn = ctx.conn(side);
                let peer = side.other();
                loop {
                    ctx.set_op(tid, "recv_datagram", "recv_datagram".into());
                    match conn.recv_datagram().await {
                        Ok(b) if b.first() == Some(&PROBE_DGRAM) => {
                            // sent by the close-point injection of the peer, not part of the scenario
                            ctx.count("probe_datagrams_seen_by_scenario");
                        }
                        Ok(b) => {
                            let idx = if b.len() >= 2 && b[0] == peer.idx() as u8 && (b[1] as usize) < nd { Some(b[1] as usize) } else { None };
                            match idx {
                                None => ctx.problem(
                                    "datagrams",
                                    "unknown",
                                    format!("{}: {} received a datagram of {} bytes that the peer never sent (header {:?})", ctx.row().label(), side.name(), b.len(), &b[..b.len().min(2)]),
                                ),
                                Some(i) if b[..] != dgram(peer, i)[..] => ctx.problem(
                                    "datagrams",
                                    "corrupt",
                                    format!("{}: {} received datagram #{i} with {} bytes, sent were {} bytes / content differs", ctx.row().label(), side.name(), b.len(), dgram(peer, i).len()),
                                ),
                                Some(i) => {
                                    if !ctx.dg_seen.borrow_mut()[side.idx()].insert(i) {
                                        ctx.problem("datagrams", "duplicate", format!("{}: {} received datagram #{i} twice", ctx.row().label(), side.name()));
                                    }
                                }
                            }
                            ctx.event(&format!("{}:dgram-recv", side.name()));
                            ctx.notify.notify();
                        }
                        Err(e) => {
                            if !ctx.is_closed() {
                                ctx.op_failed(side, "recv_datagram", format!("{e:?}"));
                            }
                            break;
                        }
                    }
                }
            });
        }
    }
}

// ---------------------------------------------------------------------------------------------
// setup
// ---------------------------------------------------------------------------------------------

/// two endpoints on loopback and one established connection: (client endpoint, server endpoint,
/// client connection, server connection)
pub(crate) async fn connect(row: &Row, probes: bool) -> Result<(Endpoint, Endpoint, Connection, Connection), String> {
    let (sc, cc) = configs(row, probes);
    let server = Endpoint::server("127.0.0.1:0", sc).await.map_err(|e| format!("server endpoint: {e}"))?;
    let client = Endpoint::client("127.0.0.1:0").await.map_err(|e| format!("client endpoint: {e}"))?;
    let addr = server.local_addr().map_err(|e| format!("local_addr: {e}"))?;
    let connecting = client.connect(addr, "localhost", Some(cc)).map_err(|e| format!("connect: {e:?}"))?;
    let (c, s) = futures_util::join!(connecting, async {
        match server.wait_incoming().await {
            Some(inc) => inc.await.map_err(|e| format!("accept connection: {e:?}")),
            None => Err("wait_incoming returned None".to_string()),
        }
    });
    let c = c.map_err(|e| format!("handshake (client): {e:?}"))?;
    let s = s?;
    Ok((client, server, c, s))
}

async fn setup(ctx: &Rc<Ctx>) -> Result<(), String> {
    let (client, server, c, s) = connect(ctx.row(), ctx.spec.probes).await?;
    *ctx.sides[0].conn.borrow_mut() = Some(c);
    *ctx.sides[1].conn.borrow_mut() = Some(s);
    *ctx.sides[0].ep.borrow_mut() = Some(client);
    *ctx.sides[1].ep.borrow_mut() = Some(server);
    Ok(())
}

/// writes junk until the stream reports Blocked (the peer never reads this stream)
async fn fill_until_blocked(s: &mut SendStream) -> Result<usize, String> {
    let mut total = 0usize;
    for _ in 0..4096 {
        let fut = s.write(vec![0x55u8; 32 * 1024]);
        let mut fut = pin!(fut);
        match futures_util::poll!(fut.as_mut()) {
            Poll::Pending => return Ok(total), // write is cancel-safe: nothing was taken
            Poll::Ready(BufResult(Ok(n), _)) => total += n,
            Poll::Ready(BufResult(Err(e), _)) => return Err(format!("fill: {e:?}")),
        }
    }
    Err("stream never blocked".into())
}

/// Part B: two bidirectional streams opened by the client that stay open for the whole run.
/// PB1: one byte client->server, read by the server; afterwards both receive halves are empty
/// (pending `read`) and both send halves are idle (pending `stopped`).
/// PB2: both directions filled until flow control blocks and never read (pending `write`; the
/// receive halves serve `received_reset`).
async fn setup_probe_streams(ctx: &Rc<Ctx>) -> Result<(), String> {
    let c = ctx.conn(Side::Client);
    let s = ctx.conn(Side::Server);
    let (mut c1s, c1r) = c.open_bi_wait().await.map_err(|e| format!("probe open 1: {e:?}"))?;
    let BufResult(r, _) = c1s.write(vec![0xA5u8]).await;
    r.map_err(|e| format!("probe write: {e:?}"))?;
    let (s1s, mut s1r) = s.accept_bi().await.map_err(|e| format!("probe accept 1: {e:?}"))?;
    let BufResult(r, b) = s1r.read(Vec::with_capacity(4)).await;
    if r.map_err(|e| format!("probe read: {e:?}"))? != 1 || b != [0xA5] {
        return Err("probe stream 1 delivered wrong data".into());
    }
    let (mut c2s, c2r) = c.open_bi_wait().await.map_err(|e| format!("probe open 2: {e:?}"))?;
    let _ = c2s.set_priority(-1);
    let small = ctx.row().win == Win::Small;
    if small {
        fill_until_blocked(&mut c2s).await?;
    } else {
        // default windows: blocking a writer would take 1.25 MB of never-read data per direction,
        // which overflows the loopback socket buffers (packet loss, which this harness does not
        // own); the blocked-write future is pending only in the small-window half of the rows
        let BufResult(r, _) = c2s.write(vec![0x5Au8]).await;
        r.map_err(|e| format!("probe write 2: {e:?}"))?;
    }
    let (mut s2s, s2r) = s.accept_bi().await.map_err(|e| format!("probe accept 2: {e:?}"))?;
    let _ = s2s.set_priority(-1);
    if small {
        fill_until_blocked(&mut s2s).await?;
    }
    *ctx.sides[0].ps.borrow_mut() = Some(ProbeStreams { pb1_send: Some(c1s), pb1_recv: Some(c1r), pb2_send: Some(c2s), pb2_recv: Some(c2r) });
    *ctx.sides[1].ps.borrow_mut() = Some(ProbeStreams { pb1_send: Some(s1s), pb1_recv: Some(s1r), pb2_send: Some(s2s), pb2_recv: Some(s2r) });
    Ok(())
}

// ---------------------------------------------------------------------------------------------
// close-point injection
// ---------------------------------------------------------------------------------------------

type Kept = Rc<RefCell<Vec<Box<dyn Any>>>>;

fn res_str<T: 'static, E: std::fmt::Debug>(r: Result<T, E>, ok: &str, kept: &Kept) -> String {
    match r {
        Ok(v) => {
            kept.borrow_mut().push(Box::new(v));
            format!("Ok({ok})")
        }
        Err(e) => short(format!("Err({e:?})")),
    }
}

impl Ctx {
    /// Runs synchronously inside the k-th event: creates one future of every kind on both sides,
    /// polls each once (so that it is registered with the connection), then closes.
    fn inject(self: &Rc<Self>) {
        if self.injected.replace(true) {
            return;
        }
        let plan = self.spec.close.expect("close plan");
        let slot = self.driver_slot.clone();
        let mut list: Vec<Probe> = Vec::new();
        // returns true if the new probe is pending
        let mut add = |side: Side, kind: &'static str, expect: Expect, fut: Pin<Box<dyn Future<Output = String>>>| -> bool {
            let mut p = Probe::new(side, kind, expect, &slot, fut);
            p.poll_now();
            let pending = p.result.is_none();
            p.pre_close = !pending;
            list.push(p);
            pending
        };
        for side in Side::BOTH {
            let Some(conn) = self.sides[side.idx()].conn.borrow().clone() else { continue };
            self.rtt_at_close.set(self.rtt_at_close.get().max(conn.rtt()));
            let mut ps = self.sides[side.idx()].ps.borrow_mut().take().unwrap_or_default();
            // open_*_wait: exhaust the stream limit first, so that the future is pending
            for bi in [false, true] {
                let mut held: Vec<Box<dyn Any>> = Vec::new();
                for _ in 0..400 {
                    if bi {
                        match conn.open_bi() {
                            Ok(p) => held.push(Box::new(p)),
                            Err(_) => break,
                        }
                    } else {
                        match conn.open_uni() {
                            Ok(p) => held.push(Box::new(p)),
                            Err(_) => break,
                        }
                    }
                }
                let c = conn.clone();
                let kept = self.kept.clone();
                kept.borrow_mut().push(Box::new(held));
                if bi {
                    add(side, "open_bi_wait", Expect::AfterClose, Box::pin(async move { res_str(c.open_bi_wait().await, "streams", &kept) }));
                } else {
                    add(side, "open_uni_wait", Expect::AfterClose, Box::pin(async move { res_str(c.open_uni_wait().await, "stream", &kept) }));
                }
            }
            // accept_*: streams that are waiting to be accepted are legitimate values; repeat
            // until one future is pending
            for bi in [false, true] {
                for _ in 0..8 {
                    let c = conn.clone();
                    let kept = self.kept.clone();
                    let pending = if bi {
                        add(side, "accept_bi", Expect::AfterClose, Box::pin(async move { res_str(c.accept_bi().await, "streams", &kept) }))
                    } else {
                        add(side, "accept_uni", Expect::AfterClose, Box::pin(async move { res_str(c.accept_uni().await, "stream", &kept) }))
                    };
                    if pending {
                        break;
                    }
                }
            }
            if let Some(mut r) = ps.pb1_recv.take() {
                add(side, "read", Expect::AfterClose, Box::pin(async move {
                    let BufResult(res, _) = r.read(Vec::with_capacity(16)).await;
                    match res {
                        Ok(n) => format!("BOGUS Ok({n}) (nothing was ever written to this stream and it was not finished)"),
                        Err(e) => short(format!("Err({e:?})")),
                    }
                }));
            }
            if let Some(mut r) = ps.pb2_recv.take() {
                add(side, "received_reset", Expect::AfterClose, Box::pin(async move { short(format!("{:?}", r.received_reset().await)) }));
            }
            if let Some(mut s) = ps.pb1_send.take() {
                add(side, "stopped", Expect::AfterClose, Box::pin(async move { short(format!("{:?}", s.stopped().await)) }));
            }
            if self.row().win != Win::Small {
                // not blocked (see setup_probe_streams): keep the stream alive, no probe
                if let Some(s) = ps.pb2_send.take() {
                    self.kept.borrow_mut().push(Box::new(s));
                }
            }
            if let Some(mut s) = ps.pb2_send.take() {
                add(side, "write_blocked", Expect::AfterClose, Box::pin(async move {
                    let BufResult(res, _) = s.write(vec![0x77u8; 64]).await;
                    short(format!("{res:?}"))
                }));
            }
            // datagram receive: drain what is queued, then the future is pending
            while let Ok(Some(_)) = conn.try_recv_datagram() {}
            {
                let c = conn.clone();
                let kept = self.kept.clone();
                add(side, "recv_datagram", Expect::AfterClose, Box::pin(async move { res_str(c.recv_datagram().await, "datagram", &kept) }));
            }
            // datagram send-wait: fill the (small) datagram send buffer until one is pending
            for _ in 0..6 {
                let c = conn.clone();
                let kept = self.kept.clone();
                if add(side, "send_datagram_wait", Expect::AfterClose, Box::pin(async move { res_str(c.send_datagram_wait(Bytes::from(vec![PROBE_DGRAM; 1000])).await, "", &kept) })) {
                    break;
                }
            }
            {
                let c = conn.clone();
                add(side, "closed", Expect::AfterDrain, Box::pin(async move { short(format!("{:?}", c.closed().await)) }));
            }
        }
        // the close itself
        let closer = &self.sides[plan.side.idx()];
        let code = VarInt::from_u32(7);
        match plan.kind {
            CloseKind::Conn => {
                let c = closer.conn.borrow().clone().expect("conn");
                c.close(code, b"close-point");
            }
            CloseKind::Endpoint | CloseKind::Shutdown => {
                let ep = closer.ep.borrow().clone().expect("endpoint");
                {
                    let e = ep.clone();
                    add(plan.side, "wait_incoming", Expect::AfterClose, Box::pin(async move {
                        match e.wait_incoming().await {
                            None => "None".to_string(),
                            Some(_) => "Some(incoming)".to_string(),
                        }
                    }));
                }
                ep.close(code, b"close-point");
                if plan.kind == CloseKind::Shutdown {
                    drop(ep);
                    let ep = closer.ep.borrow_mut().take().expect("endpoint");
                    add(plan.side, "shutdown", Expect::AfterRelease, Box::pin(async move { short(format!("{:?}", ep.shutdown().await)) }));
                }
            }
        }
        drop(add);
        for p in &list {
            if p.pre_close {
                self.count(&format!("ready_before_close:{}", p.kind));
            } else {
                self.count(&format!("pending_at_close:{}", p.kind));
            }
        }
        self.note(format!(
            "CLOSE {} by {} after event {} with {} pending futures",
            plan.kind.name(),
            plan.side.name(),
            self.events.get(),
            list.iter().filter(|p| p.result.is_none()).count()
        ));
        *self.probes.borrow_mut() = list;
        self.closed_at.set(Some(Instant::now()));
        self.notify.notify();
        // driver: polls exactly the probes whose own waker fired
        let me = self.clone();
        compio_runtime::spawn(async move {
            poll_fn(|cx| {
                *me.driver_slot.lock().unwrap() = Some(cx.waker().clone());
                let mut changed = false;
                {
                    let mut ps = me.probes.borrow_mut();
                    for p in ps.iter_mut() {
                        if p.result.is_none() && p.flag.woken.swap(false, Ordering::SeqCst) {
                            p.poll_now();
                            if p.result.is_some() {
                                changed = true;
                                let ms = me.closed_at.get().map(|t| t.elapsed().as_millis()).unwrap_or(0);
                                let bucket = match ms {
                                    0..=50 => "le50ms",
                                    51..=200 => "le200ms",
                                    201..=1000 => "le1s",
                                    1001..=3000 => "le3s",
                                    _ => "gt3s",
                                };
                                let class = if p.kind == "closed" || p.kind == "shutdown" { "drain" } else { "wake" };
                                me.count(&format!("latency_after_close:{class}:{bucket}"));
                            }
                        }
                    }
                }
                if changed {
                    me.notify.notify();
                }
                if me.probes.borrow().iter().all(|p| p.result.is_some()) { Poll::Ready(()) } else { Poll::Pending }
            })
            .await
        })
        .detach();
    }
}

// ---------------------------------------------------------------------------------------------
// one run
// ---------------------------------------------------------------------------------------------

fn finish_result(ctx: &Rc<Ctx>, events: u64, hang: Option<(String, String)>) -> RunResult {
    // probe results -> outcome classes / problems
    if let Some(plan) = ctx.spec.close {
        for p in ctx.probes.borrow().iter() {
            if let Some(r) = &p.result {
                ctx.outcome(format!("probe:{}:{}:{}:{}:{}", plan.kind.name(), ctx.rel(p.side), p.kind, if p.pre_close { "before-close" } else { "after-close" }, r));
                if !p.pre_close {
                    ctx.count(&format!("resolved_after_close:{}", p.kind));
                    if r.starts_with("Err") {
                        ctx.count(&format!("resolved_with_error:{}", p.kind));
                    }
                }
                if r.starts_with("BOGUS") {
                    ctx.problem("never-stranded", &format!("bogus-value.{}", p.kind), format!("{}: pending {} future on {} resolved with {r}", ctx.row().label(), p.kind, p.side.name()));
                }
            }
        }
    }
    let blocked = ctx.counters.borrow().get("writer_blocked").copied().unwrap_or(0) > 0;
    if ctx.spec.close.is_none() {
        let seen: usize = ctx.dg_seen.borrow().iter().map(|s| s.len()).sum();
        ctx.outcome(format!(
            "grid:{}:{}:{}:limit{}:writer-blocked={}:open-blocked={}:dgrams={}/{}",
            ctx.row().streams.name(),
            ctx.row().win.name(),
            ctx.row().pacing.name(),
            ctx.row().limit,
            blocked,
            ctx.counters.borrow().get("open_wait_blocked_by_stream_limit").copied().unwrap_or(0) > 0,
            seen,
            ctx.row().dgrams * 2
        ));
    }
    RunResult {
        events,
        problems: ctx.problems.borrow().clone(),
        hang,
        outcomes: ctx.outcomes.borrow().iter().cloned().collect(),
        counters: ctx.counters.borrow().clone(),
        log_tail: ctx.log.borrow().iter().cloned().collect(),
        wall_ms: ctx.start.elapsed().as_millis() as u64,
        marks: ctx.marks.borrow().clone(),
        side_findings: ctx.side_findings.borrow().clone(),
    }
}

async fn run_async(spec: RunSpec) -> RunResult {
    let ctx = Rc::new(Ctx::new(spec.clone()));
    match timeout(SETUP_LIMIT, setup(&ctx)).await {
        Ok(Ok(())) => {}
        Ok(Err(e)) => {
            ctx.problem("setup", "failed", format!("{}: {e}", ctx.row().label()));
            return finish_result(&ctx, 0, None);
        }
        Err(_) => {
            let key = format!("{}:never-stranded:setup:handshake", ctx.scenario());
            return finish_result(&ctx, 0, Some((key, format!("{}: handshake did not complete in {SETUP_LIMIT:?}", ctx.row().label()))));
        }
    }
    if spec.probes {
        match timeout(SETUP_LIMIT, setup_probe_streams(&ctx)).await {
            Ok(Ok(())) => {}
            Ok(Err(e)) => {
                ctx.problem("setup", "probe-streams-failed", format!("{}: {e}", ctx.row().label()));
                return finish_result(&ctx, 0, None);
            }
            Err(_) => {
                let key = format!("{}:never-stranded:setup:probe-streams", ctx.scenario());
                return finish_result(&ctx, 0, Some((key, format!("{}: probe stream setup did not complete in {SETUP_LIMIT:?}", ctx.row().label()))));
            }
        }
    }
    ctx.mark("setup");
    // part C: the program's use of `Connection::closed()`
    let mut held_closed: Vec<Probe> = Vec::new();
    if spec.pre != Pre::Nothing {
        for side in Side::BOTH {
            let n = if spec.pre == Pre::ClosedTwice { 2 } else { 1 };
            for i in 0..n {
                let c = ctx.conn(side);
                let mut p = Probe::new(side, "closed", Expect::AfterDrain, &ctx.driver_slot, Box::pin(async move { short(format!("{:?}", c.closed().await)) }));
                EXPECT_PANIC.with(|e| e.set(true));
                let polled = vcore::catch(|| p.poll_now());
                EXPECT_PANIC.with(|e| e.set(false));
                match polled {
                    Ok(()) => {}
                    Err(msg) => {
                        // not part of C16's statement (nothing is stranded, the program is told
                        // at once): recorded as a side finding, not as a violation
                        ctx.side_findings.borrow_mut().push((
                            "closed-future-twice:panic".to_string(),
                            format!("a second Connection::closed() future polled while the first one is pending panics (future #{i} on {}): {}", side.name(), short(msg)),
                        ));
                        return finish_result(&ctx, 0, None);
                    }
                }
                if let Some(r) = &p.result {
                    ctx.problem("closed-future", "resolved-early", format!("{}: closed() on {} resolved with {r} although nothing was closed", ctx.row().label(), side.name()));
                }
                if spec.pre == Pre::ClosedTwice {
                    held_closed.push(p);
                } // else: dropped here, still pending
            }
        }
    }
    ctx.armed.set(true);
    if let Some(c) = spec.close
        && c.k == 0
    {
        ctx.inject();
    }
    start_scenario(&ctx);

    // the scenario proper
    if !ctx.wait_cond(|| ctx.tasks_done(true)).await {
        let phase = if ctx.is_closed() { "after-close" } else { "run" };
        let h = ctx.describe_hang(phase);
        return finish_result(&ctx, ctx.events.get(), Some(h));
    }
    if !ctx.is_closed() {
        let nd = ctx.row().dgrams;
        if nd > 0 {
            let all = ctx.notify.wait_for(Instant::now() + DGRAM_WAIT, || ctx.dg_seen.borrow().iter().all(|s| s.len() == nd)).await;
            ctx.count(if all { "datagrams_all_received" } else { "datagrams_lost" });
        }
    }
    let events = ctx.events.get();
    ctx.mark("scenario");
    if !ctx.is_closed() {
        if spec.close.is_some() {
            // the close point lies behind the end of this run: close after completion
            ctx.count("close_point_after_completion");
            ctx.inject();
        } else {
            ctx.final_close.set(true);
            ctx.closed_at.set(Some(Instant::now()));
            ctx.conn(Side::Client).close(VarInt::from_u32(0), b"done");
        }
    } else {
        ctx.count("close_point_hit");
    }
    // everything has to resolve now
    if !ctx.wait_cond(|| ctx.tasks_done(false) && ctx.probes_resolved(Expect::AfterClose)).await {
        let h = ctx.describe_hang("after-close");
        return finish_result(&ctx, events, Some(h));
    }
    ctx.mark("resolved");
    if spec.close.is_some() {
        // `closed()` resolves when the connection has drained: 3 PTO after the close, where the
        // PTO follows the measured round-trip time and its variance; one late acknowledgement on
        // an overloaded machine inflates it (3 PTO <= 27 x smoothed rtt + 75 ms in the worst
        // case), so the deadline follows the current estimate
        loop {
            for side in Side::BOTH {
                if let Some(c) = ctx.sides[side.idx()].conn.borrow().as_ref() {
                    ctx.rtt_at_close.set(ctx.rtt_at_close.get().max(c.rtt()));
                }
            }
            if ctx.rtt_at_close.get() * 40 > DRAIN_SKIP {
                // overloaded machine: the drain period is many seconds of pure waiting; the wake-up
                // oracle (every pending stream / datagram / open / accept future) has been checked
                ctx.count("drain_wait_skipped_inflated_rtt");
                ctx.mark("drain-skipped");
                return finish_result(&ctx, events, None);
            }
            let drain_deadline = ctx.closed_at.get().unwrap() + WATCHDOG + ctx.rtt_at_close.get() * 40;
            let slice = drain_deadline.min(Instant::now() + Duration::from_millis(500));
            if ctx.notify.wait_for(slice, || ctx.probes_resolved(Expect::AfterDrain)).await {
                break;
            }
            if Instant::now() >= drain_deadline {
                let h = ctx.describe_hang("drain");
                return finish_result(&ctx, events, Some(h));
            }
        }
        ctx.mark("drained");
    }
    if spec.close.is_some() {
        // phase 2: release every handle, then both endpoints have to shut down
        for side in Side::BOTH {
            ctx.sides[side.idx()].conn.borrow_mut().take();
            ctx.sides[side.idx()].ps.borrow_mut().take();
        }
        ctx.kept.borrow_mut().clear();
        let mut futs = Vec::new();
        for side in Side::BOTH {
            if let Some(ep) = ctx.sides[side.idx()].ep.borrow_mut().take() {
                futs.push(async move { (side, ep.shutdown().await) });
            }
        }
        let t0 = Instant::now();
        match timeout(WATCHDOG, futures_util::future::join_all(futs)).await {
            Ok(rs) => {
                for (side, r) in rs {
                    if let Err(e) = r {
                        ctx.problem("never-stranded", "shutdown-error", format!("{}: shutdown of the {} endpoint failed: {e:?}", ctx.row().label(), side.name()));
                    }
                }
            }
            Err(_) => {
                let key = format!("close:never-stranded:after-release:{}:endpoint.shutdown", spec.close.unwrap().kind.name());
                let what = format!("{}: Endpoint::shutdown did not complete within {WATCHDOG:?} after every connection, stream and future had been dropped", ctx.describe_hang("after-release").1);
                return finish_result(&ctx, events, Some((key, what)));
            }
        }
        let left = WATCHDOG.saturating_sub(t0.elapsed());
        if !ctx.notify.wait_for(Instant::now() + left, || ctx.probes_resolved(Expect::AfterRelease)).await {
            let h = ctx.describe_hang("after-release");
            return finish_result(&ctx, events, Some(h));
        }
    }
    ctx.mark("released");
    drop(held_closed);
    finish_result(&ctx, events, None)
}

/// Runs `f` to completion in a fresh runtime (on the given driver) on the calling thread.
pub(crate) fn in_runtime<F: Future>(driver: Drv, f: F) -> F::Output {
    let mut pb = compio_driver::ProactorBuilder::new();
    pb.capacity(256);
    let want = match driver {
        Drv::Uring => compio_driver::DriverType::IoUring,
        Drv::Poll => compio_driver::DriverType::Poll,
    };
    pb.driver_type(want);
    let rt = match compio_runtime::Runtime::builder().with_proactor(pb).build() {
        Ok(rt) => rt,
        Err(e) => vcore::machinery_error(&format!("cannot create a compio runtime: {e}")),
    };
    if rt.driver_type() != want {
        vcore::machinery_error(&format!("asked for driver {want:?}, got {:?}", rt.driver_type()));
    }
    rt.block_on(f)
}

/// One execution in a fresh runtime on the calling thread.
pub fn run_once(spec: &RunSpec) -> RunResult {
    in_runtime(spec.driver, run_async(spec.clone()))
}
