//! e_c16 — C16 "QUIC streams and datagrams: ordered, exactly-once, never stranded".
//!
//! Exploration-level check (see DESIGN.md "### C16"): compio-quic drives quinn-proto over real UDP
//! sockets with real-time timers, so packet arrival order, pacing and timer races are NOT owned by
//! the harness.  What is enumerated exhaustively is the program / configuration space (part A: the
//! grid) and every close point (part B: close after the k-th harness-visible event for every k,
//! with one future of every kind pending), plus (part D, `partd.rs`) every row of the grid of
//! credit bursts (several parked `open_*_wait` futures, several credits in one update) and of
//! single API calls issued on an idle connection.
mod model;
mod partd;
mod scen;

use std::{
    collections::BTreeMap,
    sync::{
        Mutex,
        atomic::{AtomicU64, Ordering},
    },
};

use model::*;
use partd::DSpec;
use scen::{RunResult, run_once};
use vcore::{Report, Tier, Value, Violation, json};

fn grid_rows(tier: Tier) -> Vec<Row> {
    let mut rows = Vec::new();
    for payload in [0usize, 1, 1200, 70_000] {
        let chunks: &[Chunk] = if payload <= 1200 { &[Chunk::One, Chunk::K, Chunk::All] } else { &[Chunk::K, Chunk::All] };
        for &wchunk in chunks {
            for &rchunk in chunks {
                for api in [Api::Io, Api::Chunks] {
                    for streams in [Streams::Uni1, Streams::Bi1, Streams::Mixed3] {
                        for dgrams in [0usize, 2] {
                            for win in [Win::Small, Win::Default] {
                                for limit in [1u32, 100] {
                                    for pacing in [Pacing::Eager, Pacing::Gated] {
                                        rows.push(Row { payload, wchunk, rchunk, api, streams, dgrams, win, limit, pacing });
                                    }
                                }
                            }
                        }
                    }
                }
            }
        }
    }
    if tier == Tier::Quick {
        rows.retain(quick_grid_filter);
    }
    rows
}

/// quick tier: a fixed sub-grid in which every listed value of every dimension still occurs (the
/// full product is the thorough tier)
fn quick_grid_filter(r: &Row) -> bool {
    // payloads 0 / 1: chunk sizes make no difference to the bytes on the wire -> only (1, 1) and
    // (all, all); payloads 1200 / 70000: every chunking
    let chunk_ok = match r.payload {
        0 | 1 => (r.wchunk == r.rchunk) && r.wchunk != Chunk::K,
        _ => true,
    };
    // API flavour alternates with the datagram dimension (both for payload 1200), the stream
    // limit with the reader pacing (both for the mixed streams)
    let api_ok = (r.api == Api::Io) == (r.dgrams == 0) || r.payload == 1200;
    let limit_ok = (r.limit == 1) == (r.pacing == Pacing::Gated) || r.streams == Streams::Mixed3;
    chunk_ok && api_ok && limit_ok
}

/// The "small half" of the grid that part B closes at every event: payloads that fit a few
/// packets, chunk sizes 1000 / all, eager readers.
fn close_rows(tier: Tier) -> Vec<Row> {
    let mut rows = Vec::new();
    let payloads: &[usize] = tier.pick(&[1200], &[1, 1200]);
    for &payload in payloads {
        for (wchunk, rchunk) in [(Chunk::K, Chunk::K), (Chunk::All, Chunk::All)] {
            for api in [Api::Io, Api::Chunks] {
                for streams in [Streams::Uni1, Streams::Bi1, Streams::Mixed3] {
                    for dgrams in [0usize, 2] {
                        for win in [Win::Small, Win::Default] {
                            for limit in [1u32, 100] {
                                let row = Row { payload, wchunk, rchunk, api, streams, dgrams, win, limit, pacing: Pacing::Eager };
                                if tier == Tier::Quick {
                                    // quick: one chunking per API flavour, stream limit 1 together with the small windows
                                    let ok = (api == Api::Io) == (wchunk == Chunk::K) && (limit == 1) == (win == Win::Small) && (dgrams == 2) == (streams == Streams::Mixed3);
                                    if !ok {
                                        continue;
                                    }
                                }
                                rows.push(row);
                            }
                        }
                    }
                }
            }
        }
    }
    rows
}

/// a run of parts A / B / C or of part D
#[derive(Clone)]
enum AnySpec {
    Main(RunSpec),
    D(DSpec),
}

impl AnySpec {
    fn json(&self) -> Value {
        match self {
            AnySpec::Main(s) => s.json(),
            AnySpec::D(s) => s.json(),
        }
    }

    fn from_json(v: &Value) -> AnySpec {
        if v["part"].as_str() == Some("D") { AnySpec::D(DSpec::from_json(v)) } else { AnySpec::Main(RunSpec::from_json(v)) }
    }

    fn run(&self) -> RunResult {
        match self {
            AnySpec::Main(s) => run_once(s),
            AnySpec::D(s) => partd::run_once(s),
        }
    }

    /// violations of parts A / B / D (part C is a separate, possibly known, finding)
    fn main_part(&self) -> bool {
        match self {
            AnySpec::Main(s) => s.pre == Pre::Nothing,
            AnySpec::D(_) => true,
        }
    }
}

struct Agg {
    counters: Mutex<BTreeMap<String, u64>>,
    runs_a: AtomicU64,
    runs_b: AtomicU64,
    runs_c: AtomicU64,
    runs_d: AtomicU64,
    reruns: AtomicU64,
    unreproduced: Mutex<Vec<Value>>,
    side: Mutex<BTreeMap<String, (String, u64)>>,
    /// violations of parts A / B (part C is a separate, possibly known, finding)
    ab_violations: AtomicU64,
    max_ms: AtomicU64,
}

fn absorb(report: &Report, agg: &Agg, spec: &AnySpec, r: &RunResult) {
    report.add_execution(r.events);
    for o in &r.outcomes {
        report.outcome(o.clone());
    }
    {
        let mut c = agg.counters.lock().unwrap();
        for (k, v) in &r.counters {
            *c.entry(k.clone()).or_insert(0) += v;
        }
    }
    agg.max_ms.fetch_max(r.wall_ms, Ordering::Relaxed);
    for (class, what) in &r.side_findings {
        // a side finding is an observation class of its own
        report.outcome(format!("side-finding:{class}"));
        let mut g = agg.side.lock().unwrap();
        g.entry(class.clone()).or_insert_with(|| (what.clone(), 0)).1 += 1;
    }
    for (key, what) in &r.problems {
        if spec.main_part() {
            agg.ab_violations.fetch_add(1, Ordering::Relaxed);
        }
        report.violation(Violation { key: key.clone(), what: format!("{what}; last events: {}", r.log_tail.iter().rev().take(10).rev().cloned().collect::<Vec<_>>().join(" | ")), replay: spec.json() });
    }
}

/// Runs one spec; a watchdog expiry has to reproduce in a second run before it is reported.
fn run_checked(report: &Report, agg: &Agg, spec: &RunSpec) -> RunResult {
    run_checked_any(report, agg, &AnySpec::Main(spec.clone()))
}

fn run_checked_any(report: &Report, agg: &Agg, spec: &AnySpec) -> RunResult {
    let r = spec.run();
    absorb(report, agg, spec, &r);
    if let Some((key, _)) = &r.hang
        && key.ends_with(scen::PEER_NEVER_TOLD)
    {
        report.count("peer_left_to_its_idle_timeout_after_endpoint_shutdown", 1);
        return r;
    }
    if let Some((key, what)) = &r.hang {
        agg.reruns.fetch_add(1, Ordering::Relaxed);
        let r2 = spec.run();
        absorb(report, agg, spec, &r2);
        match &r2.hang {
            Some((key2, what2)) => {
                if spec.main_part() {
                    agg.ab_violations.fetch_add(1, Ordering::Relaxed);
                }
                report.violation(Violation {
                    key: key.clone(),
                    what: format!("{what} || reproduced in a second run ({}): {what2}", if key2 == key { "same futures" } else { key2.as_str() }),
                    replay: spec.json(),
                });
            }
            None => {
                agg.unreproduced.lock().unwrap().push(json!({"spec": spec.json(), "key": key, "what": what}));
            }
        }
    }
    r
}

/// Enabling UDP_GRO on the first socket of the system (and closing the last one) flips a kernel
/// static key, which costs ~100 ms of system time on a loaded machine; compio-quic enables it on
/// every endpoint socket.  One idle socket with UDP_GRO held for the life of the process keeps the
/// key enabled, so the thousands of endpoint sockets of this run are cheap to create and close.
fn hold_udp_gro() -> Option<std::net::UdpSocket> {
    use std::os::fd::AsRawFd;
    let s = std::net::UdpSocket::bind("127.0.0.1:0").ok()?;
    let one: libc::c_int = 1;
    unsafe {
        libc::setsockopt(s.as_raw_fd(), libc::SOL_UDP, libc::UDP_GRO, &one as *const _ as *const libc::c_void, std::mem::size_of::<libc::c_int>() as libc::socklen_t);
    }
    Some(s)
}

fn main() {
    let _gro_keeper = hold_udp_gro();
    let default_hook = std::panic::take_hook();
    std::panic::set_hook(Box::new(move |info| {
        if !scen::EXPECT_PANIC.with(|e| e.get()) {
            default_hook(info);
        }
    }));
    let args = vcore::parse_args();
    if args.property != "C16" {
        vcore::machinery_error("e_c16 serves property C16 only");
    }
    let tier = args.tier;

    if let Some(path) = &args.replay {
        let bytes = std::fs::read(path).unwrap_or_else(|e| vcore::machinery_error(&format!("cannot read {path:?}: {e}")));
        let v: Value = vcore::serde_json::from_slice(&bytes).unwrap_or_else(|e| vcore::machinery_error(&format!("replay does not parse: {e}")));
        let spec = AnySpec::from_json(if v["replay"].is_object() { &v["replay"] } else { &v });
        let mut bad = false;
        let reps: usize = std::env::var("C16_REPEAT").ok().and_then(|s| s.parse().ok()).unwrap_or(3);
        let quiet = reps > 3;
        for i in 0..reps {
            let r = spec.run();
            if quiet {
                if r.hang.is_some() || !r.problems.is_empty() {
                    bad = true;
                    println!("replay run {i}: events={} wall={}ms problems={:?} hang={:?}", r.events, r.wall_ms, r.problems, r.hang);
                }
                continue;
            }
            println!("replay run {i}: events={} wall={}ms problems={} hang={} marks={:?}", r.events, r.wall_ms, r.problems.len(), r.hang.is_some(), r.marks);
            for l in &r.log_tail {
                println!("    {l}");
            }
            for (k, w) in &r.problems {
                println!("  PROBLEM {k}: {w}");
                bad = true;
            }
            if let Some((k, w)) = &r.hang {
                println!("  HANG {k}: {w}");
                bad = true;
            }
            for o in &r.outcomes {
                println!("  outcome {o}");
            }
        }
        std::process::exit(if bad { 1 } else { 0 });
    }

    let mut report = Report::new("C16", tier);
    report.level = "exploration";
    let agg = Agg {
        counters: Mutex::new(BTreeMap::new()),
        runs_a: AtomicU64::new(0),
        runs_b: AtomicU64::new(0),
        runs_c: AtomicU64::new(0),
        runs_d: AtomicU64::new(0),
        reruns: AtomicU64::new(0),
        unreproduced: Mutex::new(Vec::new()),
        side: Mutex::new(BTreeMap::new()),
        ab_violations: AtomicU64::new(0),
        max_ms: AtomicU64::new(0),
    };
    // part A runs are CPU-bound (a few ms each); part B runs mostly wait (drain timers ~ 3 PTO)
    let threads_a = (vcore::threads() * 2).clamp(2, 64);
    let threads_b = (vcore::threads() * 4).clamp(2, 96);
    let drivers: &[Drv] = tier.pick(&[Drv::Uring], &[Drv::Uring, Drv::Poll]);
    // the schedule is not owned: the thorough tier samples every grid row twice per driver
    let reps_a: usize = tier.pick(1, 2);

    // development aid: C16_ONLY_D=1 runs part D alone (the evidence says so, the vacuity guard of the
    // other parts is not applied)
    let only_d = std::env::var("C16_ONLY_D").is_ok_and(|v| v == "1");
    // ---- part A: the grid -------------------------------------------------------------------
    let rows = if only_d { Vec::new() } else { grid_rows(tier) };
    let mut items_a: Vec<RunSpec> = Vec::new();
    for _ in 0..reps_a {
        for &driver in drivers {
            for row in &rows {
                items_a.push(RunSpec { pre: Pre::Nothing, row: row.clone(), driver, probes: false, close: None });
            }
        }
    }
    vcore::par_for_each_n(&items_a, threads_a, |i, spec| {
        let r = run_checked(&report, &agg, spec);
        agg.runs_a.fetch_add(1, Ordering::Relaxed);
        if i % 397 == 0 {
            report.sample(6, || json!({"part": "A", "spec": spec.json(), "events": r.events, "outcomes": r.outcomes, "wall_ms": r.wall_ms}));
        }
    });
    let t_a = report.elapsed();

    // ---- part C: `closed()` futures that are dropped / duplicated ---------------------------
    let mut items_c: Vec<RunSpec> = Vec::new();
    for pre in [Pre::ClosedDropped, Pre::ClosedTwice] {
        for streams in [Streams::Uni1, Streams::Bi1, Streams::Mixed3] {
            for win in [Win::Small, Win::Default] {
                let row = Row { payload: 1200, wchunk: Chunk::K, rchunk: Chunk::K, api: Api::Io, streams, dgrams: 2, win, limit: 100, pacing: Pacing::Eager };
                items_c.push(RunSpec { pre, row, driver: Drv::Uring, probes: false, close: None });
            }
        }
    }
    // ---- part B: close points ---------------------------------------------------------------
    let crow = if only_d { Vec::new() } else { close_rows(tier) };
    if only_d {
        items_c.clear();
    }
    // reference runs: number of harness-visible events of the un-closed run (per driver)
    // part B runs on io_uring only (the poll driver is sampled by part A of the thorough tier)
    let drivers_b: &[Drv] = &[Drv::Uring];
    let ref_items: Vec<(usize, Drv)> = drivers_b.iter().flat_map(|&d| (0..crow.len()).map(move |i| (i, d))).collect();
    let refs: Vec<Mutex<u64>> = ref_items.iter().map(|_| Mutex::new(0)).collect();
    vcore::par_for_each_n(&ref_items, threads_a, |j, &(i, driver)| {
        let spec = RunSpec { pre: Pre::Nothing, row: crow[i].clone(), driver, probes: true, close: None };
        let r = run_checked(&report, &agg, &spec);
        *refs[j].lock().unwrap() = r.events;
    });
    let sides: &[Side] = tier.pick(&[Side::Client], &[Side::Client, Side::Server]);
    let mut items: Vec<RunSpec> = Vec::new();
    let mut max_events = 0u64;
    let mut sum_events = 0u64;
    for (j, &(i, driver)) in ref_items.iter().enumerate() {
        let n = *refs[j].lock().unwrap();
        max_events = max_events.max(n);
        sum_events += n;
        for kind in CloseKind::ALL {
            for &side in sides {
                for k in 0..=n {
                    items.push(RunSpec { pre: Pre::Nothing, row: crow[i].clone(), driver, probes: true, close: Some(ClosePlan { k, kind, side }) });
                }
            }
        }
    }
    // part C runs ride along (a stranded run costs its watchdog twice, in parallel with part B)
    let n_b = items.len();
    items.extend(items_c.iter().cloned());
    let mut items: Vec<AnySpec> = items.into_iter().map(AnySpec::Main).collect();
    // ---- part D: credit bursts and actions on an idle connection (rides along as well: its runs
    // mostly wait for the connection to become quiet) ------------------------------------------
    let rows_d = partd::rows(tier);
    let settles: &[u64] = tier.pick(&[50], &[50, 300]);
    let reps_d: usize = tier.pick(1, 2);
    let mut n_d = 0usize;
    for _ in 0..reps_d {
        for &driver in drivers {
            for &settle_ms in settles {
                for plan in &rows_d {
                    items.push(AnySpec::D(DSpec { plan: plan.clone(), driver, settle_ms }));
                    n_d += 1;
                }
            }
        }
    }
    // interleave long and short rows
    let stride = 7919usize;
    let n_items = items.len();
    let order: Vec<usize> = if n_items > 0 && n_items % stride != 0 { (0..n_items).map(|j| (j * stride) % n_items).collect() } else { (0..n_items).collect() };
    vcore::par_for_each_n(&order, threads_b, |j, &idx| {
        let spec = &items[idx];
        let r = run_checked_any(&report, &agg, spec);
        match spec {
            AnySpec::Main(m) => {
                if m.close.is_some() { &agg.runs_b } else { &agg.runs_c }.fetch_add(1, Ordering::Relaxed);
                if j % 1501 == 0 && m.close.is_some() {
                    report.sample(12, || json!({"part": "B", "spec": spec.json(), "events": r.events, "outcomes": r.outcomes, "wall_ms": r.wall_ms}));
                }
            }
            AnySpec::D(_) => {
                if agg.runs_d.fetch_add(1, Ordering::Relaxed) % 37 == 0 {
                    report.sample(18, || json!({"part": "D", "spec": spec.json(), "steps": r.events, "outcomes": r.outcomes, "wall_ms": r.wall_ms, "log": r.log_tail}));
                }
            }
        }
    });

    // ---- evidence ---------------------------------------------------------------------------
    let counters = agg.counters.lock().unwrap().clone();
    for (k, v) in &counters {
        report.count(k, *v);
    }
    let mut must: Vec<String> = Vec::new();
    for k in [
        "flows_verified",
        "writer_blocked",
        "gate_opened_by_blocked_writer",
        "gate_opened_by_finished_writer",
        "open_wait_blocked_by_stream_limit",
        "datagrams_all_received",
        "close_point_hit",
        "read_to_end_after_a_prefix",
    ] {
        report.must_reach(k);
        must.push(k.to_string());
    }
    for kind in [
        "open_uni_wait",
        "open_bi_wait",
        "accept_uni",
        "accept_bi",
        "read",
        "received_reset",
        "stopped",
        "write_blocked",
        "recv_datagram",
        "send_datagram_wait",
        "closed",
        "wait_incoming",
        "shutdown",
    ] {
        report.must_reach(&format!("pending_at_close:{kind}"));
        report.must_reach(&format!("resolved_after_close:{kind}"));
        must.push(format!("pending_at_close:{kind}"));
        must.push(format!("resolved_after_close:{kind}"));
    }
    if only_d {
        must.clear();
        report.cap_hit("C16_ONLY_D=1: parts A, B and C were not run (development aid, not a registered command)");
    }
    // part D
    let mut must_d: Vec<String> = [
        "idle_reached",
        "idle_observer_parked",
        "idle_observers_resolved",
        "idle_stream_announced_by_the_action",
        "burst_waiters_parked",
        "burst_credit_by_set_max_resolved",
        "burst_partial_raise_left_waiters_parked",
        "burst_second_raise_resolved_rest",
        "burst_closes_read_in_one_turn",
        "burst_credit_by_closes_resolved",
    ]
    .iter()
    .map(|s| s.to_string())
    .collect();
    for a in partd::Action::ALL {
        must_d.push(format!("idle_action:{}", a.name()));
    }
    for k in must_d {
        report.must_reach(&k);
        must.push(k);
    }
    // vcore treats must-reach events of a non-exhaustive run as notes; this check is declared
    // non-exhaustive on principle (exploration level), so the vacuity guard is enforced here
    // (unless parts A / B already found violations: then runs legitimately end early)
    let missing: Vec<&String> = must.iter().filter(|k| counters.get(*k).copied().unwrap_or(0) == 0).collect();
    if !missing.is_empty() && agg.ab_violations.load(Ordering::Relaxed) == 0 {
        vcore::machinery_error(&format!("vacuous exploration: never reached {missing:?}"));
    }
    report.rule(
        "EXPLORATION, not exhaustive schedule coverage. Enumerated exhaustively: (A) every row of the configuration grid in `bounds.grid` (one real execution per row: two compio-quic endpoints in one compio runtime over loopback UDP), (B) for every row of `bounds.close_rows`, close kind and closing side: the close injected synchronously inside the k-th harness-visible event (completed write/read/open/accept/finish/stopped/datagram operation) for EVERY k from 0 to the event count of the un-closed reference run, with one hand-polled future of every kind pending on both sides, each with its own waker, (C) a dropped / a duplicated Connection::closed() future before the scenario for the rows of `bounds.closed_future_rows`, (D) every row of `bounds.idle_and_burst`: (D1) with the stream-count limit exhausted, n open_uni_wait / open_bi_wait futures parked, each hand-polled with its own waker, the peer grants credits in ONE update (set_max_concurrent_*_streams raising the limit by 1, by 2, by n; the rest in a second update; then n credits coming back from n finished streams that the peer reads to the end in one scheduler turn): every parked future for which a credit exists has to resolve (and no more than that), the streams obtained carry position-coded data; (D2) one API call that queues something for transmission (finish, AsyncWrite::shutdown, drop of a SendStream, reset, a late write, stop, drop of a RecvStream, send_datagram, send_datagram_wait; set_max_concurrent_*_streams in D1) issued alone in a later scheduler turn than all other traffic, after the UDP counters of both connections had been unchanged for the settle period: the peer's parked observer future (own waker) has to see exactly the expected effect (end-of-stream twice / reset code / the byte / stop code and a Stopped write error / the datagram; stopped() == None on the finishing side) within the watchdog, without any unrelated traffic. NOT enumerated: packet arrival order, pacing, loss, timers (real UDP sockets, real time) - one sample per enumerated point. evaluations = real executions; distinct_nontrivial = distinct observation classes (grid outcome classes, results of pending futures per close kind / side / future kind, errors seen by scenario operations after a close, part D: number of waiters served by the first raise, observer results per action / stream kind).",
    );
    report.assume("packet-level interleavings, loss, reordering and timer races are not controlled: compio-quic runs quinn-proto over real UDP sockets with real-time timers; each enumerated configuration / close point is executed once (a watchdog expiry is re-run once and reported only if it reproduces)");
    report.assume("the connection state machine is quinn-proto's (a dependency); the check observes compio-quic's public API only");
    report.assume("'k-th event' is counted per run: the number and order of events of a run depend on real-time packet arrival, so the same k may denote slightly different moments in different runs");
    report.assume("loopback UDP between two sockets of the same process; datagram loss is legal and only counted");
    report.assume("the futures that wait for the drain period (Connection::closed, Endpoint::shutdown) are watched with a deadline that follows the measured round-trip time (5 s + 40 x smoothed rtt); a close run whose rtt estimate exceeds 50 ms (overloaded machine) does not wait for the drain period at all (counter drain_wait_skipped_inflated_rtt); a blocked `write` is pending at the close point only in the small-window rows");
    report.assume("the peer of the closing side learns about the close from a CONNECTION_CLOSE packet over real UDP: its futures are expected to resolve within the watchdog, an expiry that does not reproduce is listed under unreproduced_watchdog_expiries and not reported");
    report.assume("after Endpoint::close followed by Endpoint::shutdown the closing endpoint stops answering once its drain period is over; a peer that missed the single CONNECTION_CLOSE datagram learns of the close only from its idle timeout (beyond the watchdog): when ONLY the remote side's futures are still pending, none of them would resolve when polled without a wake-up, and the remote connection has no close reason yet, the run is counted (peer_left_to_its_idle_timeout_after_endpoint_shutdown) and not reported");
    report.assume("part D: 'idle' is observed, not owned: the UDP datagram counters (Connection::stats) of both sides unchanged for the settle period (bounded by 3 s, otherwise the run goes on and counts idle_not_reached); on an overloaded machine a delayed acknowledgement may still be outstanding, which can only hide a missing wake-up of the connection worker, never produce a report");
    report.assume("part D: a missing effect is reported only if the watchdog expiry reproduces in a second run; the cause class in the key (not-transmitted: the UDP transmit counter of the acting side did not move after the call / lost-wake-up: a poll without wake-up resolves the future / credit-missing, not-delivered) is diagnosis, the verdict is the expiry; an application datagram that was transmitted but not received is legal loss (counter idle_datagram_lost)");
    report.assume("part D1: quinn-proto announces a raised stream limit only when the increase exceeds 1/8 of the limit; the rows keep limit + waiters below 8 so that every increase is announced at once; whether the n credits of the stream closes arrive in one MAX_STREAMS frame or several is not owned (the oracle does not depend on it; counter burst_closes_read_in_one_turn says how often all n reads completed in the same turn)");
    report.extra(
        "not_covered",
        json!([
            "packet-level interleavings / arrival orders between the two endpoints",
            "packet loss, duplication and reordering on the path",
            "timer races (loss detection, idle timeout, pacing, drain timer)",
            "0-RTT / 0.5-RTT streams, connection migration, key update, retry / refuse paths",
            "more than one connection per endpoint; the `sync` feature (multi-threaded use)",
            "the h3 adapter types",
        ]),
    );
    report.extra(
        "bounds",
        json!({
            "tier": tier.name(),
            "grid": {
                "payload": [0, 1, 1200, 70000],
                "write_chunk": ["1 (payload <= 1200)", "1000", "all"],
                "read_chunk": ["1 (payload <= 1200)", "1000", "all"],
                "api": ["io: AsyncWrite::write / write_all, AsyncRead::read", "chunks: write_chunks / write_all_chunks, read_chunk (read_chunks on odd stream indices with chunk 1000) / read_to_end"],
                "streams": ["uni1", "bi1 (payload in both directions)", "mixed3 (2 client uni + 1 server bidi, concurrent)"],
                "datagrams_per_side": [0, 2],
                "window": [format!("small: stream {SMALL_STREAM_WINDOW} / connection {SMALL_CONN_WINDOW} bytes"), "default".to_string()],
                "stream_limit": [1, 100],
                "reader_pacing": ["eager", "gated: every read waits until the writer reports Blocked or has finished (bounded 1 s)"],
                "rows": rows.len(),
                "drivers": drivers.iter().map(|d| d.name()).collect::<Vec<_>>(),
                "samples_per_row_and_driver": reps_a,
                "quick_subgrid": "quick: payload 0/1 only with chunkings (1,1),(all,all); API flavour alternates with the datagram dimension except for payload 1200; stream limit alternates with reader pacing except for mixed3; thorough: the full product",
            },
            "close_rows": {
                "payload": tier.pick(vec![1200], vec![1, 1200]),
                "chunkings": ["(1000,1000)", "(all,all)"],
                "rows": crow.len(),
                "quick_subset": "quick: payload 1200 only, chunking (1000,1000) with the io API and (all,all) with the chunks API, stream limit 1 together with the small windows / 100 with the default windows, datagrams only together with the mixed streams, closing side client only; thorough: the full product",
                "drivers": drivers_b.iter().map(|d| d.name()).collect::<Vec<_>>(),
                "close_kinds": ["conn-close", "endpoint-close", "endpoint-shutdown"],
                "closing_side": sides.iter().map(|s| s.name()).collect::<Vec<_>>(),
                "k": "0 ..= events of the un-closed reference run",
                "max_events_of_a_reference_run": max_events,
                "sum_of_reference_events": sum_events,
                "close_runs": n_b,
                "pending_future_kinds": ["open_uni_wait", "open_bi_wait", "accept_uni", "accept_bi", "read", "received_reset", "stopped", "write (flow-control blocked; small-window rows only)", "recv_datagram", "send_datagram_wait", "closed", "wait_incoming (endpoint kinds)", "shutdown (endpoint-shutdown)"],
            },
            "closed_future_rows": {
                "what": "part C: before the scenario both sides (a) create a Connection::closed() future, poll it once and drop it, (b) hold two closed() futures at once; afterwards the scenario has to run as usual",
                "rows": "payload 1200, chunk 1000, io API, 2 datagrams, streams {uni1, bi1, mixed3} x window {small, default}",
                "runs": items_c.len(),
                "run_limit_s": scen::PART_C_LIMIT.as_secs(),
            },
            "idle_and_burst": {
                "what": "part D, see partd.rs",
                "burst_rows": {
                    "parked_waiters": tier.pick(vec![2, 3], vec![2, 3, 5]),
                    "direction": ["uni", "bi"],
                    "first_raise": ["1", "2", "number of waiters"],
                    "side_that_waits": ["cli", "srv"],
                    "initial_limit": partd::BURST_LIMIT,
                    "credit_sources": ["set_max_concurrent_*_streams on the idle peer (first raise, then the rest)", "the peer reads n finished streams to the end (and finishes its halves) in one scheduler turn"],
                    "rows": rows_d.iter().filter(|p| matches!(p, partd::DPlan::Burst { .. })).count(),
                },
                "idle_rows": {
                    "action": partd::Action::ALL.iter().map(|a| a.name()).collect::<Vec<_>>(),
                    "stream_kind": ["uni", "bi (actions on the opener's send half / the acceptor's receive half; the other direction stays open)", "none (datagram actions)"],
                    "payload_written_and_read_before_the_idle_period": tier.pick(vec![0, 1, 1200], vec![0, 1, 1200, 70000]),
                    "datagram_size": [0, 1, 1000],
                    "side_that_opens_and_writes": ["cli", "srv"],
                    "excluded": "stop / drop-recv-stream with payload 0 (the reader has no handle of a stream nothing was sent on)",
                    "rows": rows_d.iter().filter(|p| matches!(p, partd::DPlan::Idle { .. })).count(),
                },
                "settle_ms": settles,
                "drivers": drivers.iter().map(|d| d.name()).collect::<Vec<_>>(),
                "samples_per_row_driver_and_settle": reps_d,
                "runs": n_d,
                "quiet_limit_s": partd::QUIET_LIMIT.as_secs(),
                "auxiliary_step_limit_s": partd::STEP_LIMIT.as_secs(),
            },
            "watchdog_s": scen::WATCHDOG.as_secs(),
            "threads": [threads_a, threads_b],
        }),
    );
    report.extra(
        "runs",
        json!({
            "grid_runs": agg.runs_a.load(Ordering::Relaxed),
            "close_runs": agg.runs_b.load(Ordering::Relaxed),
            "closed_future_runs": agg.runs_c.load(Ordering::Relaxed),
            "idle_and_burst_runs": agg.runs_d.load(Ordering::Relaxed),
            "reference_runs": ref_items.len(),
            "reruns_after_watchdog": agg.reruns.load(Ordering::Relaxed),
            "grid_wall_s": t_a,
            "slowest_run_ms": agg.max_ms.load(Ordering::Relaxed),
        }),
    );
    let side = agg.side.lock().unwrap().clone();
    if !side.is_empty() {
        for (class, (what, n)) in &side {
            println!("note: side finding outside the statement of C16 (not a violation): {class} x{n}: {what}");
        }
        report.extra("side_findings", json!(side.iter().map(|(c, (w, n))| json!({"class": c, "what": w, "occurrences": n})).collect::<Vec<_>>()));
    }
    let unrep = agg.unreproduced.lock().unwrap().clone();
    if !unrep.is_empty() {
        report.cap_hit(&format!("{} watchdog expiries did not reproduce in a second run (not reported as violations; see unreproduced_watchdog_expiries)", unrep.len()));
        report.extra("unreproduced_watchdog_expiries", json!(unrep));
    }
    // exploration level: schedules are sampled once per point, say so in the machine-readable flag
    report.cap_hit("schedule space (packet arrival order, timers) not enumerated: exploration level");
    report.finish()
}
