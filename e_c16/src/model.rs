//! The enumerated configuration space (grid rows, close plans) and the position-coded payloads.
use vcore::{Value, json};

#[derive(Clone, Copy, PartialEq, Eq, Debug, Hash, PartialOrd, Ord)]
pub enum Side {
    Client,
    Server,
}

impl Side {
    pub const BOTH: [Side; 2] = [Side::Client, Side::Server];

    pub fn other(self) -> Side {
        match self {
            Side::Client => Side::Server,
            Side::Server => Side::Client,
        }
    }

    pub fn name(self) -> &'static str {
        match self {
            Side::Client => "cli",
            Side::Server => "srv",
        }
    }

    pub fn idx(self) -> usize {
        self as usize
    }

    pub fn parse(s: &str) -> Side {
        match s {
            "cli" => Side::Client,
            "srv" => Side::Server,
            _ => vcore::machinery_error(&format!("bad side {s}")),
        }
    }
}

#[derive(Clone, Copy, PartialEq, Eq, Debug, Hash)]
pub enum Chunk {
    One,
    K,
    All,
}

impl Chunk {
    pub fn name(self) -> &'static str {
        match self {
            Chunk::One => "1",
            Chunk::K => "1000",
            Chunk::All => "all",
        }
    }

    pub fn parse(s: &str) -> Chunk {
        match s {
            "1" => Chunk::One,
            "1000" => Chunk::K,
            "all" => Chunk::All,
            _ => vcore::machinery_error(&format!("bad chunk {s}")),
        }
    }

    /// size of one piece (None = everything at once)
    pub fn size(self) -> Option<usize> {
        match self {
            Chunk::One => Some(1),
            Chunk::K => Some(1000),
            Chunk::All => None,
        }
    }
}

#[derive(Clone, Copy, PartialEq, Eq, Debug, Hash)]
pub enum Api {
    /// `AsyncWrite::write` / `AsyncWriteExt::write_all`, `AsyncRead::read`
    Io,
    /// `write_chunks` / `write_all_chunks`, `read_chunk` / `read_chunks` / `read_to_end`
    Chunks,
}

impl Api {
    pub fn name(self) -> &'static str {
        match self {
            Api::Io => "io",
            Api::Chunks => "chunks",
        }
    }

    pub fn parse(s: &str) -> Api {
        match s {
            "io" => Api::Io,
            "chunks" => Api::Chunks,
            _ => vcore::machinery_error(&format!("bad api {s}")),
        }
    }
}

#[derive(Clone, Copy, PartialEq, Eq, Debug, Hash)]
pub enum Streams {
    /// one unidirectional stream client -> server
    Uni1,
    /// one bidirectional stream opened by the client, payload in both directions
    Bi1,
    /// two unidirectional streams opened by the client and one bidirectional stream opened by the
    /// server (payload in both directions), all concurrently
    Mixed3,
}

impl Streams {
    pub fn name(self) -> &'static str {
        match self {
            Streams::Uni1 => "uni1",
            Streams::Bi1 => "bi1",
            Streams::Mixed3 => "mixed3",
        }
    }

    pub fn parse(s: &str) -> Streams {
        match s {
            "uni1" => Streams::Uni1,
            "bi1" => Streams::Bi1,
            "mixed3" => Streams::Mixed3,
            _ => vcore::machinery_error(&format!("bad streams {s}")),
        }
    }

    /// (opener, bidirectional?) per stream
    pub fn plan(self) -> Vec<(Side, bool)> {
        match self {
            Streams::Uni1 => vec![(Side::Client, false)],
            Streams::Bi1 => vec![(Side::Client, true)],
            Streams::Mixed3 => vec![(Side::Client, false), (Side::Client, false), (Side::Server, true)],
        }
    }
}

#[derive(Clone, Copy, PartialEq, Eq, Debug, Hash)]
pub enum Win {
    Small,
    Default,
}

impl Win {
    pub fn name(self) -> &'static str {
        match self {
            Win::Small => "small",
            Win::Default => "default",
        }
    }

    pub fn parse(s: &str) -> Win {
        match s {
            "small" => Win::Small,
            "default" => Win::Default,
            _ => vcore::machinery_error(&format!("bad window {s}")),
        }
    }
}

/// small windows: per stream / per connection
pub const SMALL_STREAM_WINDOW: u32 = 800;
pub const SMALL_CONN_WINDOW: u32 = 2000;
/// datagram send buffer (small, so that `send_datagram_wait` can be made to block)
pub const DGRAM_SEND_BUFFER: usize = 2400;

#[derive(Clone, Copy, PartialEq, Eq, Debug, Hash)]
pub enum Pacing {
    Eager,
    Gated,
}

impl Pacing {
    pub fn name(self) -> &'static str {
        match self {
            Pacing::Eager => "eager",
            Pacing::Gated => "gated",
        }
    }

    pub fn parse(s: &str) -> Pacing {
        match s {
            "eager" => Pacing::Eager,
            "gated" => Pacing::Gated,
            _ => vcore::machinery_error(&format!("bad pacing {s}")),
        }
    }
}

#[derive(Clone, Debug, PartialEq, Eq, Hash)]
pub struct Row {
    pub payload: usize,
    pub wchunk: Chunk,
    pub rchunk: Chunk,
    pub api: Api,
    pub streams: Streams,
    pub dgrams: usize,
    pub win: Win,
    pub limit: u32,
    pub pacing: Pacing,
}

impl Row {
    pub fn label(&self) -> String {
        format!(
            "payload={} w={} r={} api={} streams={} dgrams={} win={} limit={} pacing={}",
            self.payload,
            self.wchunk.name(),
            self.rchunk.name(),
            self.api.name(),
            self.streams.name(),
            self.dgrams,
            self.win.name(),
            self.limit,
            self.pacing.name()
        )
    }

    pub fn json(&self) -> Value {
        json!({
            "payload": self.payload, "wchunk": self.wchunk.name(), "rchunk": self.rchunk.name(),
            "api": self.api.name(), "streams": self.streams.name(), "dgrams": self.dgrams,
            "window": self.win.name(), "limit": self.limit, "pacing": self.pacing.name(),
        })
    }

    pub fn from_json(v: &Value) -> Row {
        let s = |k: &str| v[k].as_str().unwrap_or_else(|| vcore::machinery_error(&format!("replay: missing {k}")));
        let n = |k: &str| v[k].as_u64().unwrap_or_else(|| vcore::machinery_error(&format!("replay: missing {k}")));
        Row {
            payload: n("payload") as usize,
            wchunk: Chunk::parse(s("wchunk")),
            rchunk: Chunk::parse(s("rchunk")),
            api: Api::parse(s("api")),
            streams: Streams::parse(s("streams")),
            dgrams: n("dgrams") as usize,
            win: Win::parse(s("window")),
            limit: n("limit") as u32,
            pacing: Pacing::parse(s("pacing")),
        }
    }

    /// the class of the row used in violation keys (not the whole row: the same defect shows up in
    /// many rows)
    pub fn class(&self) -> String {
        format!("{}:{}", self.api.name(), self.streams.name())
    }
}

#[derive(Clone, Copy, PartialEq, Eq, Debug, Hash)]
pub enum CloseKind {
    /// `Connection::close`
    Conn,
    /// `Endpoint::close`
    Endpoint,
    /// `Endpoint::close` followed by `Endpoint::shutdown` (pending while handles are alive)
    Shutdown,
}

impl CloseKind {
    pub const ALL: [CloseKind; 3] = [CloseKind::Conn, CloseKind::Endpoint, CloseKind::Shutdown];

    pub fn name(self) -> &'static str {
        match self {
            CloseKind::Conn => "conn-close",
            CloseKind::Endpoint => "endpoint-close",
            CloseKind::Shutdown => "endpoint-shutdown",
        }
    }

    pub fn parse(s: &str) -> CloseKind {
        match s {
            "conn-close" => CloseKind::Conn,
            "endpoint-close" => CloseKind::Endpoint,
            "endpoint-shutdown" => CloseKind::Shutdown,
            _ => vcore::machinery_error(&format!("bad close kind {s}")),
        }
    }
}

#[derive(Clone, Copy, Debug, PartialEq, Eq, Hash)]
pub struct ClosePlan {
    /// close after the k-th harness-visible event (0 = before the scenario starts)
    pub k: u64,
    pub kind: CloseKind,
    /// which side closes
    pub side: Side,
}

#[derive(Clone, Copy, PartialEq, Eq, Debug, Hash)]
pub enum Drv {
    Uring,
    Poll,
}

impl Drv {
    pub fn name(self) -> &'static str {
        match self {
            Drv::Uring => "io-uring",
            Drv::Poll => "poll",
        }
    }

    pub fn parse(s: &str) -> Drv {
        match s {
            "io-uring" => Drv::Uring,
            "poll" => Drv::Poll,
            _ => vcore::machinery_error(&format!("bad driver {s}")),
        }
    }
}

/// What the program does with `Connection::closed()` before the scenario starts (part C).
#[derive(Clone, Copy, PartialEq, Eq, Debug, Hash)]
pub enum Pre {
    Nothing,
    /// both sides create a `closed()` future, poll it once and drop it (what a `select!` between
    /// `closed()` and another future does when the other future wins)
    ClosedDropped,
    /// both sides hold two `closed()` futures at the same time
    ClosedTwice,
}

impl Pre {
    pub fn name(self) -> &'static str {
        match self {
            Pre::Nothing => "nothing",
            Pre::ClosedDropped => "closed-future-dropped",
            Pre::ClosedTwice => "closed-future-twice",
        }
    }

    pub fn parse(s: &str) -> Pre {
        match s {
            "nothing" => Pre::Nothing,
            "closed-future-dropped" => Pre::ClosedDropped,
            "closed-future-twice" => Pre::ClosedTwice,
            _ => vcore::machinery_error(&format!("bad pre {s}")),
        }
    }
}

#[derive(Clone, Debug)]
pub struct RunSpec {
    pub pre: Pre,
    pub row: Row,
    /// compio driver the runtime of this execution is built on
    pub driver: Drv,
    /// set up the probe streams (part B runs, including the un-closed reference run)
    pub probes: bool,
    pub close: Option<ClosePlan>,
}

impl RunSpec {
    pub fn json(&self) -> Value {
        json!({
            "row": self.row.json(),
            "driver": self.driver.name(),
            "pre": self.pre.name(),
            "probes": self.probes,
            "close": self.close.map(|c| json!({"k": c.k, "kind": c.kind.name(), "side": c.side.name()})),
        })
    }

    pub fn from_json(v: &Value) -> RunSpec {
        let close = if v["close"].is_null() {
            None
        } else {
            Some(ClosePlan {
                k: v["close"]["k"].as_u64().unwrap_or(0),
                kind: CloseKind::parse(v["close"]["kind"].as_str().unwrap_or("")),
                side: Side::parse(v["close"]["side"].as_str().unwrap_or("")),
            })
        };
        RunSpec { pre: Pre::parse(v["pre"].as_str().unwrap_or("nothing")), row: Row::from_json(&v["row"]), driver: Drv::parse(v["driver"].as_str().unwrap_or("io-uring")), probes: v["probes"].as_bool().unwrap_or(false), close }
    }
}

// ---------------------------------------------------------------------------------------------
// position-coded data
// ---------------------------------------------------------------------------------------------

/// every byte of a flow is a function of (flow seed, position): a shifted, repeated, dropped or
/// foreign byte is visible at the position where it happens
pub fn byte_at(seed: u32, pos: u64) -> u8 {
    let mut x = (pos as u32).wrapping_mul(0x9E37_79B1).wrapping_add(seed.wrapping_mul(0x85EB_CA6B)) ^ ((pos >> 32) as u32);
    x ^= x >> 15;
    x = x.wrapping_mul(0x2C1B_3C6D);
    x ^= x >> 12;
    x as u8
}

pub fn gen_data(seed: u32, len: usize) -> Vec<u8> {
    (0..len as u64).map(|i| byte_at(seed, i)).collect()
}

/// first position (relative to `bytes`) at which `bytes` differs from the flow's data at `pos`
pub fn mismatch(seed: u32, pos: u64, bytes: &[u8]) -> Option<usize> {
    bytes.iter().enumerate().find(|(i, b)| **b != byte_at(seed, pos + *i as u64)).map(|(i, _)| i)
}

/// seed of the flow written by `writer` on stream `stream_id`
pub fn flow_seed(stream_id: u64, writer: Side) -> u32 {
    (stream_id as u32).wrapping_mul(2).wrapping_add(writer.idx() as u32).wrapping_add(17)
}

/// datagram `i` sent by `side`: 2 header bytes + position-coded body
pub fn dgram(side: Side, i: usize) -> Vec<u8> {
    let len = if i % 2 == 0 { 10 } else { 1000 };
    let seed = 0xD000 + (side.idx() as u32) * 16 + i as u32;
    let mut v = vec![side.idx() as u8, i as u8];
    v.extend((0..(len - 2) as u64).map(|p| byte_at(seed, p)));
    v
}
