//! Part D: "idle-connection actions and credit bursts".
//!
//! (D1, credit bursts) The stream-count limit is exhausted, n `open_*_wait` futures are parked,
//! each hand-polled with its own waker, and the peer grants several stream credits at once
//! (`set_max_concurrent_*_streams`, or n stream closes made in one scheduler turn).  quinn-proto
//! reports ONE `Available` event per MAX_STREAMS frame however many credits it carries: every
//! parked waiter for which a credit exists has to resolve.
//!
//! (D2, idle-connection actions) One API call that queues something for transmission (finish,
//! shutdown, drop of a send stream, reset, a late write, stop, drop of a receive stream,
//! send_datagram, send_datagram_wait; `set_max_concurrent_*_streams` in D1) is issued in a later
//! scheduler turn than all other traffic, after the connection went quiet (UDP counters of both
//! sides unchanged for the settle period).  The peer's parked observer future has to see the effect
//! without any unrelated traffic.
//!
//! The main future of the run is the only actor (no spawned tasks besides compio-quic's own
//! workers); every future under observation is a `Probe` with its own waker, polled only when that
//! waker fired.
use std::{
    any::Any,
    cell::{Cell, RefCell},
    collections::{BTreeMap, BTreeSet, VecDeque},
    future::{Future, poll_fn},
    ops::Range,
    pin::Pin,
    rc::Rc,
    sync::atomic::Ordering,
    task::Poll,
    time::{Duration, Instant},
};

use compio_buf::{BufResult, bytes::Bytes};
use compio_io::{AsyncWrite, AsyncWriteExt};
use compio_quic::{Connection, ConnectionError, ReadError, RecvStream, SendStream, VarInt, WriteError};
use compio_runtime::time::timeout;
use vcore::{Value, json};

use crate::{
    model::*,
    scen::{DriverSlot, Expect, Probe, RunResult, WATCHDOG, connect, in_runtime, short},
};

/// initial stream-count limit of the burst rows (one stream, opened, used and kept open).
/// quinn-proto announces a raised limit only if the increase exceeds 1/8 of the limit: with
/// `BURST_LIMIT` + waiters < 8 every increase is announced at once.
pub const BURST_LIMIT: u32 = 1;
/// an auxiliary step of the actor (not under observation) has to complete within this time
pub const STEP_LIMIT: Duration = Duration::from_secs(10);
/// the connection has to become quiet within this time (otherwise the run goes on un-idle, counted)
pub const QUIET_LIMIT: Duration = Duration::from_secs(3);
const RESET_CODE: u32 = 42;
const STOP_CODE: u32 = 43;

#[derive(Clone, Copy, PartialEq, Eq, Debug, Hash)]
pub enum Action {
    Finish,
    Shutdown,
    DropSend,
    Reset,
    Write,
    Stop,
    DropRecv,
    SendDatagram,
    SendDatagramWait,
}

impl Action {
    pub const ALL: [Action; 9] =
        [Action::Finish, Action::Shutdown, Action::DropSend, Action::Reset, Action::Write, Action::Stop, Action::DropRecv, Action::SendDatagram, Action::SendDatagramWait];

    pub fn name(self) -> &'static str {
        match self {
            Action::Finish => "finish",
            Action::Shutdown => "shutdown",
            Action::DropSend => "drop-send-stream",
            Action::Reset => "reset",
            Action::Write => "write",
            Action::Stop => "stop",
            Action::DropRecv => "drop-recv-stream",
            Action::SendDatagram => "send_datagram",
            Action::SendDatagramWait => "send_datagram_wait",
        }
    }

    pub fn parse(s: &str) -> Action {
        Action::ALL.into_iter().find(|a| a.name() == s).unwrap_or_else(|| vcore::machinery_error(&format!("bad action {s}")))
    }

    /// issued by the reading side on its receive half (needs payload >= 1: the reader has no
    /// handle of a stream nothing was sent on)
    pub fn by_reader(self) -> bool {
        matches!(self, Action::Stop | Action::DropRecv)
    }

    pub fn datagram(self) -> bool {
        matches!(self, Action::SendDatagram | Action::SendDatagramWait)
    }
}

#[derive(Clone, Copy, PartialEq, Eq, Debug, Hash)]
pub enum Kind {
    Uni,
    Bi,
    /// datagram actions: no stream
    NoStream,
}

impl Kind {
    pub fn name(self) -> &'static str {
        match self {
            Kind::Uni => "uni",
            Kind::Bi => "bi",
            Kind::NoStream => "none",
        }
    }

    pub fn parse(s: &str) -> Kind {
        match s {
            "uni" => Kind::Uni,
            "bi" => Kind::Bi,
            "none" => Kind::NoStream,
            _ => vcore::machinery_error(&format!("bad stream kind {s}")),
        }
    }
}

#[derive(Clone, Debug, PartialEq, Eq, Hash)]
pub enum DPlan {
    /// `waiters` parked `open_*_wait` futures on `opener`; the peer raises the limit by `raise`
    /// (then by the rest), afterwards `waiters` credits come back through stream closes
    Burst { waiters: usize, bi: bool, raise: usize, opener: Side },
    /// `side` opens the stream and writes `payload` bytes (the peer reads them); after the
    /// connection went quiet `action` is issued (by `side`, reader actions by its peer)
    Idle { action: Action, kind: Kind, payload: usize, side: Side },
}

#[derive(Clone, Debug)]
pub struct DSpec {
    pub plan: DPlan,
    pub driver: Drv,
    /// the UDP counters of both sides have to be unchanged for this long before the step under test
    pub settle_ms: u64,
}

impl DSpec {
    pub fn json(&self) -> Value {
        let plan = match &self.plan {
            DPlan::Burst { waiters, bi, raise, opener } => json!({"type": "burst", "waiters": waiters, "dir": if *bi { "bi" } else { "uni" }, "raise": raise, "opener": opener.name()}),
            DPlan::Idle { action, kind, payload, side } => json!({"type": "idle", "action": action.name(), "kind": kind.name(), "payload": payload, "side": side.name()}),
        };
        json!({"part": "D", "plan": plan, "driver": self.driver.name(), "settle_ms": self.settle_ms})
    }

    pub fn from_json(v: &Value) -> DSpec {
        let p = &v["plan"];
        let s = |k: &str| p[k].as_str().unwrap_or_else(|| vcore::machinery_error(&format!("replay: missing plan.{k}")));
        let n = |k: &str| p[k].as_u64().unwrap_or_else(|| vcore::machinery_error(&format!("replay: missing plan.{k}"))) as usize;
        let plan = match s("type") {
            "burst" => DPlan::Burst { waiters: n("waiters"), bi: s("dir") == "bi", raise: n("raise"), opener: Side::parse(s("opener")) },
            "idle" => DPlan::Idle { action: Action::parse(s("action")), kind: Kind::parse(s("kind")), payload: n("payload"), side: Side::parse(s("side")) },
            t => vcore::machinery_error(&format!("bad plan type {t}")),
        };
        DSpec { plan, driver: Drv::parse(v["driver"].as_str().unwrap_or("io-uring")), settle_ms: v["settle_ms"].as_u64().unwrap_or(50) }
    }

    pub fn label(&self) -> String {
        match &self.plan {
            DPlan::Burst { waiters, bi, raise, opener } => format!("burst: {waiters} parked open_{}_wait futures on {}, limit raised by {raise}, settle {} ms", if *bi { "bi" } else { "uni" }, opener.name(), self.settle_ms),
            DPlan::Idle { action, kind, payload, side } => format!("idle: {} on an idle connection, stream {} opened by {}, payload {payload}, settle {} ms", action.name(), kind.name(), side.name(), self.settle_ms),
        }
    }
}

/// The rows of part D.
pub fn rows(tier: vcore::Tier) -> Vec<DPlan> {
    let mut v = Vec::new();
    let waiters: &[usize] = tier.pick(&[2, 3], &[2, 3, 5]);
    for &n in waiters {
        let mut raises = vec![1usize, 2, n];
        raises.dedup();
        for bi in [false, true] {
            for &raise in &raises {
                for opener in Side::BOTH {
                    v.push(DPlan::Burst { waiters: n, bi, raise, opener });
                }
            }
        }
    }
    let payloads: &[usize] = tier.pick(&[0, 1, 1200], &[0, 1, 1200, 70_000]);
    for action in Action::ALL {
        for side in Side::BOTH {
            if action.datagram() {
                // (datagram size; 1000 fits the initial MTU of 1200 whatever MTU discovery has found)
                for payload in [0usize, 1, 1000] {
                    v.push(DPlan::Idle { action, kind: Kind::NoStream, payload, side });
                }
                continue;
            }
            for kind in [Kind::Uni, Kind::Bi] {
                for &payload in payloads {
                    if action.by_reader() && payload == 0 {
                        continue;
                    }
                    v.push(DPlan::Idle { action, kind, payload, side });
                }
            }
        }
    }
    v
}

type Hang = (String, String);
type Kept = Rc<RefCell<Vec<Box<dyn Any>>>>;

struct D {
    spec: DSpec,
    start: Instant,
    conn: [Connection; 2],
    probes: RefCell<Vec<Probe>>,
    slot: DriverSlot,
    counters: RefCell<BTreeMap<String, u64>>,
    outcomes: RefCell<BTreeSet<String>>,
    problems: RefCell<Vec<(String, String)>>,
    log: RefCell<VecDeque<String>>,
    steps: Cell<u64>,
    kept: Kept,
}

fn done(p: &Probe) -> bool {
    p.result.is_some()
}

impl D {
    fn count(&self, k: &str) {
        *self.counters.borrow_mut().entry(k.to_string()).or_insert(0) += 1;
    }

    fn note(&self, s: String) {
        self.steps.set(self.steps.get() + 1);
        let mut l = self.log.borrow_mut();
        if l.len() >= 60 {
            l.pop_front();
        }
        l.push_back(format!("[{} ms] {s}", self.start.elapsed().as_millis()));
    }

    fn problem(&self, key: String, what: String) {
        self.note(format!("PROBLEM {key}: {what}"));
        self.problems.borrow_mut().push((key, format!("{}: {what}", self.spec.label())));
    }

    /// creates a probe, polls it once; returns its index
    fn park(&self, side: Side, kind: &'static str, fut: Pin<Box<dyn Future<Output = String>>>) -> usize {
        let mut p = Probe::new(side, kind, Expect::AfterClose, &self.slot, fut);
        p.poll_now();
        let mut ps = self.probes.borrow_mut();
        ps.push(p);
        ps.len() - 1
    }

    fn result(&self, i: usize) -> Option<String> {
        self.probes.borrow()[i].result.clone()
    }

    fn resolved(&self, r: Range<usize>) -> usize {
        self.probes.borrow()[r].iter().filter(|p| done(p)).count()
    }

    /// polls exactly the probes whose own waker fired
    fn pump(&self) {
        let mut ps = self.probes.borrow_mut();
        for p in ps.iter_mut() {
            if p.result.is_none() && p.flag.woken.swap(false, Ordering::SeqCst) {
                p.poll_now();
            }
        }
    }

    /// drives the probes until `cond` or `until`; returns `cond`
    async fn drive(&self, until: Instant, cond: impl Fn(&[Probe]) -> bool) -> bool {
        self.pump();
        if cond(&self.probes.borrow()) {
            return true;
        }
        let now = Instant::now();
        if now >= until {
            return false;
        }
        let _ = timeout(
            until - now,
            poll_fn(|cx| {
                *self.slot.lock().unwrap() = Some(cx.waker().clone());
                self.pump();
                if cond(&self.probes.borrow()) { Poll::Ready(()) } else { Poll::Pending }
            }),
        )
        .await;
        self.slot.lock().unwrap().take();
        self.pump();
        cond(&self.probes.borrow())
    }

    fn traffic(&self) -> [u64; 4] {
        let (a, b) = (self.conn[0].stats(), self.conn[1].stats());
        [a.udp_tx.datagrams, a.udp_rx.datagrams, b.udp_tx.datagrams, b.udp_rx.datagrams]
    }

    /// waits until the UDP counters of both connections have been unchanged for the settle period
    async fn quiet(&self) -> bool {
        let settle = Duration::from_millis(self.spec.settle_ms);
        let limit = Instant::now() + QUIET_LIMIT;
        let mut last = self.traffic();
        let mut since = Instant::now();
        loop {
            self.drive(Instant::now() + Duration::from_millis(5), |_| false).await;
            let cur = self.traffic();
            if cur != last {
                last = cur;
                since = Instant::now();
            } else if since.elapsed() >= settle {
                self.count("idle_reached");
                self.note(format!("connection quiet for {} ms (udp tx/rx cli {}/{} srv {}/{})", since.elapsed().as_millis(), cur[0], cur[1], cur[2], cur[3]));
                return true;
            }
            if Instant::now() >= limit {
                self.count("idle_not_reached");
                self.note("connection did not become quiet".into());
                return false;
            }
        }
    }

    /// an auxiliary step of the actor
    async fn step<T>(&self, what: &str, f: impl Future<Output = T>) -> Result<T, Hang> {
        match timeout(STEP_LIMIT, f).await {
            Ok(v) => {
                self.note(what.to_string());
                Ok(v)
            }
            Err(_) => Err((
                format!("{}:never-stranded:auxiliary-step:{}", self.scenario(), what.split(' ').next().unwrap_or("")),
                format!("{}: auxiliary step '{what}' did not complete within {STEP_LIMIT:?}; {}", self.spec.label(), self.tail()),
            )),
        }
    }

    fn scenario(&self) -> &'static str {
        match self.spec.plan {
            DPlan::Burst { .. } => "burst",
            DPlan::Idle { .. } => "idle",
        }
    }

    fn tail(&self) -> String {
        let stats: Vec<String> = Side::BOTH
            .iter()
            .map(|s| {
                let c = &self.conn[s.idx()];
                let st = c.stats();
                format!("[{} stats: rtt {:?}, udp tx {} rx {} datagrams, lost packets {}, close reason {:?}]", s.name(), c.rtt(), st.udp_tx.datagrams, st.udp_rx.datagrams, st.path.lost_packets, c.close_reason())
            })
            .collect();
        format!("{}; last steps: {}", stats.join(" "), self.log.borrow().iter().rev().take(14).rev().cloned().collect::<Vec<_>>().join(" | "))
    }

    /// Diagnosis of the probes of `r` that did not resolve within the watchdog (the verdict is
    /// already "not resolved"): is a probe ready when it is polled without having been woken?
    /// Returns (lines, number of probes that a poll without wake-up resolved).
    fn diagnose(&self, r: Range<usize>) -> (Vec<String>, usize) {
        let mut lines = Vec::new();
        let mut lost = 0;
        let mut ps = self.probes.borrow_mut();
        for p in ps[r].iter_mut().filter(|p| p.result.is_none()) {
            let (polls, woken) = (p.polls, p.flag.woken.load(Ordering::SeqCst));
            p.poll_now();
            let diag = match &p.result {
                Some(res) => {
                    lost += 1;
                    format!("a poll without wake-up now yields {res}: the wake-up was lost")
                }
                None => "still pending when polled again: the awaited condition has not occurred".to_string(),
            };
            lines.push(format!("pending {} future on {} ({polls} polls, woken={woken}; {diag})", p.kind, p.side.name()));
        }
        (lines, lost)
    }
}

// ---------------------------------------------------------------------------------------------
// helpers on streams
// ---------------------------------------------------------------------------------------------

type Opened = (SendStream, Option<RecvStream>);
type Accepted = (Option<SendStream>, RecvStream);

fn open_now(c: &Connection, bi: bool) -> Result<Opened, String> {
    if bi { c.open_bi().map(|(s, r)| (s, Some(r))).map_err(|e| format!("{e:?}")) } else { c.open_uni().map(|s| (s, None)).map_err(|e| format!("{e:?}")) }
}

async fn accept(c: &Connection, bi: bool) -> Result<Accepted, ConnectionError> {
    if bi { c.accept_bi().await.map(|(s, r)| (Some(s), r)) } else { c.accept_uni().await.map(|r| (None, r)) }
}

fn set_limit(c: &Connection, bi: bool, v: u32) {
    if bi { c.set_max_concurrent_bi_streams(VarInt::from_u32(v)) } else { c.set_max_concurrent_uni_streams(VarInt::from_u32(v)) }
}

/// what one ordered read at position `pos` of the flow `seed` yields
async fn read_obs(recv: &mut RecvStream, seed: u32, pos: u64) -> String {
    match recv.read_chunk(16, true).await {
        Ok(None) => "eof".to_string(),
        Ok(Some(c)) => {
            let good = c.offset == pos && mismatch(seed, pos, &c.bytes).is_none();
            format!("data({}@{}{})", c.bytes.len(), c.offset, if good { "" } else { " WRONG" })
        }
        Err(ReadError::Reset(code)) => format!("reset({})", code.into_inner()),
        Err(e) => short(format!("Err({e:?})")),
    }
}

// ---------------------------------------------------------------------------------------------
// D1: credit bursts
// ---------------------------------------------------------------------------------------------

fn park_waiters(d: &D, c: &Connection, side: Side, bi: bool, n: usize, opened: &Rc<RefCell<Vec<Opened>>>) -> Range<usize> {
    let first = d.probes.borrow().len();
    for _ in 0..n {
        let (c, opened) = (c.clone(), opened.clone());
        if bi {
            d.park(side, "open_bi_wait", Box::pin(async move {
                match c.open_bi_wait().await {
                    Ok((s, r)) => {
                        opened.borrow_mut().push((s, Some(r)));
                        "Ok".to_string()
                    }
                    Err(e) => short(format!("Err({e:?})")),
                }
            }));
        } else {
            d.park(side, "open_uni_wait", Box::pin(async move {
                match c.open_uni_wait().await {
                    Ok(s) => {
                        opened.borrow_mut().push((s, None));
                        "Ok".to_string()
                    }
                    Err(e) => short(format!("Err({e:?})")),
                }
            }));
        }
    }
    first..first + n
}

/// the waiters of `r` have to resolve (at least `expect` of them) within the watchdog
async fn await_credits(d: &D, r: Range<usize>, expect: usize, bi: bool, source: &str, how: &str) -> Result<(), Hang> {
    let r2 = r.clone();
    if d.drive(Instant::now() + WATCHDOG, move |ps| ps[r2.clone()].iter().filter(|p| done(p)).count() >= expect).await {
        return Ok(());
    }
    let got = d.resolved(r.clone());
    let (lines, lost) = d.diagnose(r.clone());
    let cause = if lost > 0 { "lost-wake-up" } else { "credit-missing" };
    let kind = if bi { "open_bi_wait" } else { "open_uni_wait" };
    Err((
        format!("burst:never-stranded:{kind}:{source}:{cause}"),
        format!(
            "{}: {how}: {expect} of the {} parked {kind} futures have a credit, only {got} resolved within {WATCHDOG:?}: {}; {}",
            d.spec.label(),
            r.len(),
            lines.join("; "),
            d.tail()
        ),
    ))
}

async fn run_burst(d: &D, n: usize, bi: bool, raise: usize, o: Side) -> Result<(), Hang> {
    let p = o.other();
    let (oc, pc) = (d.conn[o.idx()].clone(), d.conn[p.idx()].clone());
    let dir = if bi { "bi" } else { "uni" };
    let raise = raise.min(n);
    // the limit is exhausted by one stream that is used (the peer knows it) and stays open
    let (mut hs, hr) = match open_now(&oc, bi) {
        Ok(x) => x,
        Err(e) => {
            d.problem(format!("burst:setup:first-open:{dir}"), format!("open within the initial limit {BURST_LIMIT} failed: {e}"));
            return Ok(());
        }
    };
    let BufResult(r, _) = d.step("write 1 byte on the held stream", hs.write_all(vec![0xA5u8])).await?;
    if let Err(e) = r {
        d.problem(format!("burst:setup:held-write:{dir}"), format!("{e:?}"));
        return Ok(());
    }
    let (ps0, mut pr0) = match d.step("peer accepts the held stream", accept(&pc, bi)).await? {
        Ok(x) => x,
        Err(e) => {
            d.problem(format!("burst:setup:held-accept:{dir}"), format!("{e:?}"));
            return Ok(());
        }
    };
    let got = d.step("peer reads the held stream", pr0.read_chunk(4, true)).await?;
    if !matches!(&got, Ok(Some(c)) if c.bytes[..] == [0xA5]) {
        d.problem(format!("burst:setup:held-read:{dir}"), format!("held stream delivered {got:?}"));
        return Ok(());
    }
    d.kept.borrow_mut().push(Box::new((hs, hr, ps0, pr0)));
    if open_now(&oc, bi).is_ok() {
        // (quinn-proto's business; the row cannot be run)
        d.problem(format!("burst:setup:limit-not-enforced:{dir}"), format!("a second open_{dir} succeeded with stream limit {BURST_LIMIT}"));
        return Ok(());
    }
    let opened: Rc<RefCell<Vec<Opened>>> = Default::default();

    // ---- wave 1: credits by set_max_concurrent_*_streams on the (idle) peer ---------------------
    let w1 = park_waiters(d, &oc, o, bi, n, &opened);
    if d.resolved(w1.clone()) != 0 {
        d.problem(format!("burst:setup:waiter-not-parked:{dir}"), "an open_*_wait future resolved although the limit is exhausted".into());
        return Ok(());
    }
    d.count("burst_waiters_parked");
    d.note(format!("{n} open_{dir}_wait futures parked on {}", o.name()));
    d.quiet().await;
    set_limit(&pc, bi, BURST_LIMIT + raise as u32);
    d.note(format!("{} raises the {dir} stream limit by {raise}", p.name()));
    await_credits(d, w1.clone(), raise, bi, "credit-by-set-max", &format!("{} raised the limit from {BURST_LIMIT} to {} in one call", p.name(), BURST_LIMIT as usize + raise)).await?;
    d.count("burst_credit_by_set_max_resolved");
    d.note(format!("{raise} of the {n} parked open_{dir}_wait futures resolved"));
    // nobody gets a stream without a credit
    d.quiet().await;
    let got = d.resolved(w1.clone());
    d.outcomes.borrow_mut().insert(format!("burst:{dir}:waiters{n}:raise{raise}:first-wave-resolved={got}"));
    if got != raise {
        d.problem(format!("burst:stream-limit:over-grant:{dir}"), format!("{got} of {n} parked open_{dir}_wait futures resolved after the limit was raised by {raise}"));
        return Ok(());
    }
    if raise < n {
        d.count("burst_partial_raise_left_waiters_parked");
        d.quiet().await;
        set_limit(&pc, bi, BURST_LIMIT + n as u32);
        d.note(format!("{} raises the {dir} stream limit by the remaining {}", p.name(), n - raise));
        await_credits(d, w1.clone(), n, bi, "credit-by-set-max", &format!("{} raised the limit by {raise} and then by {} more", p.name(), n - raise)).await?;
        d.count("burst_second_raise_resolved_rest");
        d.note(format!("the remaining {} resolved", n - raise));
    }
    for i in w1.clone() {
        let r = d.result(i).unwrap_or_default();
        if r != "Ok" {
            d.problem(format!("burst:operation:unexpected-error.open_{dir}_wait"), format!("a parked open_{dir}_wait future resolved with {r} although nothing was closed"));
            return Ok(());
        }
    }

    // ---- the streams are real: payload + finish in one turn, the peer accepts all of them ------
    let mut streams: Vec<Opened> = std::mem::take(&mut *opened.borrow_mut());
    for (i, (s, _)) in streams.iter_mut().enumerate() {
        let sid: u64 = s.id().into();
        let data = gen_data(flow_seed(sid, o), 100 + i);
        let BufResult(r, _) = d.step("write on an opened stream", s.write_all(data)).await?;
        let r = r.map_err(|e| format!("{e:?}")).and_then(|()| s.finish().map_err(|e| format!("finish: {e:?}")));
        if let Err(e) = r {
            d.problem(format!("burst:operation:unexpected-error.write:{dir}"), format!("write / finish on stream {sid} obtained from a parked open_{dir}_wait failed: {e}"));
            return Ok(());
        }
    }
    let mut accepted: Vec<Accepted> = Vec::new();
    for _ in 0..n {
        match d.step("peer accepts an opened stream", accept(&pc, bi)).await? {
            Ok(x) => accepted.push(x),
            Err(e) => {
                d.problem(format!("burst:operation:unexpected-error.accept_{dir}"), format!("{e:?}"));
                return Ok(());
            }
        }
    }

    // ---- wave 2: credits by n stream closes made in one scheduler turn -------------------------
    if open_now(&oc, bi).is_ok() {
        d.count("burst_closes_wave_skipped");
        d.note("the limit is not exhausted before the closes: second wave skipped".into());
    } else {
        let w2 = park_waiters(d, &oc, o, bi, n, &opened);
        if d.resolved(w2.clone()) != 0 {
            d.problem(format!("burst:setup:waiter-not-parked:{dir}"), "an open_*_wait future resolved although the raised limit is exhausted".into());
            return Ok(());
        }
        d.quiet().await;
        let rd0 = d.probes.borrow().len();
        for (i, (ps, mut pr)) in accepted.drain(..).enumerate() {
            let sid: u64 = pr.id().into();
            let (seed, len) = (flow_seed(sid, o), 100 + i);
            d.park(p, "read_to_end", Box::pin(async move {
                let BufResult(r, buf) = pr.read_to_end(Vec::new()).await;
                // (bidirectional: the peer's send half is finished by this drop, in the same turn)
                drop(ps);
                match r {
                    Ok(k) if k == len && buf.len() == len && mismatch(seed, 0, &buf).is_none() => "ok".to_string(),
                    Ok(k) => format!("WRONG DATA: {k} bytes (buffer {}), written were {len}, first mismatch at {:?}", buf.len(), mismatch(seed, 0, &buf)),
                    Err(e) => short(format!("Err({e:?})")),
                }
            }));
        }
        let rd = rd0..rd0 + n;
        if d.resolved(rd.clone()) == n {
            d.count("burst_closes_read_in_one_turn");
        }
        d.note(format!("{} reads {n} finished streams to the end in one turn", p.name()));
        let rd2 = rd.clone();
        if !d.drive(Instant::now() + WATCHDOG, move |ps| ps[rd2.clone()].iter().all(done)).await {
            let (lines, lost) = d.diagnose(rd.clone());
            return Err((
                format!("burst:never-stranded:read_to_end:{}", if lost > 0 { "lost-wake-up" } else { "not-delivered" }),
                format!("{}: the peer's read_to_end of the finished streams did not complete within {WATCHDOG:?}: {}; {}", d.spec.label(), lines.join("; "), d.tail()),
            ));
        }
        for i in rd.clone() {
            let r = d.result(i).unwrap_or_default();
            if r != "ok" {
                d.problem(format!("burst:stream-bytes:{}:{dir}", if r.starts_with("WRONG") { "mismatch" } else { "unexpected-error.read_to_end" }), format!("read_to_end of a stream obtained from a parked open_{dir}_wait: {r}"));
                return Ok(());
            }
        }
        await_credits(d, w2.clone(), n, bi, "credit-by-closes", &format!("{} read {n} finished streams to the end{} in one turn ({n} credits come back)", p.name(), if bi { " and finished its own halves" } else { "" })).await?;
        d.count("burst_credit_by_closes_resolved");
        d.note(format!("all {n} open_{dir}_wait futures of the second wave resolved"));
        for i in w2 {
            let r = d.result(i).unwrap_or_default();
            if r != "Ok" {
                d.problem(format!("burst:operation:unexpected-error.open_{dir}_wait"), format!("a parked open_{dir}_wait future resolved with {r} although nothing was closed"));
                return Ok(());
            }
        }
    }
    d.kept.borrow_mut().push(Box::new(streams));
    d.kept.borrow_mut().push(Box::new(accepted));
    d.kept.borrow_mut().push(Box::new(opened));
    Ok(())
}

// ---------------------------------------------------------------------------------------------
// D2: one action on an idle connection
// ---------------------------------------------------------------------------------------------

async fn run_idle(d: &D, action: Action, kind: Kind, payload: usize, s_side: Side) -> Result<(), Hang> {
    let p_side = s_side.other();
    let (sc, pc) = (d.conn[s_side.idx()].clone(), d.conn[p_side.idx()].clone());
    let an = action.name();
    let kn = kind.name();
    // (index, expected result) of the observers
    let mut expect: Vec<(usize, String)> = Vec::new();
    let actor_side = if action.by_reader() { p_side } else { s_side };
    let actor = d.conn[actor_side.idx()].clone();
    let tx0;

    if action.datagram() {
        let size = payload;
        let data: Vec<u8> = (0..size as u64).map(|i| byte_at(0xD1D1, i)).collect();
        let want = data.clone();
        let c = pc.clone();
        let i = d.park(p_side, "recv_datagram", Box::pin(async move {
            match c.recv_datagram().await {
                Ok(b) if b[..] == want[..] => format!("datagram({})", b.len()),
                Ok(b) => format!("WRONG datagram of {} bytes", b.len()),
                Err(e) => short(format!("Err({e:?})")),
            }
        }));
        if d.result(i).is_some() {
            d.problem(format!("idle:setup:observer-not-parked:{an}"), "recv_datagram resolved although nothing was sent".into());
            return Ok(());
        }
        d.count("idle_observer_parked");
        expect.push((i, format!("datagram({size})")));
        d.quiet().await;
        tx0 = actor.stats().udp_tx.datagrams;
        let r = if action == Action::SendDatagram {
            sc.send_datagram(Bytes::from(data))
        } else {
            match d.step("send_datagram_wait", sc.send_datagram_wait(Bytes::from(data))).await {
                Ok(r) => r,
                Err(h) => return Err(h),
            }
        };
        if let Err(e) = r {
            d.problem(format!("idle:operation:unexpected-error.{an}"), format!("{an} of {size} bytes failed: {e:?}"));
            return Ok(());
        }
        d.note(format!("ACTION {an}({size} bytes) by {}", s_side.name()));
    } else {
        let bi = kind == Kind::Bi;
        let (send, srecv) = match open_now(&sc, bi) {
            Ok((s, r)) => (Some(s), r),
            Err(e) => {
                d.problem(format!("idle:setup:open:{kn}"), e);
                return Ok(());
            }
        };
        d.kept.borrow_mut().push(Box::new(srecv));
        let mut send: Option<SendStream> = send;
        let sid: u64 = send.as_ref().unwrap().id().into();
        let seed = flow_seed(sid, s_side);
        let mut have: Option<Accepted> = None;
        if payload > 0 {
            let BufResult(r, _) = d.step("write_all(payload)", send.as_mut().unwrap().write_all(gen_data(seed, payload))).await?;
            if let Err(e) = r {
                d.problem(format!("idle:operation:unexpected-error.write:{kn}"), format!("{e:?}"));
                return Ok(());
            }
            let (ps, mut pr) = match d.step("peer accepts the stream", accept(&pc, bi)).await? {
                Ok(x) => x,
                Err(e) => {
                    d.problem(format!("idle:operation:unexpected-error.accept_{kn}"), format!("{e:?}"));
                    return Ok(());
                }
            };
            let mut pos = 0u64;
            while pos < payload as u64 {
                match d.step("peer reads the payload", pr.read_chunk(4096, true)).await? {
                    Ok(Some(c)) if c.offset == pos && !c.bytes.is_empty() && mismatch(seed, pos, &c.bytes).is_none() && pos + c.bytes.len() as u64 <= payload as u64 => pos += c.bytes.len() as u64,
                    other => {
                        d.problem(
                            format!("idle:stream-bytes:mismatch:{kn}"),
                            format!("read_chunk at position {pos} of {payload} written bytes returned {}", short(format!("{other:?}"))),
                        );
                        return Ok(());
                    }
                }
            }
            have = Some((ps, pr));
        }
        let pos = payload as u64;
        let mut reader_handle: Option<RecvStream> = None;
        if action.by_reader() {
            // the writer observes: stopped(), then a write
            let (ps, pr) = have.take().expect("reader actions need payload >= 1");
            d.kept.borrow_mut().push(Box::new(ps));
            reader_handle = Some(pr);
            let kept = d.kept.clone();
            let mut sendm = send.take().unwrap();
            let i = d.park(s_side, "stopped", Box::pin(async move {
                let a = match sendm.stopped().await {
                    Ok(Some(c)) => format!("stopped->Some({})", c.into_inner()),
                    Ok(None) => "stopped->None".to_string(),
                    Err(e) => short(format!("stopped->Err({e:?})")),
                };
                let mut bufs = [Bytes::from_static(b"x")];
                let b = match sendm.write_chunks(&mut bufs).await {
                    Err(WriteError::Stopped(c)) => format!("write->Stopped({})", c.into_inner()),
                    Ok(w) => format!("write->Ok({})", w.bytes),
                    Err(e) => short(format!("write->Err({e:?})")),
                };
                kept.borrow_mut().push(Box::new(sendm));
                format!("{a}; {b}")
            }));
            let code = if action == Action::Stop { STOP_CODE } else { 0 };
            expect.push((i, format!("stopped->Some({code}); write->Stopped({code})")));
            // (the send half is owned by the observer now)
        } else {
            // the reader observes: (accept,) read(, read after end-of-stream)
            let announced = have.is_none();
            let c = pc.clone();
            let kept = d.kept.clone();
            let want_eof_twice = matches!(action, Action::Finish | Action::Shutdown | Action::DropSend);
            let i = d.park(p_side, if announced { "accept+read" } else { "read" }, Box::pin(async move {
                let mut out = Vec::new();
                let (ps, mut pr) = match have {
                    Some(x) => x,
                    None => match accept(&c, bi).await {
                        Ok(x) => {
                            out.push("accepted".to_string());
                            x
                        }
                        Err(e) => return short(format!("accept->Err({e:?})")),
                    },
                };
                let first = read_obs(&mut pr, seed, pos).await;
                let eof = first == "eof";
                out.push(first);
                if eof && want_eof_twice {
                    out.push(read_obs(&mut pr, seed, pos).await);
                }
                kept.borrow_mut().push(Box::new((ps, pr)));
                out.join("; ")
            }));
            let tail = match action {
                Action::Finish | Action::Shutdown | Action::DropSend => "eof; eof".to_string(),
                Action::Reset => format!("reset({RESET_CODE})"),
                Action::Write => format!("data(1@{pos})"),
                _ => unreachable!(),
            };
            expect.push((i, if announced { format!("accepted; {tail}") } else { tail }));
            if announced {
                d.count("idle_stream_announced_by_the_action");
            }
        }
        if expect.iter().any(|(i, _)| d.result(*i).is_some()) {
            d.problem(format!("idle:setup:observer-not-parked:{an}:{kn}"), format!("the observer resolved before the action: {:?}", d.result(expect[0].0)));
            return Ok(());
        }
        d.count("idle_observer_parked");
        d.quiet().await;
        tx0 = actor.stats().udp_tx.datagrams;
        // ---- the action: nothing else happens in this turn ---------------------------------
        let done: Result<(), String> = match action {
            Action::Finish => send.as_mut().unwrap().finish().map_err(|e| format!("{e:?}")),
            Action::Shutdown => d.step("shutdown", AsyncWrite::shutdown(send.as_mut().unwrap())).await?.map_err(|e| format!("{e:?}")),
            Action::Reset => send.as_mut().unwrap().reset(VarInt::from_u32(RESET_CODE)).map_err(|e| format!("{e:?}")),
            Action::Write => {
                let mut bufs = [Bytes::from(vec![byte_at(seed, pos)])];
                match d.step("late write", send.as_mut().unwrap().write_chunks(&mut bufs)).await? {
                    Ok(w) if w.bytes == 1 => Ok(()),
                    Ok(w) => Err(format!("write_chunks of 1 byte returned {w:?}")),
                    Err(e) => Err(format!("{e:?}")),
                }
            }
            Action::Stop => reader_handle.as_mut().unwrap().stop(VarInt::from_u32(STOP_CODE)).map_err(|e| format!("{e:?}")),
            Action::DropRecv => {
                reader_handle.take();
                Ok(())
            }
            Action::DropSend => Ok(()),
            _ => unreachable!(),
        };
        if let Err(e) = done {
            d.problem(format!("idle:operation:unexpected-error.{an}:{kn}"), format!("{an} failed: {e}"));
            return Ok(());
        }
        d.note(format!("ACTION {an} by {} on {kn} stream {sid} after {payload} bytes", actor_side.name()));
        match action {
            Action::Finish | Action::Shutdown => {
                // the writer's stopped() is parked in the same turn (it transmits nothing)
                let kept = d.kept.clone();
                let mut send = send.take().unwrap();
                let i = d.park(s_side, "stopped", Box::pin(async move {
                    let r = match send.stopped().await {
                        Ok(None) => "stopped->None".to_string(),
                        Ok(Some(c)) => format!("stopped->Some({})", c.into_inner()),
                        Err(e) => short(format!("stopped->Err({e:?})")),
                    };
                    kept.borrow_mut().push(Box::new(send));
                    r
                }));
                expect.push((i, "stopped->None".to_string()));
            }
            Action::DropSend => drop(send.take()),
            _ => d.kept.borrow_mut().push(Box::new(send)),
        }
        d.kept.borrow_mut().push(Box::new(reader_handle));
    }
    d.count(&format!("idle_action:{an}"));

    // ---- every observer has to see the effect, without any other traffic ------------------------
    let idx: Vec<usize> = expect.iter().map(|(i, _)| *i).collect();
    let idx2 = idx.clone();
    let all = 0..d.probes.borrow().len();
    if !d.drive(Instant::now() + WATCHDOG, move |ps| idx2.iter().all(|&i| done(&ps[i]))).await {
        let tx1 = actor.stats().udp_tx.datagrams;
        let (mut lines, lost) = d.diagnose(all.clone());
        let still = d.resolved(all.clone()) < all.len();
        let cause = if tx1 == tx0 {
            "not-transmitted"
        } else if lost > 0 {
            "lost-wake-up"
        } else {
            "not-delivered"
        };
        if action.datagram() && cause == "not-delivered" {
            // loss of an application datagram is legal
            d.count("idle_datagram_lost");
            d.outcomes.borrow_mut().insert(format!("idle:{an}:{kn}:datagram-lost"));
            return Ok(());
        }
        lines.push(format!("udp datagrams transmitted by {} when {an} was called: {tx0}, {WATCHDOG:?} later: {tx1}{}", actor_side.name(), if tx1 == tx0 { " (nothing was transmitted after the call)" } else { "" }));
        if still && !action.datagram() {
            // diagnosis only: does unrelated traffic carry the queued frame along?
            let _ = actor.send_datagram(Bytes::from_static(b"nudge"));
            let idx3 = idx.clone();
            let ok = d.drive(Instant::now() + Duration::from_millis(500), move |ps| idx3.iter().all(|&i| done(&ps[i]))).await;
            lines.push(if ok {
                format!("after an unrelated send_datagram by {} the observers resolved ({}): the frame had been queued but the connection was not woken to transmit it", actor_side.name(), idx.iter().map(|&i| d.result(i).unwrap_or_default()).collect::<Vec<_>>().join(" / "))
            } else {
                "an unrelated send_datagram did not resolve them either".to_string()
            });
        }
        return Err((
            format!("idle:never-stranded:{an}:{kn}:{cause}"),
            format!("{}: the effect of {an} was not observed within {WATCHDOG:?}: {}; {}", d.spec.label(), lines.join("; "), d.tail()),
        ));
    }
    d.count("idle_observers_resolved");
    let mut seen = Vec::new();
    for (i, want) in &expect {
        let got = d.result(*i).unwrap_or_default();
        if &got != want {
            let (side, pk) = {
                let ps = d.probes.borrow();
                (ps[*i].side, ps[*i].kind)
            };
            d.problem(format!("idle:effect:{an}:{kn}:unexpected-result.{pk}"), format!("after {an} the {pk} observer on {} yielded [{got}], expected [{want}]", side.name()));
        }
        seen.push(got);
    }
    d.note(format!("observed: {}", seen.join(" / ")));
    d.outcomes.borrow_mut().insert(format!("idle:{an}:{kn}:{}", seen.join(" / ")));
    Ok(())
}

// ---------------------------------------------------------------------------------------------
// one run
// ---------------------------------------------------------------------------------------------

async fn run_async(spec: DSpec) -> RunResult {
    let start = Instant::now();
    let row = Row {
        payload: 0,
        wchunk: Chunk::All,
        rchunk: Chunk::All,
        api: Api::Chunks,
        streams: Streams::Uni1,
        dgrams: 0,
        win: Win::Default,
        limit: match spec.plan {
            DPlan::Burst { .. } => BURST_LIMIT,
            DPlan::Idle { .. } => 100,
        },
        pacing: Pacing::Eager,
    };
    let empty = |problems: Vec<(String, String)>, hang: Option<Hang>| RunResult {
        events: 0,
        problems,
        hang,
        outcomes: Vec::new(),
        counters: BTreeMap::new(),
        log_tail: Vec::new(),
        wall_ms: start.elapsed().as_millis() as u64,
        marks: Vec::new(),
        side_findings: Vec::new(),
    };
    let scenario = match spec.plan {
        DPlan::Burst { .. } => "burst",
        DPlan::Idle { .. } => "idle",
    };
    let (cep, sep, c, s) = match timeout(crate::scen::SETUP_LIMIT, connect(&row, false)).await {
        Ok(Ok(x)) => x,
        Ok(Err(e)) => return empty(vec![(format!("{scenario}:setup:failed"), format!("{}: {e}", spec.label()))], None),
        Err(_) => return empty(Vec::new(), Some((format!("{scenario}:never-stranded:setup:handshake"), format!("{}: handshake did not complete in {:?}", spec.label(), crate::scen::SETUP_LIMIT)))),
    };
    let d = D {
        spec: spec.clone(),
        start,
        conn: [c, s],
        probes: Default::default(),
        slot: Default::default(),
        counters: Default::default(),
        outcomes: Default::default(),
        problems: Default::default(),
        log: Default::default(),
        steps: Cell::new(0),
        kept: Default::default(),
    };
    let hang = match spec.plan.clone() {
        DPlan::Burst { waiters, bi, raise, opener } => run_burst(&d, waiters, bi, raise, opener).await.err(),
        DPlan::Idle { action, kind, payload, side } => run_idle(&d, action, kind, payload, side).await.err(),
    };
    d.conn[0].close(VarInt::from_u32(0), b"done");
    let r = RunResult {
        events: d.steps.get(),
        problems: d.problems.borrow().clone(),
        hang,
        outcomes: d.outcomes.borrow().iter().cloned().collect(),
        counters: d.counters.borrow().clone(),
        log_tail: d.log.borrow().iter().cloned().collect(),
        wall_ms: start.elapsed().as_millis() as u64,
        marks: Vec::new(),
        side_findings: Vec::new(),
    };
    // probes and stream handles go before the connections and endpoints
    d.probes.borrow_mut().clear();
    d.kept.borrow_mut().clear();
    drop(d);
    drop((cep, sep));
    r
}

/// One execution in a fresh runtime on the calling thread.
pub fn run_once(spec: &DSpec) -> RunResult {
    in_runtime(spec.driver, run_async(spec.clone()))
}
